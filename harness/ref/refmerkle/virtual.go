package refmerkle

// Virtual is a log of N records that all equal one base record, except at a handful of special
// positions. Every hash RFC 6962 defines over it is computable in O(log N) steps, so the prover
// side of a tree of 2^50 or 2^61 records can be compared with the definition without storing it.
type Virtual struct {
	N       int64
	base    []byte
	special map[int64][]byte
	hl      []H // hl[k]: hash of a complete subtree of 2^k base records
	memo    map[[2]int64]H
}

// NewVirtual builds the log (n < 2^62 so that stored-hash positions fit an int64).
func NewVirtual(n int64, base []byte, special map[int64][]byte) *Virtual {
	v := &Virtual{N: n, base: base, special: special, memo: map[[2]int64]H{}}
	h := Leaf(base)
	for k := 0; k < 63; k++ {
		v.hl = append(v.hl, h)
		h = Node(h, h)
	}
	return v
}

// Rec is record i.
func (v *Virtual) Rec(i int64) []byte {
	if s, ok := v.special[i]; ok {
		return s
	}
	return v.base
}

func (v *Virtual) plain(lo, hi int64) bool {
	for p := range v.special {
		if lo <= p && p < hi {
			return false
		}
	}
	return true
}

// Sub is the hash of the complete subtree (level, offset).
func (v *Virtual) Sub(level int, offset int64) H {
	lo := offset << uint(level)
	hi := lo + int64(1)<<uint(level)
	if v.plain(lo, hi) {
		return v.hl[level]
	}
	if level == 0 {
		return Leaf(v.Rec(lo))
	}
	key := [2]int64{int64(level), offset}
	if h, ok := v.memo[key]; ok {
		return h
	}
	h := Node(v.Sub(level-1, 2*offset), v.Sub(level-1, 2*offset+1))
	v.memo[key] = h
	return h
}

// k2v is the largest power of two smaller than n (n > 1).
func k2v(n int64) int64 {
	k := int64(1)
	for k*2 < n {
		k *= 2
	}
	return k
}

// MTH is MTH(D[lo:hi]) of RFC 6962 §2.1; lo is always a multiple of the largest power of two
// below hi-lo on the paths the definitions take, so complete ranges are subtrees.
func (v *Virtual) MTH(lo, hi int64) H {
	n := hi - lo
	if n == 1 {
		return v.Sub(0, lo)
	}
	if n&(n-1) == 0 && lo%n == 0 {
		level := 0
		for int64(1)<<uint(level) < n {
			level++
		}
		return v.Sub(level, lo>>uint(level))
	}
	k := k2v(n)
	return Node(v.MTH(lo, lo+k), v.MTH(lo+k, hi))
}

// Root is the tree hash of the first n records.
func (v *Virtual) Root(n int64) H { return v.MTH(0, n) }

// Path is PATH(m, D[0:n]) of RFC 6962 §2.1.1.
func (v *Virtual) Path(m, n int64) []H { return v.path(m, 0, n) }

func (v *Virtual) path(m, lo, hi int64) []H {
	if hi-lo == 1 {
		return nil
	}
	k := k2v(hi - lo)
	if m < k {
		return append(v.path(m, lo, lo+k), v.MTH(lo+k, hi))
	}
	return append(v.path(m-k, lo+k, hi), v.MTH(lo, lo+k))
}

// Proof is PROOF(m, D[0:n]) of RFC 6962 §2.1.2.
func (v *Virtual) Proof(m, n int64) []H { return v.subproof(m, 0, n, true) }

func (v *Virtual) subproof(m, lo, hi int64, b bool) []H {
	n := hi - lo
	if m == n {
		if b {
			return nil
		}
		return []H{v.MTH(lo, hi)}
	}
	k := k2v(n)
	if m <= k {
		return append(v.subproof(m, lo, lo+k, b), v.MTH(lo+k, hi))
	}
	return append(v.subproof(m-k, lo+k, hi, false), v.MTH(lo, lo+k))
}

// SplitStored inverts StoredIndex: the x-th stored hash is the level-th hash completed by record r,
// where r is the largest record count with StoredCount(r) <= x. ok is false when x is not a position
// of any hash.
func SplitStored(x int64) (level int, offset int64, ok bool) {
	if x < 0 {
		return 0, 0, false
	}
	lo, hi := int64(0), int64(1)<<62
	for lo < hi {
		mid := lo + (hi-lo+1)/2
		if c := StoredCount(mid); c >= 0 && c <= x {
			lo = mid
		} else {
			hi = mid - 1
		}
	}
	level = int(x - StoredCount(lo))
	if level > 62 || (lo+1)%(int64(1)<<uint(level)) != 0 {
		return 0, 0, false
	}
	return level, (lo+1)>>uint(level) - 1, true
}
