package refmerkle
import "testing"
func TestVirtualAgainstReal(t *testing.T) {
	for n := 1; n <= 70; n++ {
		recs := make([][]byte, n)
		sp := map[int64][]byte{}
		for i := range recs { recs[i] = []byte("base") }
		for _, p := range []int{0, 3, n - 1, n / 2} { if p >= 0 && p < n { recs[p] = []byte{byte(p), 'x'}; sp[int64(p)] = recs[p] } }
		l := New(recs); v := NewVirtual(int64(n), []byte("base"), sp)
		for m := 1; m <= n; m++ {
			if l.Root(m) != v.Root(int64(m)) { t.Fatalf("root %d/%d", m, n) }
			pa, pb := l.Proof(m, n), v.Proof(int64(m), int64(n))
			if len(pa) != len(pb) { t.Fatalf("proof len") }
			for i := range pa { if pa[i] != pb[i] { t.Fatalf("proof %d %d", m, n) } }
		}
		for m := 0; m < n; m++ {
			pa, pb := l.Path(m, n), v.Path(int64(m), int64(n))
			if len(pa) != len(pb) { t.Fatalf("path len") }
			for i := range pa { if pa[i] != pb[i] { t.Fatalf("path %d %d", m, n) } }
		}
		st := l.StoredAll(n)
		for x := range st {
			lv, off, ok := SplitStored(int64(x))
			if !ok || StoredIndex(lv, off) != int64(x) || v.Sub(lv, off) != st[x] { t.Fatalf("stored %d of %d: %d %d %v", x, n, lv, off, ok) }
		}
	}
}
