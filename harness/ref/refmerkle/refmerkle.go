// Package refmerkle is an independent RFC 6962 / RFC 9162 Merkle tree model:
// recursive tree hash, audit paths, consistency proofs, the two verification
// algorithms, complete-subtree hashes, the dense stored-hash ordering and
// tile contents. It imports nothing from golang.org/x/mod.
package refmerkle

import (
	"crypto/sha256"
	"fmt"
	"strings"
	"sync"
)

// H is a SHA-256 hash.
type H = [32]byte

// Leaf is the RFC 6962 leaf hash.
func Leaf(d []byte) H {
	h := sha256.New()
	h.Write([]byte{0})
	h.Write(d)
	var o H
	h.Sum(o[:0])
	return o
}

// Node is the RFC 6962 interior hash.
func Node(l, r H) H {
	h := sha256.New()
	h.Write([]byte{1})
	h.Write(l[:])
	h.Write(r[:])
	var o H
	h.Sum(o[:0])
	return o
}

// k2 is the largest power of two smaller than n (n > 1).
func k2(n int) int {
	k := 1
	for k*2 < n {
		k *= 2
	}
	return k
}

// Log is a sequence of records with memoised sub-range hashes.
type Log struct {
	Recs [][]byte
	mu   sync.Mutex // guards memo; a Log may be read from several goroutines
	memo map[[2]int]H
}

// New makes a log over records.
func New(recs [][]byte) *Log { return &Log{Recs: recs, memo: map[[2]int]H{}} }

// Append adds a record.
func (l *Log) Append(rec []byte) { l.Recs = append(l.Recs, rec) }

// MTH is the Merkle tree hash of records [lo, hi).
func (l *Log) MTH(lo, hi int) H {
	if hi == lo {
		return sha256.Sum256(nil)
	}
	if hi-lo == 1 {
		return Leaf(l.Recs[lo])
	}
	key := [2]int{lo, hi}
	l.mu.Lock()
	h, ok := l.memo[key]
	l.mu.Unlock()
	if ok {
		return h
	}
	k := k2(hi - lo)
	h = Node(l.MTH(lo, lo+k), l.MTH(lo+k, hi))
	l.mu.Lock()
	l.memo[key] = h
	l.mu.Unlock()
	return h
}

// Root is the tree hash of the first n records.
func (l *Log) Root(n int) H { return l.MTH(0, n) }

// Path is PATH(m, D[0:n]) of RFC 6962 §2.1.1.
func (l *Log) Path(m, n int) []H { return l.path(m, 0, n) }

func (l *Log) path(m, lo, hi int) []H {
	if hi-lo == 1 {
		return nil
	}
	k := k2(hi - lo)
	if m < k {
		return append(l.path(m, lo, lo+k), l.MTH(lo+k, hi))
	}
	return append(l.path(m-k, lo+k, hi), l.MTH(lo, lo+k))
}

// Proof is PROOF(m, D[0:n]) of RFC 6962 §2.1.2.
func (l *Log) Proof(m, n int) []H { return l.subproof(m, 0, n, true) }

func (l *Log) subproof(m, lo, hi int, b bool) []H {
	n := hi - lo
	if m == n {
		if b {
			return nil
		}
		return []H{l.MTH(lo, hi)}
	}
	k := k2(n)
	if m <= k {
		return append(l.subproof(m, lo, lo+k, b), l.MTH(lo+k, hi))
	}
	return append(l.subproof(m-k, lo+k, hi, false), l.MTH(lo, lo+k))
}

// VerifyIncl is the RFC 9162 §2.1.3.2 inclusion verification algorithm.
func VerifyIncl(p []H, leafIndex, treeSize int64, leafHash, root H) bool {
	if leafIndex < 0 || treeSize < 0 || leafIndex >= treeSize {
		return false
	}
	fn, sn := leafIndex, treeSize-1
	r := leafHash
	for _, h := range p {
		if sn == 0 {
			return false
		}
		if fn&1 == 1 || fn == sn {
			r = Node(h, r)
			if fn&1 == 0 {
				for fn&1 == 0 && fn != 0 {
					fn >>= 1
					sn >>= 1
				}
			}
		} else {
			r = Node(r, h)
		}
		fn >>= 1
		sn >>= 1
	}
	return sn == 0 && r == root
}

// VerifyCons is the RFC 9162 §2.1.4.2 consistency verification algorithm.
func VerifyCons(p []H, first, second int64, firstHash, secondHash H) bool {
	if first < 1 || second < 1 || first > second {
		return false
	}
	if first == second {
		return len(p) == 0 && firstHash == secondHash
	}
	if len(p) == 0 {
		return false
	}
	if first&(first-1) == 0 {
		p = append([]H{firstHash}, p...)
	}
	fn, sn := first-1, second-1
	for fn&1 == 1 {
		fn >>= 1
		sn >>= 1
	}
	fr, sr := p[0], p[0]
	for _, c := range p[1:] {
		if sn == 0 {
			return false
		}
		if fn&1 == 1 || fn == sn {
			fr = Node(c, fr)
			sr = Node(c, sr)
			for fn&1 == 0 && fn != 0 {
				fn >>= 1
				sn >>= 1
			}
		} else {
			sr = Node(sr, c)
		}
		fn >>= 1
		sn >>= 1
	}
	return fr == firstHash && sr == secondHash && sn == 0
}

// Subtree is the hash of the complete subtree at (level, offset).
func (l *Log) Subtree(level int, offset int64) H {
	lo := int(offset << uint(level))
	return l.MTH(lo, lo+(1<<uint(level)))
}

// StoredCount is the number of complete-subtree hashes in a tree of n records: Σ_l ⌊n/2^l⌋.
func StoredCount(n int64) int64 {
	var c int64
	for ; n > 0; n >>= 1 {
		c += n
	}
	return c
}

// StoredIndex is the position of the hash (level, offset) when hashes are stored
// in order of completion (record by record, lower levels first): the hash is
// completed by record ((offset+1)<<level)-1, after all hashes completed by
// earlier records and after the `level` lower-level hashes completed by the
// same record.
func StoredIndex(level int, offset int64) int64 {
	rec := ((offset + 1) << uint(level)) - 1
	return StoredCount(rec) + int64(level)
}

// StoredAll lists the stored hashes of the first n records in storage order.
func (l *Log) StoredAll(n int) []H {
	var out []H
	for i := 0; i < n; i++ {
		for level := 0; (i+1)%(1<<uint(level)) == 0; level++ {
			out = append(out, l.Subtree(level, int64((i+1)>>uint(level))-1))
		}
	}
	return out
}

// Tile is a tile coordinate (mirror of the documented struct, independent type).
type Tile struct {
	H, L int
	N    int64
	W    int
}

// TileBytes is the true content of a hash tile for this log.
func (l *Log) TileBytes(t Tile) []byte {
	out := make([]byte, 0, 32*t.W)
	for i := 0; i < t.W; i++ {
		h := l.Subtree(t.H*t.L, t.N<<uint(t.H)+int64(i))
		out = append(out, h[:]...)
	}
	return out
}

// TileExists reports whether the tile is within a tree of n records.
func TileExists(t Tile, n int64) bool {
	levelCount := n >> uint(t.H*t.L) // hashes at that level
	return t.W >= 1 && t.W <= 1<<uint(t.H) && t.N<<uint(t.H)+int64(t.W) <= levelCount
}

// TilePath formats a tile coordinate as documented: tile/H/L/NNN[.p/W],
// N in 3-digit groups, all but the last prefixed with x, L=-1 as "data".
func TilePath(t Tile) string {
	n := t.N
	nStr := fmt.Sprintf("%03d", n%1000)
	for n >= 1000 {
		n /= 1000
		nStr = fmt.Sprintf("x%03d/%s", n%1000, nStr)
	}
	p := ""
	if t.W != 1<<uint(t.H) {
		p = fmt.Sprintf(".p/%d", t.W)
	}
	L := fmt.Sprint(t.L)
	if t.L == -1 {
		L = "data"
	}
	return "tile/" + fmt.Sprint(t.H) + "/" + L + "/" + nStr + p
}

// ParseTilePath is the strict inverse of TilePath (canonical paths only).
func ParseTilePath(s string) (Tile, bool) {
	f := strings.Split(s, "/")
	if len(f) < 4 || f[0] != "tile" {
		return Tile{}, false
	}
	dec := func(x string) (int64, bool) {
		if x == "" || len(x) > 18 || (len(x) > 1 && x[0] == '0') {
			return 0, false
		}
		var v int64
		for _, c := range x {
			if c < '0' || c > '9' {
				return 0, false
			}
			v = v*10 + int64(c-'0')
		}
		return v, true
	}
	h, ok := dec(f[1])
	if !ok || h < 1 || h > 30 {
		return Tile{}, false
	}
	var L int64
	if f[2] == "data" {
		L = -1
	} else {
		L, ok = dec(f[2])
		if !ok || L > 63 {
			return Tile{}, false
		}
	}
	t := Tile{H: int(h), L: int(L), W: 1 << uint(h)}
	rest := f[3:]
	if len(rest) >= 2 && strings.HasSuffix(rest[len(rest)-2], ".p") {
		w, ok := dec(rest[len(rest)-1])
		if !ok || w < 1 || w >= 1<<uint(h) {
			return Tile{}, false
		}
		t.W = int(w)
		rest = rest[:len(rest)-1]
		rest[len(rest)-1] = strings.TrimSuffix(rest[len(rest)-1], ".p")
	}
	var n int64
	for i, g := range rest {
		last := i == len(rest)-1
		if !last {
			if len(g) != 4 || g[0] != 'x' {
				return Tile{}, false
			}
			g = g[1:]
		}
		if len(g) != 3 {
			return Tile{}, false
		}
		var v int64
		for _, c := range g {
			if c < '0' || c > '9' {
				return Tile{}, false
			}
			v = v*10 + int64(c-'0')
		}
		if n > (1<<62)/1000 {
			return Tile{}, false
		}
		n = n*1000 + v
	}
	t.N = n
	if TilePath(t) != s {
		return Tile{}, false
	}
	return t, true
}
