// Package refmodfile is an executable set/map model of the documented edit
// operations of golang.org/x/mod/modfile on go.mod and go.work files, written
// from the doc comments of the operations (DESIGN.md §5.8). It imports nothing
// from golang.org/x/mod.
//
// A file is a handful of ordered keyed collections (requires, excludes,
// replaces, retracts, tools, godebugs, uses) plus three optional scalars
// (module, go, toolchain). Layout (which block a line lives in) is not part of
// the model. Every entry remembers the id of the starting-file line it came
// from (UID, 0 for entries created by an operation) and whether an operation
// has targeted it since (Touched); the monitors use that to decide whose
// comments must have survived.
package refmodfile

import (
	"fmt"
	"sort"
	"strconv"
	"strings"

	"verif/harness/ref/refsemver"
)

// Stmt is one of the scalar statements module / go / toolchain.
type Stmt struct {
	Present bool
	Val     string
	UID     int
	Touched bool
}

// Req is one require line.
type Req struct {
	Path, Vers string
	Indirect   bool
	UID        int
	Touched    bool
}

// Exc is one exclude line.
type Exc struct {
	Path, Vers string
	UID        int
}

// Rep is one replace line.
type Rep struct {
	OldPath, OldVers, NewPath, NewVers string
	UID                                int
	Touched                            bool
}

// Ret is one retract line. HasRationale says whether Rationale is known to the
// model (entries created by AddRetract); for starting-file lines the rationale
// is a function of the comment layout, which the model does not describe.
type Ret struct {
	Low, High    string
	Rationale    string
	HasRationale bool
	UID          int
}

// Tool is one tool line.
type Tool struct {
	Path string
	UID  int
}

// Gdb is one godebug line.
type Gdb struct {
	Key, Value string
	UID        int
	Touched    bool
}

// Use is one go.work use line.
type Use struct {
	Path    string
	UID     int
	Touched bool
}

// File is the model of a go.mod (Work == false) or go.work (Work == true) file.
type File struct {
	Work      bool
	Module    Stmt
	Go        Stmt
	Toolchain Stmt
	Req       []Req
	Exc       []Exc
	Rep       []Rep
	Ret       []Ret
	Tool      []Tool
	Gdb       []Gdb
	Use       []Use
}

// Clone returns a deep copy.
func (f *File) Clone() *File {
	g := *f
	g.Req = append([]Req(nil), f.Req...)
	g.Exc = append([]Exc(nil), f.Exc...)
	g.Rep = append([]Rep(nil), f.Rep...)
	g.Ret = append([]Ret(nil), f.Ret...)
	g.Tool = append([]Tool(nil), f.Tool...)
	g.Gdb = append([]Gdb(nil), f.Gdb...)
	g.Use = append([]Use(nil), f.Use...)
	return &g
}

// ---------------------------------------------------------------------------
// Canonical directive strings, used on both sides of every multiset comparison.

func FmtModule(p string) string    { return "module " + strconv.Quote(p) }
func FmtGo(v string) string        { return "go " + v }
func FmtToolchain(n string) string { return "toolchain " + n }
func FmtRequire(p, v string, indirect bool) string {
	if indirect {
		return "require " + strconv.Quote(p) + " " + v + " indirect"
	}
	return "require " + strconv.Quote(p) + " " + v
}
func FmtExclude(p, v string) string { return "exclude " + strconv.Quote(p) + " " + v }
func FmtReplace(op, ov, np, nv string) string {
	return fmt.Sprintf("replace %q %q => %q %q", op, ov, np, nv)
}
func FmtRetract(low, high string) string { return "retract [" + low + ", " + high + "]" }
func FmtRetractRationale(low, high, rationale string) string {
	return FmtRetract(low, high) + " rationale=" + strconv.Quote(rationale)
}
func FmtTool(p string) string       { return "tool " + strconv.Quote(p) }
func FmtGodebug(k, v string) string { return "godebug " + k + "=" + v }
func FmtUse(p string) string        { return "use " + strconv.Quote(p) }

// Directives returns the sorted multiset of directives the model predicts.
func (f *File) Directives() []string {
	var s []string
	if f.Module.Present {
		s = append(s, FmtModule(f.Module.Val))
	}
	if f.Go.Present {
		s = append(s, FmtGo(f.Go.Val))
	}
	if f.Toolchain.Present {
		s = append(s, FmtToolchain(f.Toolchain.Val))
	}
	for _, r := range f.Req {
		s = append(s, FmtRequire(r.Path, r.Vers, r.Indirect))
	}
	for _, x := range f.Exc {
		s = append(s, FmtExclude(x.Path, x.Vers))
	}
	for _, r := range f.Rep {
		s = append(s, FmtReplace(r.OldPath, r.OldVers, r.NewPath, r.NewVers))
	}
	for _, r := range f.Ret {
		s = append(s, FmtRetract(r.Low, r.High))
	}
	for _, t := range f.Tool {
		s = append(s, FmtTool(t.Path))
	}
	for _, g := range f.Gdb {
		s = append(s, FmtGodebug(g.Key, g.Value))
	}
	for _, u := range f.Use {
		s = append(s, FmtUse(u.Path))
	}
	sort.Strings(s)
	return s
}

// DiffMultiset returns the signed differences between two sorted multisets:
// "+x" for an element that a has more often than b, "-x" for the converse.
func DiffMultiset(a, b []string) []string {
	m := map[string]int{}
	for _, x := range a {
		m[x]++
	}
	for _, x := range b {
		m[x]--
	}
	var d []string
	for x, n := range m {
		for ; n > 0; n-- {
			d = append(d, "+"+x)
		}
		for ; n < 0; n++ {
			d = append(d, "-"+x)
		}
	}
	sort.Strings(d)
	return d
}

// ---------------------------------------------------------------------------
// Operations. Each returns a short effect label (used for coverage classes).

func setStmt(s *Stmt, v string) string {
	if !s.Present {
		*s = Stmt{Present: true, Val: v}
		return "new"
	}
	eff := "update"
	if s.Val == v {
		eff = "same"
	}
	s.Val = v
	s.Touched = true
	return eff
}

func dropStmt(s *Stmt) string {
	if !s.Present {
		return "absent"
	}
	*s = Stmt{}
	return "dropped"
}

func (f *File) AddModuleStmt(p string) string    { return setStmt(&f.Module, p) }
func (f *File) AddGoStmt(v string) string        { return setStmt(&f.Go, v) }
func (f *File) DropGoStmt() string               { return dropStmt(&f.Go) }
func (f *File) AddToolchainStmt(n string) string { return setStmt(&f.Toolchain, n) }
func (f *File) DropToolchainStmt() string        { return dropStmt(&f.Toolchain) }

func many(n int) string {
	switch n {
	case 0:
		return "none"
	case 1:
		return "one"
	}
	return "many"
}

// AddRequire: the first line for path gets the version (comments and the
// indirect marking stay), all other lines for path go; without a line a direct
// requirement is appended.
func (f *File) AddRequire(path, vers string) string {
	out := f.Req[:0:0]
	found, dups, same := false, 0, false
	for _, r := range f.Req {
		if r.Path == path {
			if found {
				dups++
				continue
			}
			found = true
			same = r.Vers == vers
			r.Vers = vers
			r.Touched = true
		}
		out = append(out, r)
	}
	if !found {
		out = append(out, Req{Path: path, Vers: vers})
		f.Req = out
		return "append"
	}
	f.Req = out
	eff := "update"
	if same {
		eff = "same"
	}
	if dups > 0 {
		eff += "+dups-removed"
	}
	return eff
}

// AddNewRequire appends regardless of existing lines.
func (f *File) AddNewRequire(path, vers string, indirect bool) string {
	dup := "fresh"
	for _, r := range f.Req {
		if r.Path == path {
			dup = "duplicate-path"
		}
	}
	f.Req = append(f.Req, Req{Path: path, Vers: vers, Indirect: indirect})
	return dup
}

func (f *File) DropRequire(path string) string {
	out := f.Req[:0:0]
	n := 0
	for _, r := range f.Req {
		if r.Path == path {
			n++
			continue
		}
		out = append(out, r)
	}
	f.Req = out
	return many(n)
}

// SetRequire models both SetRequire and SetRequireSeparateIndirect: exactly the
// requested set; the first existing line of a requested path is kept (version
// and marking updated), everything else for that path and all unrequested
// paths go; missing paths are appended; then the documented de-duplication of
// SortBlocks runs. want must have distinct paths.
func (f *File) SetRequire(want []Req) (effect string, dedup []string) {
	need := map[string]Req{}
	for _, w := range want {
		need[w.Path] = w
	}
	seen := map[string]bool{}
	out := f.Req[:0:0]
	kept, removed, dupRemoved, added := 0, 0, 0, 0
	for _, r := range f.Req {
		w, ok := need[r.Path]
		switch {
		case !ok:
			removed++
			continue
		case seen[r.Path]:
			dupRemoved++
			continue
		}
		seen[r.Path] = true
		r.Vers, r.Indirect, r.Touched = w.Vers, w.Indirect, true
		out = append(out, r)
		kept++
	}
	for _, w := range want {
		if !seen[w.Path] {
			seen[w.Path] = true
			out = append(out, Req{Path: w.Path, Vers: w.Vers, Indirect: w.Indirect})
			added++
		}
	}
	f.Req = out
	effect = setEffect(kept, removed, dupRemoved, added)
	return effect, f.Dedup()
}

func setEffect(kept, removed, dupRemoved, added int) string {
	var parts []string
	for _, p := range []struct {
		n int
		s string
	}{{kept, "kept"}, {removed, "removed"}, {dupRemoved, "dup-removed"}, {added, "added"}} {
		if p.n > 0 {
			parts = append(parts, p.s)
		}
	}
	if len(parts) == 0 {
		return "empty"
	}
	return strings.Join(parts, "+")
}

func (f *File) AddExclude(path, vers string) string {
	for _, x := range f.Exc {
		if x.Path == path && x.Vers == vers {
			return "noop-present"
		}
	}
	f.Exc = append(f.Exc, Exc{Path: path, Vers: vers})
	return "append"
}

func (f *File) DropExclude(path, vers string) string {
	out := f.Exc[:0:0]
	n := 0
	for _, x := range f.Exc {
		if x.Path == path && x.Vers == vers {
			n++
			continue
		}
		out = append(out, x)
	}
	f.Exc = out
	return many(n)
}

// AddReplace: among the lines for oldPath (and, if oldVers is given, exactly
// that version; the empty oldVers is the wildcard and matches every line for
// the path) the first becomes exactly the requested replacement and the rest
// go; without a match the replacement is appended.
func (f *File) AddReplace(oldPath, oldVers, newPath, newVers string) string {
	out := f.Rep[:0:0]
	found, dups, widened := false, 0, false
	for _, r := range f.Rep {
		if r.OldPath == oldPath && (oldVers == "" || r.OldVers == oldVers) {
			if found {
				dups++
				continue
			}
			found = true
			widened = r.OldVers != oldVers
			r.OldVers, r.NewPath, r.NewVers, r.Touched = oldVers, newPath, newVers, true
		}
		out = append(out, r)
	}
	if !found {
		f.Rep = append(out, Rep{OldPath: oldPath, OldVers: oldVers, NewPath: newPath, NewVers: newVers})
		return "append"
	}
	f.Rep = out
	eff := "rewrite"
	if widened {
		eff = "rewrite-versioned-to-wildcard"
	}
	if dups > 0 {
		eff += "+dups-removed"
	}
	return eff
}

// DropReplace removes the lines with exactly this (path, version) pair.
func (f *File) DropReplace(oldPath, oldVers string) string {
	out := f.Rep[:0:0]
	n, otherVers := 0, false
	for _, r := range f.Rep {
		if r.OldPath == oldPath && r.OldVers == oldVers {
			n++
			continue
		}
		if r.OldPath == oldPath {
			otherVers = true
		}
		out = append(out, r)
	}
	f.Rep = out
	eff := many(n)
	if otherVers {
		eff += "+other-version-stays"
	}
	return eff
}

func (f *File) AddRetract(low, high, rationale string) string {
	dup := "fresh"
	for _, r := range f.Ret {
		if r.Low == low && r.High == high {
			dup = "duplicate-interval"
		}
	}
	f.Ret = append(f.Ret, Ret{Low: low, High: high, Rationale: rationale, HasRationale: true})
	return dup
}

func (f *File) DropRetract(low, high string) string {
	out := f.Ret[:0:0]
	n := 0
	for _, r := range f.Ret {
		if r.Low == low && r.High == high {
			n++
			continue
		}
		out = append(out, r)
	}
	f.Ret = out
	return many(n)
}

// AddTool does nothing if the tool is present; otherwise it appends and (being
// a SortBlocks caller) de-duplicates.
func (f *File) AddTool(path string) (effect string, dedup []string) {
	for _, t := range f.Tool {
		if t.Path == path {
			return "noop-present", nil
		}
	}
	f.Tool = append(f.Tool, Tool{Path: path})
	return "append", f.Dedup()
}

func (f *File) DropTool(path string) string {
	out := f.Tool[:0:0]
	n := 0
	for _, t := range f.Tool {
		if t.Path == path {
			n++
			continue
		}
		out = append(out, t)
	}
	f.Tool = out
	return many(n)
}

func (f *File) AddGodebug(key, value string) string {
	out := f.Gdb[:0:0]
	found, dups, same := false, 0, false
	for _, g := range f.Gdb {
		if g.Key == key {
			if found {
				dups++
				continue
			}
			found = true
			same = g.Value == value
			g.Value, g.Touched = value, true
		}
		out = append(out, g)
	}
	if !found {
		f.Gdb = append(out, Gdb{Key: key, Value: value})
		return "append"
	}
	f.Gdb = out
	eff := "update"
	if same {
		eff = "same"
	}
	if dups > 0 {
		eff += "+dups-removed"
	}
	return eff
}

func (f *File) DropGodebug(key string) string {
	out := f.Gdb[:0:0]
	n := 0
	for _, g := range f.Gdb {
		if g.Key == key {
			n++
			continue
		}
		out = append(out, g)
	}
	f.Gdb = out
	return many(n)
}

// AddUse keeps the first use line of the directory and removes the others, or appends.
func (f *File) AddUse(path string) string {
	out := f.Use[:0:0]
	found, dups := false, 0
	for _, u := range f.Use {
		if u.Path == path {
			if found {
				dups++
				continue
			}
			found = true
			u.Touched = true
		}
		out = append(out, u)
	}
	if !found {
		f.Use = append(out, Use{Path: path})
		return "append"
	}
	f.Use = out
	if dups > 0 {
		return "present+dups-removed"
	}
	return "present"
}

func (f *File) DropUse(path string) string {
	out := f.Use[:0:0]
	n := 0
	for _, u := range f.Use {
		if u.Path == path {
			n++
			continue
		}
		out = append(out, u)
	}
	f.Use = out
	return many(n)
}

// SetUse: exactly the requested directories, first existing line kept.
func (f *File) SetUse(want []string) (effect string, dedup []string) {
	need := map[string]bool{}
	for _, w := range want {
		need[w] = true
	}
	seen := map[string]bool{}
	out := f.Use[:0:0]
	kept, removed, dupRemoved, added := 0, 0, 0, 0
	for _, u := range f.Use {
		switch {
		case !need[u.Path]:
			removed++
			continue
		case seen[u.Path]:
			dupRemoved++
			continue
		}
		seen[u.Path] = true
		u.Touched = true
		out = append(out, u)
		kept++
	}
	for _, w := range want {
		if !seen[w] {
			seen[w] = true
			out = append(out, Use{Path: w})
			added++
		}
	}
	f.Use = out
	effect = setEffect(kept, removed, dupRemoved, added)
	return effect, f.Dedup()
}

// Dedup applies the documented de-duplication of removeDups: the earlier of two
// equal exclude or tool lines wins, the later of two replace lines for the same
// (old path, old version) wins; require and retract lines are never touched.
// A go.work file only de-duplicates its replace lines. It returns the kinds for
// which something was removed.
func (f *File) Dedup() []string {
	var kinds []string
	if !f.Work {
		seenE := map[[2]string]bool{}
		outE := f.Exc[:0:0]
		for _, x := range f.Exc {
			k := [2]string{x.Path, x.Vers}
			if seenE[k] {
				continue
			}
			seenE[k] = true
			outE = append(outE, x)
		}
		if len(outE) != len(f.Exc) {
			kinds = append(kinds, "exclude-earlier-wins")
		}
		f.Exc = outE
	}
	seenR := map[[2]string]bool{}
	keep := make([]bool, len(f.Rep))
	differentNew := false
	last := map[[2]string]Rep{}
	for i := len(f.Rep) - 1; i >= 0; i-- {
		k := [2]string{f.Rep[i].OldPath, f.Rep[i].OldVers}
		if seenR[k] {
			if l := last[k]; l.NewPath != f.Rep[i].NewPath || l.NewVers != f.Rep[i].NewVers {
				differentNew = true
			}
			continue
		}
		seenR[k] = true
		last[k] = f.Rep[i]
		keep[i] = true
	}
	outR := f.Rep[:0:0]
	for i, r := range f.Rep {
		if keep[i] {
			outR = append(outR, r)
		}
	}
	if len(outR) != len(f.Rep) {
		if differentNew {
			kinds = append(kinds, "replace-later-wins:different-target")
		} else {
			kinds = append(kinds, "replace-later-wins:same-target")
		}
	}
	f.Rep = outR
	if !f.Work {
		seenT := map[string]bool{}
		outT := f.Tool[:0:0]
		for _, t := range f.Tool {
			if seenT[t.Path] {
				continue
			}
			seenT[t.Path] = true
			outT = append(outT, t)
		}
		if len(outT) != len(f.Tool) {
			kinds = append(kinds, "tool-earlier-wins")
		}
		f.Tool = outT
	}
	return kinds
}

// ---------------------------------------------------------------------------
// Documented block orders (C16), written from the doc comments of SortBlocks,
// lineLess, lineExcludeLess and lineRetractLess.

// LexLess is the token-wise lexical order.
func LexLess(a, b []string) bool {
	for k := 0; k < len(a) && k < len(b); k++ {
		if a[k] != b[k] {
			return a[k] < b[k]
		}
	}
	return len(a) < len(b)
}

// GoAtLeast reports whether the go directive value gov (no leading "go"/"v") is
// a release of Go maj.min or later. ok is false for values this model has no
// opinion on (pre-releases of exactly maj.min, or unparsable strings).
func GoAtLeast(gov string, maj, min int) (atLeast, ok bool) {
	parts := strings.SplitN(gov, ".", 3)
	if len(parts) < 2 {
		return false, false
	}
	a, err := strconv.Atoi(parts[0])
	if err != nil {
		return false, false
	}
	// the minor field may carry a pre-release suffix ("21rc1") when there is no patch field
	mn := parts[1]
	pre := false
	i := 0
	for i < len(mn) && mn[i] >= '0' && mn[i] <= '9' {
		i++
	}
	if i == 0 {
		return false, false
	}
	if i < len(mn) {
		pre = true
	}
	b, _ := strconv.Atoi(mn[:i])
	if len(parts) == 3 {
		for _, ch := range parts[2] {
			if ch < '0' || ch > '9' {
				pre = true
			}
		}
	}
	switch {
	case a != maj:
		return a > maj, true
	case b != min:
		return b > min, true
	case pre:
		return false, false
	}
	return true, true
}

// ExcludeLess: by module path as a string, then by version in semantic-version order.
func ExcludeLess(a, b []string) bool {
	if len(a) != 2 || len(b) != 2 {
		return LexLess(a, b)
	}
	if a[0] != b[0] {
		return a[0] < b[0]
	}
	return refsemver.Compare(a[1], b[1]) < 0
}

func interval(t []string) (low, high string) {
	switch {
	case len(t) == 1:
		return t[0], t[0]
	case len(t) == 5 && t[0] == "[" && t[2] == "," && t[4] == "]":
		return t[1], t[3]
	}
	return "", ""
}

// RetractBefore reports whether interval line a must come strictly before b:
// descending by low version, then descending by high version.
func RetractBefore(a, b []string) bool {
	al, ah := interval(a)
	bl, bh := interval(b)
	if c := refsemver.Compare(al, bl); c != 0 {
		return c > 0
	}
	return refsemver.Compare(ah, bh) > 0
}

// OrderKind names the comparator that the documentation prescribes for a block
// of the given verb in a file with the given go directive ("" if none).
// ok == false: the documentation does not say (see GoAtLeast).
func OrderKind(verb, gov string, work bool) (kind string, ok bool) {
	switch {
	case verb == "retract" && !work:
		return "retract-descending", true
	case verb == "exclude" && !work:
		if gov == "" {
			return "lexical", true
		}
		sem, ok := GoAtLeast(gov, 1, 21)
		if !ok {
			return "", false
		}
		if sem {
			return "exclude-semver", true
		}
		return "lexical", true
	}
	return "lexical", true
}

// FirstDisorder returns the index i of the first adjacent pair (i, i+1) of
// lines that is in the wrong order for kind, or -1.
func FirstDisorder(kind string, lines [][]string) int {
	before := LexLess
	switch kind {
	case "exclude-semver":
		before = ExcludeLess
	case "retract-descending":
		before = RetractBefore
	}
	for i := 0; i+1 < len(lines); i++ {
		if before(lines[i+1], lines[i]) {
			return i
		}
	}
	return -1
}
