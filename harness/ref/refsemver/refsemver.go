// Package refsemver is an independent model of the version grammar documented
// in golang.org/x/mod/semver and of SemVer 2.0.0 precedence. It imports
// nothing from golang.org/x/mod.
package refsemver

import (
	"math/big"
	"regexp"
	"strings"
)

const num = `(?:0|[1-9][0-9]*)`
const preID = `(?:0|[1-9][0-9]*|[0-9]*[A-Za-z-][0-9A-Za-z-]*)`

var full = regexp.MustCompile(`^v(` + num + `)(?:\.(` + num + `)(?:\.(` + num + `)(-` + preID + `(?:\.` + preID + `)*)?(\+[0-9A-Za-z-]+(?:\.[0-9A-Za-z-]+)*)?)?)?$`)

// V is a parsed version.
type V struct {
	OK            bool
	Maj, Min, Pat *big.Int
	MajS, MinS    string
	Pre, Build    string
	Canonical     string
}

// Parse applies the grammar.
func Parse(v string) V {
	if strings.ContainsAny(v, "\n\r") { // Go's $ would match before a trailing newline
		return V{}
	}
	m := full.FindStringSubmatch(v)
	if m == nil {
		return V{}
	}
	p := V{OK: true, MajS: m[1], MinS: m[2], Pre: m[4], Build: m[5]}
	p.Maj, _ = new(big.Int).SetString(m[1], 10)
	p.Min, p.Pat = big.NewInt(0), big.NewInt(0)
	core := v
	if i := strings.IndexAny(core, "-+"); i >= 0 {
		core = core[:i]
	}
	dots := strings.Count(core, ".")
	if dots >= 1 {
		p.Min, _ = new(big.Int).SetString(m[2], 10)
	} else {
		p.MinS = "0"
	}
	if dots >= 2 {
		p.Pat, _ = new(big.Int).SetString(m[3], 10)
	}
	switch dots {
	case 0:
		p.Canonical = v + ".0.0"
	case 1:
		p.Canonical = v + ".0"
	default:
		p.Canonical = strings.TrimSuffix(v, p.Build)
	}
	return p
}

var allDigits = regexp.MustCompile(`^[0-9]+$`)

// CmpPre compares prerelease strings (with leading '-', or empty) per SemVer §11.
func CmpPre(a, b string) int {
	if a == b {
		return 0
	}
	if a == "" {
		return 1
	}
	if b == "" {
		return -1
	}
	x, y := strings.Split(a[1:], "."), strings.Split(b[1:], ".")
	for i := 0; i < len(x) && i < len(y); i++ {
		if x[i] == y[i] {
			continue
		}
		nx, ny := allDigits.MatchString(x[i]), allDigits.MatchString(y[i])
		switch {
		case nx && ny:
			bx, _ := new(big.Int).SetString(x[i], 10)
			by, _ := new(big.Int).SetString(y[i], 10)
			return bx.Cmp(by)
		case nx:
			return -1
		case ny:
			return 1
		default:
			if x[i] < y[i] {
				return -1
			}
			return 1
		}
	}
	if len(x) < len(y) {
		return -1
	}
	if len(x) > len(y) {
		return 1
	}
	return 0
}

// Compare is the model of semver.Compare.
func Compare(v, w string) int {
	a, b := Parse(v), Parse(w)
	switch {
	case !a.OK && !b.OK:
		return 0
	case !a.OK:
		return -1
	case !b.OK:
		return 1
	}
	if c := a.Maj.Cmp(b.Maj); c != 0 {
		return c
	}
	if c := a.Min.Cmp(b.Min); c != 0 {
		return c
	}
	if c := a.Pat.Cmp(b.Pat); c != 0 {
		return c
	}
	return CmpPre(a.Pre, b.Pre)
}
