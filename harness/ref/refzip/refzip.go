// Package refzip is an independent model of the module-zip rules documented in
// golang.org/x/mod/zip (package comment, CheckFiles, Create, CreateFromDir,
// Unzip) and of the parts of golang.org/x/mod/module they refer to
// (CheckFilePath, CheckPath, Check, CanonicalVersion). It imports nothing
// from golang.org/x/mod.
//
// Three oracles live here:
//
//   - Classify: the sequential reference classifier of a file list
//     (valid / omitted / invalid), DESIGN.md §5.17;
//   - CheckArchive: the restriction checker for the entries of an archive
//     (prefix, clean valid paths, fold collisions, file-vs-directory, go.mod
//     placement and case, size limits), §5.5 / §5.12;
//   - CheckModule: whether a module path / version pair may name a zip.
//
// Where the doc comments and the implementation are known to disagree on
// something the monitored properties do not cover, the model answers
// "unspecified" and the engines skip (and count) the input.
package refzip

import (
	"path"
	"strings"
	"unicode"
	"unicode/utf8"

	"verif/harness/ref/refsemver"
)

// Documented limits.
const (
	MaxZipFile = 500 << 20
	MaxGoMod   = 16 << 20
	MaxLICENSE = 16 << 20
)

// ---------------------------------------------------------------------------
// File paths (module.CheckFilePath, read from its doc comment).

var reserved = []string{"CON", "PRN", "AUX", "NUL",
	"COM1", "COM2", "COM3", "COM4", "COM5", "COM6", "COM7", "COM8", "COM9",
	"LPT1", "LPT2", "LPT3", "LPT4", "LPT5", "LPT6", "LPT7", "LPT8", "LPT9"}

func asciiUpper(s string) string {
	b := []byte(s)
	for i, c := range b {
		if 'a' <= c && c <= 'z' {
			b[i] = c - 'a' + 'A'
		}
	}
	return string(b)
}

// fileRuneOK: all Unicode letters, ASCII digits, space and !#$%&()+,-.=@[]^_{}~
func fileRuneOK(r rune) bool {
	switch {
	case r == utf8.RuneError:
		return false
	case r < 0x80:
		if '0' <= r && r <= '9' || 'a' <= r && r <= 'z' || 'A' <= r && r <= 'Z' {
			return true
		}
		return strings.ContainsRune("!#$%&()+,-.=@[]^_{}~ ", r)
	}
	return unicode.IsLetter(r)
}

// modRuneOK: ASCII letters, digits and - . _ ~
func modRuneOK(r rune) bool {
	return r < 0x80 && ('0' <= r && r <= '9' || 'a' <= r && r <= 'z' || 'A' <= r && r <= 'Z' || strings.ContainsRune("-._~", r))
}

// checkElem decides one path element. why names the broken rule; unspec names a
// doc-vs-code difference that makes the answer unspecified.
func checkElem(e string, ok func(rune) bool) (valid bool, why, unspec string) {
	if e == "" {
		return false, "empty-element", ""
	}
	for _, r := range e {
		if !ok(r) {
			return false, "bad-char", ""
		}
	}
	if e[len(e)-1] == '.' {
		return false, "trailing-dot", ""
	}
	if strings.Trim(e, ".") == "" {
		return false, "only-dots", ""
	}
	short := e
	if i := strings.IndexByte(short, '.'); i >= 0 {
		short = short[:i]
	}
	up := asciiUpper(short)
	for _, bad := range reserved {
		if up == bad {
			return false, "windows-reserved", ""
		}
	}
	// From here on the element is accepted by every rule both sources agree on.
	if strings.Contains(e, "..") {
		// doc: "nor contain two dots in a row"; not enforced inside an element.
		unspec = "two-dots-inside-element"
	}
	if up == "COM0" || up == "LPT0" {
		unspec = "com0-lpt0"
	}
	if t := strings.LastIndexByte(short, '~'); t >= 0 && t < len(short)-1 && strings.Trim(short[t+1:], "0123456789") == "" {
		// doc: an element must not end in ~digits ("same as import path"); the
		// implementation skips this rule for file paths.
		unspec = "tilde-digits"
	}
	return true, "", unspec
}

// CheckFilePath reports whether p is a valid file path inside a module zip.
func CheckFilePath(p string) (valid bool, why, unspec string) {
	if !utf8.ValidString(p) {
		return false, "invalid-utf8", ""
	}
	if p == "" {
		return false, "empty", ""
	}
	for _, e := range strings.Split(p, "/") {
		v, w, u := checkElem(e, fileRuneOK)
		if !v {
			return false, w, ""
		}
		if u != "" {
			unspec = u
		}
	}
	return true, "", unspec
}

// ---------------------------------------------------------------------------
// Module path / version (module.CheckPath, module.Check, CanonicalVersion).

func digits(s string) bool {
	return s != "" && strings.Trim(s, "0123456789") == ""
}

// CheckModule reports whether (mpath, version) is a valid module path with a
// canonical version whose major version is consistent with the path.
func CheckModule(mpath, version string) (valid bool, why, unspec string) {
	pv := refsemver.Parse(version)
	if !pv.OK {
		return false, "version-not-semver", ""
	}
	canon := pv.Canonical
	if pv.Build == "+incompatible" {
		canon += "+incompatible"
	}
	if canon != version {
		return false, "version-not-canonical", ""
	}
	if !utf8.ValidString(mpath) || mpath == "" {
		return false, "path-empty-or-utf8", ""
	}
	elems := strings.Split(mpath, "/")
	for _, e := range elems {
		v, w, u := checkElem(e, modRuneOK)
		if !v {
			return false, "path-" + w, ""
		}
		if e[0] == '.' {
			return false, "path-leading-dot", ""
		}
		if strings.Contains(e, "~") {
			unspec = "tilde-in-module-path" // short-name rule is worded differently in doc and code
		} else if u != "" {
			unspec = u
		}
	}
	first := elems[0]
	for _, r := range first {
		if !('a' <= r && r <= 'z' || '0' <= r && r <= '9' || r == '.' || r == '-') {
			return false, "path-first-element-char", ""
		}
	}
	if !strings.Contains(first, ".") {
		return false, "path-first-element-no-dot", ""
	}
	if first[0] == '-' {
		return false, "path-leading-dash", ""
	}
	major := "v" + pv.MajS
	last := elems[len(elems)-1]
	if first == "gopkg.in" && len(elems) > 1 {
		// gopkg.in/pkg.vN and gopkg.in/user/pkg.vN, optionally -unstable.
		base := strings.TrimSuffix(last, "-unstable")
		i := strings.LastIndex(base, ".v")
		if i < 0 || !digits(base[i+2:]) {
			if i >= 0 && base[i+2:] == "" {
				return false, "gopkg-no-number", ""
			}
			if i < 0 {
				return false, "gopkg-no-version", ""
			}
			return false, "gopkg-bad-number", ""
		}
		n := base[i+2:]
		if len(n) > 1 && n[0] == '0' {
			return false, "gopkg-leading-zero", ""
		}
		if len(elems) > 3 {
			unspec = "gopkg-shape"
		}
		if pv.Build != "" {
			unspec = "gopkg-incompatible"
		}
		if n == "1" && strings.HasPrefix(version, "v0.0.0-") {
			// documented with PathMajorPrefix: MatchPathMajor "accepts a 'v0.0.0-' prefix for a '.v1'
			// pathMajor, even though that pathMajor implies 'v1' tagging" (with or without -unstable)
			return true, "", unspec
		}
		if major != "v"+n {
			return false, "major-mismatch", "" // a major that does not match the path is decisive whatever else is unsettled
		}
		return true, "", unspec
	}
	suffix := ""
	if len(elems) > 1 && len(last) >= 2 && last[0] == 'v' && strings.Trim(last[1:], "0123456789.") == "" {
		// final element of the form vN where N looks numeric (digits and dots);
		// a trailing dot was already rejected above.
		n := last[1:]
		if n[0] == '0' {
			return false, "path-major-leading-zero", ""
		}
		if n == "1" {
			return false, "path-major-v1", ""
		}
		if strings.Contains(n, ".") {
			return false, "path-major-dots", ""
		}
		suffix = last
	}
	if suffix == "" {
		if major == "v0" || major == "v1" || pv.Build == "+incompatible" {
			return true, "", unspec
		}
		return false, "major-mismatch", "" // a major that does not match the path is decisive whatever else is unsettled
	}
	if pv.Build == "+incompatible" {
		unspec = "incompatible-with-major-suffix"
	}
	if major != suffix {
		return false, "major-mismatch", "" // a major that does not match the path is decisive whatever else is unsettled
	}
	return true, "", unspec
}

// ---------------------------------------------------------------------------
// File lists.

// Kind is what Lstat says about a listed file.
type Kind int

const (
	Regular Kind = iota
	Directory
	Symlink
	Irregular
)

// File is one element of a list given to CheckFiles/Create.
type File struct {
	Path string
	Kind Kind
	Size int64
	// GoVersion is the argument of the go directive of this file's content when
	// the file is a go.mod file ("" = no go directive, or the file does not parse).
	GoVersion string
}

// Class of a listed file.
type Class int

const (
	Valid Class = iota
	Omitted
	Invalid
)

func (c Class) String() string { return [...]string{"valid", "omitted", "invalid"}[c] }

// Verdict is the class of one list element and the rule that decided it.
type Verdict struct {
	Class Class
	Rule  string
}

// Result of Classify.
type Result struct {
	Per       []Verdict // per list element, in order
	SizeError bool      // total size of the files that belong in the zip exceeds MaxZipFile
	// Unspecified lists reasons why (part of) the answer is not defined by the
	// documentation; the caller must not compare such lists.
	Unspecified []string
	// SizeErrorUnspecified: SizeError depends on whether an oversized go.mod/LICENSE counts.
	SizeErrorUnspecified bool
	NewVendorRule        bool // go >= 1.24 in the root go.mod
}

// LangAtLeast124 parses the go directive argument "MAJOR.MINOR[...]".
func LangAtLeast124(v string) bool {
	num := func(s string) (int, string, bool) {
		i := 0
		for i < len(s) && '0' <= s[i] && s[i] <= '9' {
			i++
		}
		if i == 0 || i > 6 {
			return 0, "", false
		}
		n := 0
		for _, c := range s[:i] {
			n = n*10 + int(c-'0')
		}
		return n, s[i:], true
	}
	maj, rest, ok := num(v)
	if !ok || !strings.HasPrefix(rest, ".") {
		return false
	}
	min, _, ok := num(rest[1:])
	if !ok {
		return false
	}
	return maj > 1 || maj == 1 && min >= 24
}

// Vendored implements "the file is in a package whose import path contains
// (but does not end with) the component vendor", with the two documented
// variants: since go 1.24 vendor/modules.txt is dropped too; before go 1.24
// every file below a vendor directory that is not at the module root was
// dropped, also the ones directly inside it (golang.org/issue/37397).
func Vendored(name string, new bool) bool {
	if new && name == "vendor/modules.txt" {
		return true
	}
	dir := strings.Split(name, "/")
	dir = dir[:len(dir)-1] // directory components
	for i, c := range dir {
		if c != "vendor" {
			continue
		}
		if i < len(dir)-1 {
			return true // a vendor component that is not the last one
		}
		if !new && i > 0 {
			return true // old rule: pkg/vendor/vendor.go
		}
	}
	return false
}

type seenEntry struct {
	p     string
	isDir bool
}

// Collider is the sequential collision rule: a path collides with anything
// recorded earlier (files and implied directories) that is equal to it under
// Unicode case folding without being the same directory.
type Collider struct{ seen []seenEntry }

// Check records p and its parent directories; it reports which conflict, if any, p has.
func (cc *Collider) Check(p string, isDir bool) string {
	for q := p; ; {
		found := false
		for _, e := range cc.seen {
			if strings.EqualFold(e.p, q) {
				found = true
				switch {
				case e.p != q:
					return "fold-collision"
				case e.isDir != isDir:
					return "file-vs-directory"
				case !isDir:
					return "duplicate-file"
				}
				break
			}
		}
		if !found {
			cc.seen = append(cc.seen, seenEntry{q, isDir})
		}
		q = path.Dir(q)
		if q == "." || q == "/" {
			return ""
		}
		isDir = true
	}
}

// Classify is the sequential reference classifier.
func Classify(files []File) Result {
	var res Result
	// Go version of the root go.mod and directories of nested modules.
	nested := map[string]bool{}
	goVers, haveVers := "", false
	for _, f := range files {
		dir, base := path.Split(f.Path)
		if f.Kind != Regular || !strings.EqualFold(base, "go.mod") {
			continue
		}
		if path.Clean(f.Path) != f.Path || strings.HasPrefix(f.Path, "/") {
			// whether an ill-formed path can name a go.mod file is not documented
			res.Unspecified = append(res.Unspecified, "go.mod-with-unclean-path")
		}
		if dir == "" {
			if base == "go.mod" {
				if haveVers && goVers != f.GoVersion {
					res.Unspecified = append(res.Unspecified, "two-root-go.mod-with-different-go-versions")
				}
				goVers, haveVers = f.GoVersion, true
			}
			continue
		}
		nested[dir] = true
	}
	newRule := LangAtLeast124(goVers)
	res.NewVendorRule = newRule
	inNested := func(p string) bool {
		for d := path.Dir(p); d != "." && d != "/"; d = path.Dir(d) {
			if nested[d+"/"] {
				return true
			}
		}
		return false
	}

	var cc Collider
	var totalAll, totalValid int64
	negative := false
	count := map[string]int{}
	for _, f := range files {
		count[f.Path]++
	}
	for _, f := range files {
		p := f.Path
		v := func() Verdict {
			if path.Clean(p) != p {
				return Verdict{Invalid, "unclean"}
			}
			if strings.HasPrefix(p, "/") {
				return Verdict{Invalid, "absolute"}
			}
			if Vendored(p, newRule) {
				return Verdict{Omitted, "vendored"}
			}
			if inNested(p) {
				return Verdict{Omitted, "nested-module"}
			}
			if p == ".hg_archival.txt" {
				return Verdict{Omitted, "hg-archival"}
			}
			ok, why, unspec := CheckFilePath(p)
			if !ok {
				return Verdict{Invalid, "filepath:" + why}
			}
			if unspec != "" {
				res.Unspecified = append(res.Unspecified, "filepath:"+unspec)
			}
			if p != "go.mod" && strings.EqualFold(p, "go.mod") {
				return Verdict{Invalid, "go.mod-case"}
			}
			if c := cc.Check(p, f.Kind == Directory); c != "" {
				return Verdict{Invalid, "collision:" + c}
			}
			switch f.Kind {
			case Symlink:
				return Verdict{Omitted, "symlink"}
			case Directory:
				return Verdict{Omitted, "not-regular:directory"}
			case Irregular:
				return Verdict{Omitted, "not-regular:irregular"}
			}
			if f.Size < 0 {
				negative = true
			} else if totalAll <= MaxZipFile { // saturate, never overflow
				totalAll += f.Size
				if totalAll < 0 {
					totalAll = MaxZipFile + 1
				}
			}
			if p == "go.mod" && f.Size > MaxGoMod {
				return Verdict{Invalid, "go.mod-size"}
			}
			if p == "LICENSE" && f.Size > MaxLICENSE {
				return Verdict{Invalid, "LICENSE-size"}
			}
			if f.Size >= 0 && totalValid <= MaxZipFile {
				totalValid += f.Size
				if totalValid < 0 {
					totalValid = MaxZipFile + 1
				}
			}
			return Verdict{Valid, "valid"}
		}()
		res.Per = append(res.Per, v)
	}
	res.SizeError = totalValid > MaxZipFile
	if (totalAll > MaxZipFile) != (totalValid > MaxZipFile) || negative {
		res.SizeErrorUnspecified = true // oversized go.mod/LICENSE counted or not; negative sizes
	}
	// A path that is listed several times is reported once per report list by
	// the implementation, which the documentation does not define: a list in
	// which one path is both omitted and invalid is unspecified.
	cls := map[string]int{}
	for i, f := range files {
		if count[f.Path] > 1 && res.Per[i].Class != Valid {
			cls[f.Path] |= 1 << res.Per[i].Class
		}
	}
	for _, m := range cls {
		if m == 1<<Omitted|1<<Invalid {
			res.Unspecified = append(res.Unspecified, "repeated-path-omitted-and-invalid")
			break
		}
	}
	return res
}

// Lists returns the expected report: Valid as a multiset in list order,
// Omitted and Invalid as sets of paths.
func (r Result) Lists(files []File) (valid []string, omitted, invalid map[string]bool) {
	omitted, invalid = map[string]bool{}, map[string]bool{}
	for i, f := range files {
		switch r.Per[i].Class {
		case Valid:
			valid = append(valid, f.Path)
		case Omitted:
			omitted[f.Path] = true
		case Invalid:
			invalid[f.Path] = true
		}
	}
	return
}

// MustFail reports whether the documented rules make the list unusable for a zip.
func (r Result) MustFail() bool {
	if r.SizeError {
		return true
	}
	for _, v := range r.Per {
		if v.Class == Invalid {
			return true
		}
	}
	return false
}

// ConflictGroup returns, per list element, whether it takes part in a
// collision with another element in *some* order of the list: elements that
// reach the collision rule and have a path (or an implied parent directory)
// fold-equal to a path or parent directory of another such element, unless
// both sides are the same directory. Elements outside the group must get the
// same class in every permutation of the list.
func ConflictGroup(files []File, per []Verdict) []bool {
	type node struct {
		p     string
		isDir bool
	}
	reach := make([]bool, len(files))
	nodes := make([][]node, len(files))
	for i, f := range files {
		r := per[i].Rule
		if per[i].Class == Valid || strings.HasPrefix(r, "collision:") || r == "symlink" || strings.HasPrefix(r, "not-regular") || r == "go.mod-size" || r == "LICENSE-size" {
			reach[i] = true
			isDir := f.Kind == Directory
			for q := f.Path; q != "." && q != "/"; q = path.Dir(q) {
				nodes[i] = append(nodes[i], node{q, isDir})
				isDir = true
			}
		}
	}
	in := make([]bool, len(files))
	for i := range files {
		for j := i + 1; j < len(files); j++ {
			if !reach[i] || !reach[j] {
				continue
			}
			conflict := false
			for _, a := range nodes[i] {
				for _, b := range nodes[j] {
					if strings.EqualFold(a.p, b.p) && !(a.p == b.p && a.isDir && b.isDir) {
						conflict = true
					}
				}
			}
			if conflict {
				in[i], in[j] = true, true
			}
		}
	}
	return in
}

// ---------------------------------------------------------------------------
// Archives.

// Entry is one entry of a zip archive as an independent reader sees it.
type Entry struct {
	Name string
	Size uint64 // declared uncompressed size
}

// Broken is one violated restriction.
type Broken struct {
	Rule  string
	Entry string
}

// CheckArchive returns every documented restriction that the entries break
// for module mpath@version, and the reasons for which the answer is unspecified.
func CheckArchive(mpath, version string, entries []Entry) (broken []Broken, unspec []string) {
	prefix := mpath + "@" + version + "/"
	type node struct {
		p     string
		isDir bool
		ent   int
	}
	var nodes []node
	var total uint64
	for i, e := range entries {
		if !strings.HasPrefix(e.Name, prefix) {
			broken = append(broken, Broken{"prefix", e.Name})
			continue
		}
		name := e.Name[len(prefix):]
		if name == "" {
			continue // the root directory itself: empty directories are ignored
		}
		isDir := strings.HasSuffix(name, "/")
		if isDir {
			name = name[:len(name)-1]
		}
		if path.Clean(name) != name || strings.HasPrefix(name, "/") {
			broken = append(broken, Broken{"unclean", e.Name})
			continue
		}
		ok, why, u := CheckFilePath(name)
		if !ok {
			broken = append(broken, Broken{"filepath:" + why, e.Name})
			continue
		}
		if u != "" {
			unspec = append(unspec, "filepath:"+u)
		}
		d := isDir
		for q := name; q != "."; q = path.Dir(q) {
			nodes = append(nodes, node{q, d, i})
			d = true
		}
		if isDir {
			continue
		}
		if base := path.Base(name); strings.EqualFold(base, "go.mod") {
			if base != name {
				broken = append(broken, Broken{"go.mod-not-at-root", e.Name})
			} else if name != "go.mod" {
				broken = append(broken, Broken{"go.mod-case", e.Name})
			}
		}
		if e.Size > MaxZipFile || total+e.Size > MaxZipFile {
			broken = append(broken, Broken{"total-size", e.Name})
			total = MaxZipFile + 1
		} else {
			total += e.Size
		}
		if name == "go.mod" && e.Size > MaxGoMod {
			broken = append(broken, Broken{"go.mod-size", e.Name})
		}
		if name == "LICENSE" && e.Size > MaxLICENSE {
			broken = append(broken, Broken{"LICENSE-size", e.Name})
		}
	}
	// pairwise collisions between nodes of different entries
	done := map[[2]int]bool{}
	for a := 0; a < len(nodes); a++ {
		for b := a + 1; b < len(nodes); b++ {
			x, y := nodes[a], nodes[b]
			if x.ent == y.ent || done[[2]int{x.ent, y.ent}] || !strings.EqualFold(x.p, y.p) {
				continue
			}
			rule := ""
			switch {
			case x.p != y.p:
				rule = "fold-collision"
			case x.isDir != y.isDir:
				rule = "file-vs-directory"
			case !x.isDir:
				rule = "duplicate-file"
			}
			if rule != "" {
				done[[2]int{x.ent, y.ent}] = true
				broken = append(broken, Broken{rule, entries[y.ent].Name})
			}
		}
	}
	return broken, unspec
}
