// Package refnote is an independent model of the signed-note format documented
// in the package comment of golang.org/x/mod/sumdb/note: a writer and a reader
// of signed messages, Ed25519 keys with the documented key hash, and
// formatters for verifier-key and signer-key strings. It imports nothing from
// golang.org/x/mod, so the harness can sign honest, stale, forked and
// adversarial messages without touching note.Sign.
//
// Format (from the package doc): a text ending in newline, a blank line, then
// one or more signature lines "— <name> <base64(keyhash‖sig)>\n". The whole
// message is valid UTF-8 without ASCII control characters other than newline.
// The key hash is the first four bytes, big-endian, of
// SHA-256(name ‖ "\n" ‖ 0x01 ‖ ed25519 public key); the signature is over the
// text including its final newline but not the separating blank line.
package refnote

import (
	"crypto/ed25519"
	"crypto/sha256"
	"encoding/base64"
	"encoding/binary"
	"fmt"
	"strings"
	"unicode"
	"unicode/utf8"
)

// AlgEd25519 is the only documented algorithm identifier.
const AlgEd25519 = 1

// Dash is the prefix of a signature line: em dash (U+2014), space.
const Dash = "— "

// Key is an Ed25519 note key pair bound to a server name.
type Key struct {
	Name string
	seed [32]byte
	priv ed25519.PrivateKey
	pub  ed25519.PublicKey
	hash uint32
}

// Seed derives a 32-byte key seed from a label and a number (deterministic
// key generation: feed it PRNG output or an enumeration index).
func Seed(label string, i uint64) [32]byte {
	return sha256.Sum256([]byte(fmt.Sprintf("refnote seed|%s|%d", label, i)))
}

// NewKey derives the key pair of name deterministically from seed.
func NewKey(name string, seed [32]byte) *Key {
	k := &Key{Name: name, seed: seed}
	k.priv = ed25519.NewKeyFromSeed(seed[:])
	k.pub = k.priv.Public().(ed25519.PublicKey)
	k.hash = KeyHash(name, k.pub)
	return k
}

// KeyHash is the documented 32-bit hash of (name, Ed25519 public key).
func KeyHash(name string, pub ed25519.PublicKey) uint32 {
	h := sha256.New()
	h.Write([]byte(name))
	h.Write([]byte{'\n', AlgEd25519})
	h.Write(pub)
	return binary.BigEndian.Uint32(h.Sum(nil)[:4])
}

// KeyHash returns the key hash of k.
func (k *Key) KeyHash() uint32 { return k.hash }

// Public returns the Ed25519 public key.
func (k *Key) Public() ed25519.PublicKey { return k.pub }

// VerifierString is the encoded verifier key "<name>+<hash>+<keydata>".
func (k *Key) VerifierString() string {
	return fmt.Sprintf("%s+%08x+%s", k.Name, k.hash, base64.StdEncoding.EncodeToString(append([]byte{AlgEd25519}, k.pub...)))
}

// SignerString is the encoded signer key "PRIVATE+KEY+<name>+<hash>+<keydata>".
func (k *Key) SignerString() string {
	return fmt.Sprintf("PRIVATE+KEY+%s+%08x+%s", k.Name, k.hash, base64.StdEncoding.EncodeToString(append([]byte{AlgEd25519}, k.seed[:]...)))
}

// SignText returns the raw Ed25519 signature of text (deterministic).
func (k *Key) SignText(text string) []byte { return ed25519.Sign(k.priv, []byte(text)) }

// Verify reports whether sig is k's Ed25519 signature of text.
func (k *Key) Verify(text string, sig []byte) bool {
	return len(sig) == ed25519.SignatureSize && ed25519.Verify(k.pub, []byte(text), sig)
}

// EncodeSig is base64(hash big-endian ‖ sig).
func EncodeSig(hash uint32, sig []byte) string {
	b := make([]byte, 4, 4+len(sig))
	binary.BigEndian.PutUint32(b, hash)
	return base64.StdEncoding.EncodeToString(append(b, sig...))
}

// Line formats one signature line from its two fields (no validation).
func Line(name, b64 string) string { return Dash + name + " " + b64 + "\n" }

// RawLine formats a signature line carrying an arbitrary key hash and signature.
func RawLine(name string, hash uint32, sig []byte) string { return Line(name, EncodeSig(hash, sig)) }

// SigLine is k's honest signature line for text.
func SigLine(k *Key, text string) string { return RawLine(k.Name, k.hash, k.SignText(text)) }

// Message assembles text, the blank line and the given signature lines (no validation).
func Message(text string, lines ...string) []byte {
	return []byte(text + "\n" + strings.Join(lines, ""))
}

// Sign returns the full signed message of text by keys, in order (no validation of text).
func Sign(text string, keys ...*Key) []byte {
	lines := make([]string, len(keys))
	for i, k := range keys {
		lines[i] = SigLine(k, text)
	}
	return Message(text, lines...)
}

// ValidName: non-empty, well-formed UTF-8, no Unicode space, no plus.
func ValidName(name string) bool {
	if name == "" || !utf8.ValidString(name) {
		return false
	}
	for _, r := range name {
		if unicode.IsSpace(r) || r == '+' {
			return false
		}
	}
	return true
}

// validChars: valid UTF-8 and no ASCII control character other than newline.
func validChars(s string) bool {
	if !utf8.ValidString(s) {
		return false
	}
	for i := 0; i < len(s); i++ {
		if s[i] < 0x20 && s[i] != '\n' {
			return false
		}
	}
	return true
}

// ValidText reports whether text can be the text of a signed note.
func ValidText(text string) bool { return strings.HasSuffix(text, "\n") && validChars(text) }

// Sig is one parsed signature line.
type Sig struct {
	Name   string
	Hash   uint32
	Sig    []byte // decoded signature without the four key-hash bytes (may be empty)
	Base64 string
}

// Line re-encodes the signature line exactly as parsed.
func (s Sig) Line() string { return Line(s.Name, s.Base64) }

// Parse splits a signed message into text and signature lines according to
// the documented format. It does not verify anything and imposes no limit on
// the number of signatures. A signature of exactly four decoded bytes (n = 0
// in the "4+n bytes" of the doc) is accepted with an empty Sig.
func Parse(msg []byte) (text string, sigs []Sig, ok bool) {
	s := string(msg)
	if !validChars(s) || !strings.HasSuffix(s, "\n") {
		return "", nil, false
	}
	lines := strings.Split(s[:len(s)-1], "\n")
	// The signature block is the run of lines after the last blank line.
	blank := -1
	for i := len(lines) - 1; i >= 0; i-- {
		if lines[i] == "" {
			blank = i
			break
		}
	}
	if blank < 1 || blank == len(lines)-1 {
		// no blank line, no text line before it (a text ends in newline, so it has
		// at least one line), or no signature line after it
		return "", nil, false
	}
	text = strings.Join(lines[:blank], "\n") + "\n"
	for _, l := range lines[blank+1:] {
		if !strings.HasPrefix(l, Dash) {
			return "", nil, false
		}
		l = l[len(Dash):]
		sp := strings.IndexByte(l, ' ')
		if sp < 0 {
			return "", nil, false
		}
		name, b64 := l[:sp], l[sp+1:]
		raw, err := base64.StdEncoding.DecodeString(b64)
		if err != nil || !ValidName(name) || len(raw) < 4 {
			return "", nil, false
		}
		sigs = append(sigs, Sig{Name: name, Hash: binary.BigEndian.Uint32(raw[:4]), Sig: raw[4:], Base64: b64})
	}
	return text, sigs, true
}
