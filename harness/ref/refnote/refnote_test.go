package refnote

import (
	"crypto/ed25519"
	"encoding/base64"
	"testing"
)

// The worked example of the sumdb/note package documentation.
const (
	docSeedKey = "AYEKFALVFGyNhPJEMzD1QIDr+Y7hfZx09iUvxdXHKDFz" // from PRIVATE+KEY+PeterNeumann+c74f20a3+...
	docVKey    = "PeterNeumann+c74f20a3+ARpc2QcUPDhMQegwxbzhKqiBfsVkmqq/LDE4izWy10TW"
	docText    = "If you think cryptography is the answer to your problem,\nthen you don't know what your problem is.\n"
	docMsg     = docText + "\n" + "— PeterNeumann x08go/ZJkuBS9UG/SffcvIAQxVBtiFupLLr8pAcElZInNIuGUgYN1FFYC2pZSNXgKvqfqdngotpRZb6KE6RyyBwJnAM=\n"
)

func TestDocExample(t *testing.T) {
	raw, err := base64.StdEncoding.DecodeString(docSeedKey)
	if err != nil || len(raw) != 33 || raw[0] != AlgEd25519 {
		t.Fatal("bad seed in test")
	}
	var seed [32]byte
	copy(seed[:], raw[1:])
	k := NewKey("PeterNeumann", seed)
	if k.KeyHash() != 0xc74f20a3 {
		t.Fatalf("key hash %08x", k.KeyHash())
	}
	if k.VerifierString() != docVKey {
		t.Fatalf("verifier string %s", k.VerifierString())
	}
	if k.SignerString() != "PRIVATE+KEY+PeterNeumann+c74f20a3+"+docSeedKey {
		t.Fatalf("signer string %s", k.SignerString())
	}
	if got := string(Sign(docText, k)); got != docMsg {
		t.Fatalf("Sign:\n%s", got)
	}
	text, sigs, ok := Parse([]byte(docMsg))
	if !ok || text != docText || len(sigs) != 1 || sigs[0].Name != "PeterNeumann" || sigs[0].Hash != 0xc74f20a3 || len(sigs[0].Sig) != ed25519.SignatureSize {
		t.Fatalf("Parse: %q %v %v", text, sigs, ok)
	}
	if !k.Verify(text, sigs[0].Sig) || k.Verify(text+"x", sigs[0].Sig) {
		t.Fatal("Verify")
	}
}

func TestParseShapes(t *testing.T) {
	for msg, want := range map[string]string{
		"a\n\n— n AAAAAAA=\n":                 "a\n",
		"\n\n— n AAAAAAA=\n":                  "\n",
		"a\n\nb\n\n— n AAAAAAA=\n":            "a\n\nb\n",
		"a\n\n— x AAAAAAA=\n\n— n AAAAAAA=\n": "a\n\n— x AAAAAAA=\n",
		"a\n\n\n— n AAAAAAA=\n":               "a\n\n",
	} {
		if text, _, ok := Parse([]byte(msg)); !ok || text != want {
			t.Errorf("Parse(%q) = %q, %v; want %q", msg, text, ok, want)
		}
	}
	for _, msg := range []string{"", "a\n", "a\n\n", "\n— n AAAAAAA=\n", "a\n— n AAAAAAA=\n", "a\n\n— n AAAAAAA=", "a\n\n— n AAAAAAA=\n\n", "a\n\n- n AAAAAAA=\n",
		"a\n\n—  AAAAAAA=\n", "a\n\n— n\n", "a\n\n— n AAAA\n", "a\n\n— n+m AAAAAAA=\n", "a\t\n\n— n AAAAAAA=\n", "a\xff\n\n— n AAAAAAA=\n", "a\n\n— n AAAAAAA= x\n"} {
		if _, _, ok := Parse([]byte(msg)); ok {
			t.Errorf("Parse(%q) accepted", msg)
		}
	}
}
