// Package refpath is an independent model of the path rules documented in
// golang.org/x/mod/module: the doc comments of CheckPath, CheckImportPath,
// CheckFilePath (with the character-class comments of modPathOK, importPathOK,
// fileNameOK, firstPathOK), SplitPathVersion, CheckPathMajor / PathMajorPrefix,
// Check, MatchPrefixPatterns and the "Escaped Paths" section of the package
// comment, written down clause by clause. It imports nothing from
// golang.org/x/mod.
//
// A path is judged by collecting the clauses it breaks. Clauses on which the
// doc comments and long-standing, test-pinned behaviour of the package differ,
// or on which the doc comments are silent, are "open": a path that breaks only
// open clauses has no specified verdict (see Verdict.Status).
package refpath

import (
	"path"
	"strings"
	"unicode"
	"unicode/utf8"

	"verif/harness/ref/refsemver"
)

// Kind selects which of the three documented path kinds is judged.
type Kind int

const (
	Module Kind = iota
	Import
	File
)

func (k Kind) String() string { return [...]string{"module", "import", "file"}[k] }

// Clause names one documented rule.
type Clause string

const (
	// CheckImportPath: "A valid import path consists of one or more valid path
	// elements separated by slashes (U+002F). (It must not begin with nor end in
	// a slash.)" and "A valid path element is a non-empty string".
	ClElements Clause = "elements-nonempty"
	// CheckImportPath: "made up of ASCII letters, ASCII digits, and limited ASCII
	// punctuation: - . _ and ~" (modPathOK); importPathOK: the same plus '+';
	// CheckFilePath: "all Unicode letters, ASCII digits, the ASCII space character
	// (U+0020), and the ASCII punctuation characters !#$%&()+,-.=@[]^_{}~".
	ClChars Clause = "allowed-chars"
	// CheckImportPath: "It must not end with a dot (U+002E)".
	ClTrailingDot Clause = "trailing-dot"
	// CheckImportPath: "The element prefix up to the first dot must not be a
	// reserved file name on Windows, regardless of case (CON, com1, NuL, and so on)."
	ClReserved Clause = "windows-reserved-name"
	// CheckImportPath: "The element must not have a suffix of a tilde followed by
	// one or more ASCII digits (to exclude paths elements that look like Windows
	// short-names)", applied to the element prefix up to the first dot (the part
	// a Windows short-name lives in), for module and import paths.
	ClShortName Clause = "windows-short-name"
	// CheckPath, first constraint: "the leading path element ... must contain only
	// lower-case ASCII letters, ASCII digits, dots (U+002E), and dashes (U+002D)".
	ClFirstChars Clause = "first-element-chars"
	// CheckPath, first constraint: "it must contain at least one dot".
	ClFirstDot Clause = "first-element-dot"
	// CheckPath, first constraint: "and cannot start with a dash".
	ClFirstDash Clause = "first-element-leading-dash"
	// CheckPath, second constraint: "for a final path element of the form /vN,
	// where N looks numeric (ASCII digits and dots) must not begin with a leading
	// zero, must not be /v1, and must not contain any dots."
	ClMajorSuffix Clause = "major-suffix"
	// CheckPath: "For paths beginning with "gopkg.in/", this second requirement is
	// replaced by a requirement that the path follow the gopkg.in server's
	// conventions"; SplitPathVersion: "they require ".vN" instead of "/vN", and for
	// all N, not just N >= 2" (optionally followed by "-unstable").
	ClGopkgIn Clause = "gopkg.in-suffix"
	// CheckPath, third constraint: "no path element may begin with a dot".
	ClLeadingDot Clause = "element-leading-dot"

	// ---- open clauses -------------------------------------------------------

	// CheckImportPath says "nor contain two dots in a row"; the package has
	// always accepted such elements unless they consist of dots only, and its
	// own test table pins "x..y/z" as valid for all three kinds.
	OpenDoubleDot Clause = "open:two-dots-in-a-row"
	// The package rejects import (and module) paths whose first byte is '-'; the
	// doc comment of CheckImportPath does not mention it (for module paths the
	// first-element rule covers it).
	OpenImportLeadingDash Clause = "open:import-leading-dash"
	// CheckFilePath: "the same as the definition of a valid import path except
	// that the set of allowed characters is larger" would apply the short-name
	// rule to file paths; the package deliberately does not (and its tests pin
	// "x.y/z~0" as a valid file path).
	OpenFileShortName Clause = "open:file-short-name"
	// The doc comment refers to "a reserved file name on Windows" and lists COM1-9
	// and LPT1-9 in its table; Microsoft's list also has COM0 and LPT0.
	OpenReservedZero Clause = "open:reserved-com0-lpt0"
	// gopkg.in/x.v0-unstable: ".v0" and ".vN-unstable" are both accepted forms;
	// their combination is rejected by the package and the doc comments only say
	// "the gopkg.in server's conventions".
	OpenGopkgV0Unstable Clause = "open:gopkg.in-v0-unstable"
)

// Status is the three-valued verdict.
type Status int

const (
	Invalid Status = iota
	Valid
	Unspecified
)

func (s Status) String() string { return [...]string{"invalid", "valid", "unspecified"}[s] }

// Verdict lists the clauses a path breaks.
type Verdict struct {
	Hard []Clause // documented clauses broken: the path is invalid
	Open []Clause // open clauses broken: no verdict if nothing else is broken
}

// Status: invalid if any documented clause is broken, unspecified if only open
// clauses are broken, valid otherwise.
func (v Verdict) Status() Status {
	switch {
	case len(v.Hard) > 0:
		return Invalid
	case len(v.Open) > 0:
		return Unspecified
	}
	return Valid
}

func (v *Verdict) add(c Clause) {
	l := &v.Hard
	if strings.HasPrefix(string(c), "open:") {
		l = &v.Open
	}
	for _, x := range *l {
		if x == c {
			return
		}
	}
	*l = append(*l, c)
}

func asciiLetter(r rune) bool { return 'a' <= r && r <= 'z' || 'A' <= r && r <= 'Z' }
func asciiDigit(r rune) bool  { return '0' <= r && r <= '9' }

// CharOK is the documented character set of each kind.
func CharOK(r rune, k Kind) bool {
	switch k {
	case Module:
		return asciiLetter(r) || asciiDigit(r) || strings.ContainsRune("-._~", r)
	case Import:
		return asciiLetter(r) || asciiDigit(r) || strings.ContainsRune("-._~", r) || r == '+'
	default:
		if asciiDigit(r) || r == ' ' {
			return true
		}
		if r < 0x80 {
			return asciiLetter(r) || strings.ContainsRune("!#$%&()+,-.=@[]^_{}~", r)
		}
		return unicode.IsLetter(r)
	}
}

// ReservedNames is the table of Windows device names the doc comment refers to.
var ReservedNames = []string{"CON", "PRN", "AUX", "NUL",
	"COM1", "COM2", "COM3", "COM4", "COM5", "COM6", "COM7", "COM8", "COM9",
	"LPT1", "LPT2", "LPT3", "LPT4", "LPT5", "LPT6", "LPT7", "LPT8", "LPT9"}

func upperASCII(s string) string {
	b := []byte(s)
	for i, c := range b {
		if 'a' <= c && c <= 'z' {
			b[i] = c - 'a' + 'A'
		}
	}
	return string(b)
}

// beforeFirstDot is "the element prefix up to the first dot".
func beforeFirstDot(e string) string {
	if i := strings.IndexByte(e, '.'); i >= 0 {
		return e[:i]
	}
	return e
}

// tildeDigitsSuffix: "a suffix of a tilde followed by one or more ASCII digits".
func tildeDigitsSuffix(s string) bool {
	i := len(s)
	for i > 0 && '0' <= s[i-1] && s[i-1] <= '9' {
		i--
	}
	return i < len(s) && i > 0 && s[i-1] == '~'
}

// checkElem applies the per-element clauses.
func checkElem(e string, k Kind, v *Verdict) {
	if e == "" {
		v.add(ClElements)
		return
	}
	for i := 0; i < len(e); {
		r, n := utf8.DecodeRuneInString(e[i:])
		if r == utf8.RuneError && n <= 1 { // not the encoding of any character
			v.add(ClChars)
		} else if !CharOK(r, k) {
			v.add(ClChars)
		}
		i += n
	}
	if e[len(e)-1] == '.' {
		v.add(ClTrailingDot)
	}
	if strings.Contains(e, "..") {
		v.add(OpenDoubleDot)
	}
	if k == Module && e[0] == '.' {
		v.add(ClLeadingDot)
	}
	short := beforeFirstDot(e)
	up := upperASCII(short)
	for _, n := range ReservedNames {
		if up == n {
			v.add(ClReserved)
		}
	}
	if up == "COM0" || up == "LPT0" {
		v.add(OpenReservedZero)
	}
	if tildeDigitsSuffix(short) {
		if k == File {
			v.add(OpenFileShortName)
		} else {
			v.add(ClShortName)
		}
	}
}

// Check judges p as a path of kind k.
func Check(p string, k Kind) Verdict {
	var v Verdict
	elems := strings.Split(p, "/")
	for _, e := range elems {
		checkElem(e, k, &v)
	}
	if k != File && p != "" && p[0] == '-' {
		v.add(OpenImportLeadingDash)
	}
	if k != Module {
		return v
	}
	first := elems[0]
	for _, r := range first {
		if !('a' <= r && r <= 'z' || asciiDigit(r) || r == '.' || r == '-') {
			v.add(ClFirstChars)
		}
	}
	if !strings.Contains(first, ".") {
		v.add(ClFirstDot)
	}
	if strings.HasPrefix(first, "-") {
		v.add(ClFirstDash)
	}
	s := Split(p)
	if !s.OK {
		if strings.HasPrefix(p, "gopkg.in/") {
			v.add(ClGopkgIn)
		} else {
			v.add(ClMajorSuffix)
		}
	} else if s.Open {
		v.add(OpenGopkgV0Unstable)
	}
	return v
}

// ElemValid reports whether e is, on its own, an acceptable non-first element of kind k under
// every reading (no documented and no open clause broken).
func ElemValid(e string, k Kind) bool {
	var v Verdict
	checkElem(e, k, &v)
	return len(v.Hard) == 0 && len(v.Open) == 0 && !strings.Contains(e, "/")
}

// SplitResult is the documented result of SplitPathVersion.
type SplitResult struct {
	Prefix, Major string
	OK            bool
	Open          bool   // gopkg.in/….v0-unstable: OK is not specified
	Form          string // "none", "/vN", ".vN", ".vN-unstable", or the reason for !OK
}

func decimalNoLeadingZero(s string) bool {
	if s == "" {
		return false
	}
	for i := 0; i < len(s); i++ {
		if s[i] < '0' || s[i] > '9' {
			return false
		}
	}
	return s == "0" || s[0] != '0'
}

// Split is SplitPathVersion as documented: "returns prefix and major version such
// that prefix+pathMajor == path and version is either empty or "/vN" for N >= 2.
// As a special case, gopkg.in paths are recognized directly; they require ".vN"
// instead of "/vN", and for all N, not just N >= 2. SplitPathVersion returns with
// ok = false when presented with a path whose last path element does not satisfy
// the constraints applied by CheckPath".
func Split(p string) SplitResult {
	if strings.HasPrefix(p, "gopkg.in/") {
		rest := p
		form := ".vN"
		if strings.HasSuffix(rest, "-unstable") {
			rest = strings.TrimSuffix(rest, "-unstable")
			form = ".vN-unstable"
		}
		i := strings.LastIndex(rest, ".v")
		if i < 0 || !decimalNoLeadingZero(rest[i+2:]) {
			return SplitResult{Prefix: p, Form: "gopkg.in:no-.vN"}
		}
		res := SplitResult{Prefix: p[:i], Major: p[i:], OK: true, Form: form}
		if form == ".vN-unstable" && rest[i+2:] == "0" {
			res.Open = true
			res.Form = ".v0-unstable"
		}
		return res
	}
	// "a final path element of the form /vN, where N looks numeric (ASCII digits and dots)"
	i := strings.LastIndexByte(p, '/')
	if i < 0 {
		return SplitResult{Prefix: p, OK: true, Form: "none"}
	}
	last := p[i+1:]
	if len(last) < 2 || last[0] != 'v' || strings.Trim(last[1:], "0123456789.") != "" {
		return SplitResult{Prefix: p, OK: true, Form: "none"}
	}
	n := last[1:]
	switch {
	case strings.Contains(n, "."):
		return SplitResult{Prefix: p, Form: "/vN:dots"}
	case n[0] == '0':
		return SplitResult{Prefix: p, Form: "/vN:leading-zero"}
	case n == "1":
		return SplitResult{Prefix: p, Form: "/vN:v1"}
	}
	return SplitResult{Prefix: p[:i], Major: p[i:], OK: true, Form: "/vN"}
}

// MajorPrefix is PathMajorPrefix on a suffix produced by Split: "the major-version
// tag prefix implied by pathMajor. An empty PathMajorPrefix allows either v0 or v1."
func MajorPrefix(major string) string {
	if major == "" {
		return ""
	}
	return strings.TrimSuffix(major[1:], "-unstable")
}

// MatchMajor is CheckPathMajor == nil for a valid semantic version v and a suffix
// of one of the forms "", "/vN", ".vN", ".vN-unstable":
// the version's major must be the suffix's N; with no suffix it must be v0 or v1
// or the version must carry the build tag +incompatible; and a "v0.0.0-" version
// is accepted for ".v1" (PathMajorPrefix doc: "it accepts a 'v0.0.0-' prefix for
// a '.v1' pathMajor").
func MatchMajor(v refsemver.V, vs, major string) bool {
	if !v.OK {
		return false
	}
	want := MajorPrefix(major)
	if want == "v1" && major[0] == '.' && strings.HasPrefix(vs, "v0.0.0-") {
		return true
	}
	if want == "" {
		return v.MajS == "0" || v.MajS == "1" || v.Build == "+incompatible"
	}
	return "v"+v.MajS == want
}

// CheckPair is module.Check: "In addition to the path being a valid module path
// and the version being a valid semantic version, the two must correspond."
func CheckPair(p, vs string) Status {
	pv := Check(p, Module).Status()
	v := refsemver.Parse(vs)
	if pv == Invalid || !v.OK {
		return Invalid
	}
	if !MatchMajor(v, vs, Split(p).Major) {
		return Invalid
	}
	return pv
}

// MatchResult is the documented result of MatchPrefixPatterns.
type MatchResult struct {
	// Match: "any path prefix of target matches one of the glob patterns (as defined by path.Match)".
	Match bool
	// SameCount is the same question restricted to prefixes that have exactly as many elements
	// as the pattern has '/'-separated pieces. The two differ only when a bracket expression or
	// an escape of the pattern matches or contains a '/', e.g. "[/a]" against "a" or "x[^a]y"
	// against "x/y" (known finding matchprefix-slash-in-class: the package counts the '/'
	// characters of the pattern to decide which single prefix to try).
	SameCount bool
	// Specified is false when the two readings of "Trailing slashes on patterns are ignored"
	// (one slash per pattern, or all of them) give different answers.
	Specified bool
}

// MatchPrefix is MatchPrefixPatterns: "reports whether any path prefix of target
// matches one of the glob patterns (as defined by path.Match) in the
// comma-separated globs list. ... It ignores any empty or malformed patterns in
// the list. Trailing slashes on patterns are ignored."
func MatchPrefix(globs, target string) MatchResult {
	trimOne := func(g string) string { return strings.TrimSuffix(g, "/") }
	trimAll := func(g string) string { return strings.TrimRight(g, "/") }
	one, oneSame := matchPrefix(globs, target, trimOne)
	all, allSame := matchPrefix(globs, target, trimAll)
	return MatchResult{Match: one, SameCount: oneSame, Specified: one == all && oneSame == allSame}
}

func matchPrefix(globs, target string, trim func(string) string) (any, sameCount bool) {
	elems := strings.Split(target, "/")
	for _, g := range strings.Split(globs, ",") {
		g = trim(g)
		if g == "" {
			continue // "ignores any empty ... patterns"
		}
		for k := 1; k <= len(elems); k++ {
			// a malformed pattern yields an error and no match: "ignores any ... malformed patterns"
			if ok, err := path.Match(g, strings.Join(elems[:k], "/")); err == nil && ok {
				any = true
				if k == strings.Count(g, "/")+1 {
					sameCount = true
				}
			}
		}
	}
	return any, sameCount
}

// ---- escaping ------------------------------------------------------------

// Escape is the documented transformation: "replace every uppercase letter with
// an exclamation mark followed by the letter's lowercase equivalent."
func Escape(s string) string {
	var sb strings.Builder
	for i := 0; i < len(s); i++ {
		if c := s[i]; 'A' <= c && c <= 'Z' {
			sb.WriteByte('!')
			sb.WriteByte(c - 'A' + 'a')
		} else {
			sb.WriteByte(c)
		}
	}
	return sb.String()
}

// Decode is the only possible preimage of e under Escape among strings without
// '!': every "!x" with lower-case x becomes the upper-case letter, everything
// else stays (a '!' that is not followed by a lower-case letter stays, which
// makes the result invalid for every kind of input).
func Decode(e string) string {
	var sb strings.Builder
	for i := 0; i < len(e); i++ {
		if e[i] == '!' && i+1 < len(e) && 'a' <= e[i+1] && e[i+1] <= 'z' {
			sb.WriteByte(e[i+1] - 'a' + 'A')
			i++
		} else {
			sb.WriteByte(e[i])
		}
	}
	return sb.String()
}

// OpenVersionNonASCII: EscapeVersion's doc comment allows every valid file name
// without '!' (file names may contain Unicode letters), the package comment
// promises an ASCII-only escaped form and the package rejects non-ASCII versions.
const OpenVersionNonASCII Clause = "open:version-non-ascii-letter"

// ClVersionBang: "and not contain exclamation marks".
const ClVersionBang Clause = "version-exclamation-mark"

// CheckVersion judges a version string for EscapeVersion: "Versions are allowed
// to be in non-semver form but must be valid file names and not contain
// exclamation marks."
func CheckVersion(v string) Verdict {
	var vd Verdict
	if strings.Contains(v, "/") {
		vd.add(ClChars) // a file name is a single element
	}
	checkElem(v, File, &vd)
	if strings.Contains(v, "!") {
		vd.add(ClVersionBang)
	}
	for _, r := range v {
		if r >= 0x80 && r != utf8.RuneError && unicode.IsLetter(r) {
			vd.add(OpenVersionNonASCII)
		}
	}
	return vd
}

// InImage judges whether e is the escaped form of some valid input, and returns that input.
func InImage(e string, valid func(string) Status) (x string, st Status) {
	x = Decode(e)
	if Escape(x) != e || strings.Contains(x, "!") {
		return x, Invalid
	}
	return x, valid(x)
}
