// Package refhash is an independent implementation of the documented "h1:"
// module content hash (doc comment of dirhash.Hash1): the summary has one line
// per file, ordered by file name, each line being the lower-case hexadecimal
// SHA-256 of the content, two spaces, the name and a newline; the hash is
// "h1:" followed by the standard base64 of the SHA-256 of the summary. Names
// containing a newline are refused. It imports nothing from golang.org/x/mod.
package refhash

import (
	"crypto/sha256"
	"encoding/base64"
	"errors"
	"slices"
	"strings"
)

// File is one (name, content) pair.
type File struct {
	Name string
	Data []byte
}

// ErrNewline is returned for a name that contains U+000A.
var ErrNewline = errors.New("refhash: file name contains a newline")

const hexdigits = "0123456789abcdef"

// Summary builds the documented summary text of a file set.
func Summary(files []File) ([]byte, error) {
	fs := slices.Clone(files)
	// byte-wise order of the names, as sort.Strings gives
	slices.SortStableFunc(fs, func(a, b File) int { return strings.Compare(a.Name, b.Name) })
	var out []byte
	for _, f := range fs {
		if strings.IndexByte(f.Name, '\n') >= 0 {
			return nil, ErrNewline
		}
		sum := sha256.Sum256(f.Data)
		for _, b := range sum {
			out = append(out, hexdigits[b>>4], hexdigits[b&15])
		}
		out = append(out, ' ', ' ')
		out = append(out, f.Name...)
		out = append(out, '\n')
	}
	return out, nil
}

// Hash1 is the h1 hash of a file set.
func Hash1(files []File) (string, error) {
	s, err := Summary(files)
	if err != nil {
		return "", err
	}
	sum := sha256.Sum256(s)
	return "h1:" + base64.StdEncoding.EncodeToString(sum[:]), nil
}

// SameSet reports whether two lists hold the same set of (name, content) pairs.
func SameSet(a, b []File) bool {
	key := func(l []File) []string {
		var k []string
		for _, f := range l {
			h := sha256.Sum256(f.Data)
			k = append(k, string(h[:])+f.Name) // fixed-length prefix, so the key is unambiguous
		}
		slices.Sort(k)
		return slices.Compact(k)
	}
	return slices.Equal(key(a), key(b))
}
