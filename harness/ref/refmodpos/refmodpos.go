// Package refmodpos holds the small reference computations the modfile monitors
// (C02, C20) need. It imports nothing from golang.org/x/mod.
//
//   - LineCol: position arithmetic as documented on modfile.Position ("Line: line in input
//     (starting at 1); LineRune: rune in line (starting at 1); Byte: byte in input (starting
//     at 0)"): lines are split at '\n' only, columns count runes, an invalid UTF-8 byte is one
//     rune (utf8.RuneCount).
//   - PlainImportPath: a deliberately conservative sufficient condition for "valid import
//     path" (the C20 claim about ModulePath is only evaluated on such paths).
//   - Strip: removal of the bytes the lexer treats as blanks inside a line.
package refmodpos

import (
	"bytes"
	"strings"
	"unicode/utf8"
)

// LineColExact returns the 1-based line and rune column of byte offset off (0 <= off <= len(in)),
// computed from scratch.
func LineColExact(in []byte, off int) (line, col int) {
	line = 1 + bytes.Count(in[:off], []byte{'\n'})
	start := bytes.LastIndexByte(in[:off], '\n') + 1
	return line, 1 + utf8.RuneCount(in[start:off])
}

// Cursor recomputes (line, column) of byte offsets over one input incrementally. Queries at
// non-decreasing offsets cost amortised O(distance); a smaller offset restarts from 0.
// The column is accumulated segment by segment, which equals LineColExact whenever the
// queried offsets lie on rune boundaries; callers confirm a mismatch with LineColExact.
type Cursor struct {
	in   []byte
	at   int // current byte offset
	line int // line of at (1-based)
	col  int // rune column of at (1-based)
}

// NewCursor returns a cursor over in.
func NewCursor(in []byte) *Cursor { return &Cursor{in: in, line: 1, col: 1} }

// LineCol returns the 1-based line and the 1-based rune column of byte offset off,
// which must be within [0, len(in)].
func (c *Cursor) LineCol(off int) (line, col int) {
	if off < c.at {
		c.at, c.line, c.col = 0, 1, 1
	}
	seg := c.in[c.at:off]
	if n := bytes.Count(seg, []byte{'\n'}); n > 0 {
		c.line += n
		seg = seg[bytes.LastIndexByte(seg, '\n')+1:]
		c.col = 1
	}
	c.col += utf8.RuneCount(seg)
	c.at = off
	return c.line, c.col
}

// StripAppend appends Strip(b) to dst.
func StripAppend(dst, b []byte) []byte {
	for _, x := range b {
		if x != ' ' && x != '\t' && x != '\r' {
			dst = append(dst, x)
		}
	}
	return dst
}

// Strip removes ' ', '\t' and '\r' (the bytes the lexer skips between tokens of a line).
func Strip(b []byte) []byte {
	out := make([]byte, 0, len(b))
	for _, x := range b {
		if x != ' ' && x != '\t' && x != '\r' {
			out = append(out, x)
		}
	}
	return out
}

var reserved = map[string]bool{"con": true, "prn": true, "aux": true, "nul": true,
	"com0": true, "com1": true, "com2": true, "com3": true, "com4": true, "com5": true, "com6": true, "com7": true, "com8": true, "com9": true,
	"lpt0": true, "lpt1": true, "lpt2": true, "lpt3": true, "lpt4": true, "lpt5": true, "lpt6": true, "lpt7": true, "lpt8": true, "lpt9": true}

// PlainImportPath reports whether s is certainly a valid import path: non-empty
// slash-separated elements made of ASCII letters, digits, '-', '_' and '.', no element
// starting or ending with a dot, no element whose part before the first dot is a
// Windows reserved device name. (Valid import paths outside this set exist; the monitors
// treat them as unspecified.)
func PlainImportPath(s string) bool {
	if s == "" || len(s) > 200 {
		return false
	}
	for _, e := range strings.Split(s, "/") {
		if e == "" || e[0] == '.' || e[len(e)-1] == '.' {
			return false
		}
		for i := 0; i < len(e); i++ {
			ch := e[i]
			switch {
			case 'a' <= ch && ch <= 'z', 'A' <= ch && ch <= 'Z', '0' <= ch && ch <= '9', ch == '-', ch == '_', ch == '.':
			default:
				return false
			}
		}
		short := e
		if i := strings.IndexByte(short, '.'); i >= 0 {
			short = short[:i]
		}
		if reserved[strings.ToLower(short)] {
			return false
		}
	}
	return true
}
