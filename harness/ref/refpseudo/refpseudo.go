// Package refpseudo is the reference side of the pseudo-version property
// (C18): what the base recovered from a pseudo-version must be, what the
// "next release" after a base is (math/big, so patch numbers of any length),
// and a conservative recogniser of the five documented pseudo-version forms.
// It is written from the doc comment at the top of module/pseudo.go and
// imports nothing from golang.org/x/mod.
package refpseudo

import (
	"math/big"
	"strings"

	"verif/harness/ref/refsemver"
)

// WantBase is what PseudoVersionBase must give back for a pseudo-version made
// from base: the canonical form of base with its build suffix ("" for no base).
func WantBase(base string) (string, bool) {
	if base == "" {
		return "", true
	}
	p := refsemver.Parse(base)
	if !p.OK {
		return "", false
	}
	return p.Canonical + p.Build, true
}

// Next returns the next release after base: vX.Y.Z for a prerelease
// vX.Y.Z-pre, vX.Y.(Z+1) for a release vX.Y.Z.
func Next(base string) (string, bool) {
	p := refsemver.Parse(base)
	if !p.OK {
		return "", false
	}
	pat := new(big.Int).Set(p.Pat)
	if p.Pre == "" {
		pat.Add(pat, big.NewInt(1))
	}
	return "v" + p.Maj.String() + "." + p.Min.String() + "." + pat.String(), true
}

func isDigits(s string) bool {
	if s == "" {
		return false
	}
	for i := 0; i < len(s); i++ {
		if s[i] < '0' || s[i] > '9' {
			return false
		}
	}
	return true
}

func isAlnum(s string) bool {
	if s == "" {
		return false
	}
	for i := 0; i < len(s); i++ {
		c := s[i]
		if !(c >= '0' && c <= '9' || c >= 'a' && c <= 'z' || c >= 'A' && c <= 'Z') {
			return false
		}
	}
	return true
}

// Parts is the decomposition of a string that has one of the documented shapes.
type Parts struct {
	Shape     string // "invalid", "none", "form1", "form2", "form4"
	Timestamp string // 14 digits
	Rev       string
}

// Shape classifies v against the documented general forms
//
//	(1) vX.0.0-yyyymmddhhmmss-abcdef123456
//	(2) vX.Y.(Z+1)-0.yyyymmddhhmmss-abcdef123456        (3) …+incompatible
//	(4) vX.Y.Z-pre.0.yyyymmddhhmmss-abcdef123456        (5) …+incompatible
//
// ignoring the build suffix. "none"/"invalid" mean that v certainly has none
// of the forms, so it is not a pseudo-version.
func Shape(v string) Parts {
	p := refsemver.Parse(v)
	if !p.OK {
		return Parts{Shape: "invalid"}
	}
	core := v
	if i := strings.IndexAny(core, "-+"); i >= 0 {
		core = core[:i]
	}
	if strings.Count(core, ".") != 2 || p.Pre == "" {
		return Parts{Shape: "none"}
	}
	ids := strings.Split(p.Pre[1:], ".")
	last := ids[len(ids)-1]
	if len(last) < 16 || !isDigits(last[:14]) || last[14] != '-' || !isAlnum(last[15:]) {
		return Parts{Shape: "none"}
	}
	out := Parts{Timestamp: last[:14], Rev: last[15:]}
	switch {
	case len(ids) == 1:
		if p.Min.Sign() != 0 || p.Pat.Sign() != 0 {
			return Parts{Shape: "none"}
		}
		out.Shape = "form1"
	case ids[len(ids)-2] != "0":
		return Parts{Shape: "none"}
	case len(ids) == 2:
		out.Shape = "form2"
	default:
		out.Shape = "form4"
	}
	return out
}

// ValidTimestamp reports whether a 14-digit yyyymmddhhmmss stamp names an
// existing second of the proleptic Gregorian calendar.
func ValidTimestamp(ts string) bool {
	if len(ts) != 14 || !isDigits(ts) {
		return false
	}
	n := func(s string) int {
		x := 0
		for i := 0; i < len(s); i++ {
			x = x*10 + int(s[i]-'0')
		}
		return x
	}
	y, mo, d, h, mi, s := n(ts[0:4]), n(ts[4:6]), n(ts[6:8]), n(ts[8:10]), n(ts[10:12]), n(ts[12:14])
	if mo < 1 || mo > 12 || d < 1 || h > 23 || mi > 59 || s > 59 {
		return false
	}
	dim := []int{31, 28, 31, 30, 31, 30, 31, 31, 30, 31, 30, 31}[mo-1]
	if mo == 2 && y%4 == 0 && (y%100 != 0 || y%400 == 0) {
		dim = 29
	}
	return d <= dim
}
