// Package fsbox is the file-system sandbox of the zip engines (DESIGN.md §4):
// per case a fresh directory under os.TempDir() holding target/, sentinel
// siblings and the archive; a snapshot (path, type, size, sha256) of the
// sandbox root before and after the call under test; removal after the case.
package fsbox

import (
	"crypto/sha256"
	"fmt"
	"io"
	"io/fs"
	"os"
	"path/filepath"
	"sort"
	"strings"
)

// Box is one sandbox.
//
//	Root/
//	  sentinel.txt          regular file
//	  m.zip                 the archive (written by the engine)
//	  l1/sentinel.txt
//	  l1/l2/sentinel.txt
//	  l1/l2/sibling/inner.txt
//	  l1/l2/target2/        empty directory whose name has "target" as a prefix
//	  l1/l2/target/         the only place where the code under test may create anything
type Box struct {
	Root, Target, Zip string
}

// Base creates the per-batch parent of all sandboxes of one worker.
func Base(prefix string) (string, error) {
	return os.MkdirTemp("", prefix)
}

// New creates sandbox number id under base. The target directory itself is not created.
func New(base string, id string) (*Box, error) {
	root := filepath.Join(base, id)
	inner := filepath.Join(root, "l1", "l2")
	if err := os.MkdirAll(filepath.Join(inner, "sibling"), 0o777); err != nil {
		return nil, err
	}
	if err := os.Mkdir(filepath.Join(inner, "target2"), 0o777); err != nil {
		return nil, err
	}
	for _, p := range []string{filepath.Join(root, "sentinel.txt"), filepath.Join(root, "l1", "sentinel.txt"),
		filepath.Join(inner, "sentinel.txt"), filepath.Join(inner, "sibling", "inner.txt")} {
		if err := os.WriteFile(p, []byte("sentinel "+filepath.Base(filepath.Dir(p))+"\n"), 0o644); err != nil {
			return nil, err
		}
	}
	return &Box{Root: root, Target: filepath.Join(inner, "target"), Zip: filepath.Join(root, "m.zip")}, nil
}

// Remove deletes the sandbox (making everything writable first).
func (b *Box) Remove() {
	if err := os.RemoveAll(b.Root); err != nil {
		filepath.WalkDir(b.Root, func(p string, d fs.DirEntry, err error) error {
			if err == nil && d.IsDir() {
				os.Chmod(p, 0o777)
			}
			return nil
		})
		os.RemoveAll(b.Root)
	}
}

// Node is one file-system object of a snapshot.
type Node struct {
	Type string // "dir", "file", "symlink", "other"
	Size int64
	Sum  string // sha256 of a regular file's content, link target of a symlink
	Data []byte // content of a regular file (only when keepData and size <= 1 MiB)
}

// Snap is a snapshot keyed by slash-separated path relative to the root.
type Snap map[string]Node

// Snapshot walks root (without following symbolic links).
func Snapshot(root string, keepData bool) Snap {
	s := Snap{}
	filepath.WalkDir(root, func(p string, d fs.DirEntry, err error) error {
		rel, _ := filepath.Rel(root, p)
		rel = filepath.ToSlash(rel)
		if err != nil {
			s[rel] = Node{Type: "error:" + err.Error()}
			return nil
		}
		info, ierr := d.Info()
		if ierr != nil {
			s[rel] = Node{Type: "error:" + ierr.Error()}
			return nil
		}
		switch {
		case info.IsDir():
			s[rel] = Node{Type: "dir"}
		case info.Mode().IsRegular():
			n := Node{Type: "file", Size: info.Size()}
			f, err := os.Open(p)
			if err != nil {
				n.Sum = "unreadable:" + err.Error()
			} else {
				h := sha256.New()
				if keepData && info.Size() <= 1<<20 {
					n.Data, _ = io.ReadAll(io.TeeReader(f, h))
				} else {
					io.Copy(h, f)
				}
				f.Close()
				n.Sum = fmt.Sprintf("%x", h.Sum(nil))
			}
			s[rel] = n
		case info.Mode()&fs.ModeSymlink != 0:
			t, _ := os.Readlink(p)
			s[rel] = Node{Type: "symlink", Sum: t}
		default:
			s[rel] = Node{Type: "other:" + info.Mode().String()}
		}
		return nil
	})
	return s
}

// Change is one difference between two snapshots.
type Change struct {
	Path, Before, After string
}

func (n Node) brief() string {
	if n.Type == "" {
		return "absent"
	}
	s := n.Sum
	if len(s) > 12 {
		s = s[:12]
	}
	return fmt.Sprintf("%s size=%d %s", n.Type, n.Size, s)
}

// Outside returns every difference between before and after that does not lie
// under the relative directory allowed (allowed itself may appear as a directory).
func Outside(before, after Snap, allowed string) []Change {
	var out []Change
	in := func(p string) bool { return p == allowed || strings.HasPrefix(p, allowed+"/") }
	for p, a := range after {
		if in(p) {
			continue
		}
		b, ok := before[p]
		if !ok || b.Type != a.Type || b.Size != a.Size || b.Sum != a.Sum {
			out = append(out, Change{p, b.brief(), a.brief()})
		}
	}
	for p, b := range before {
		if in(p) {
			continue
		}
		if _, ok := after[p]; !ok {
			out = append(out, Change{p, b.brief(), "absent"})
		}
	}
	sort.Slice(out, func(i, j int) bool { return out[i].Path < out[j].Path })
	return out
}

// Under returns the part of the snapshot below the relative directory dir,
// re-keyed relative to it.
func (s Snap) Under(dir string) Snap {
	o := Snap{}
	for p, n := range s {
		if strings.HasPrefix(p, dir+"/") {
			o[p[len(dir)+1:]] = n
		}
	}
	return o
}
