package gen

import (
	"math/rand/v2"
	"strings"
	"unicode"
)

// Path generators shared by the C06 (path rules) and C11 (escaping) engines.
// They are purely syntactic; whether a result is valid is decided by the
// caller's reference model (the ok callbacks below only steer the draw).

const (
	lower  = "abcdefghijklmnopqrstuvwxyz"
	upper  = "ABCDEFGHIJKLMNOPQRSTUVWXYZ"
	digits = "0123456789"
)

// ModuleElemAlphabet / ImportElemAlphabet / FileElemAlphabet are draw alphabets (letters are
// repeated so that punctuation stays a minority).
var (
	ModuleElemAlphabet = strings.Split(lower+lower+upper+digits+"-._~", "")
	ImportElemAlphabet = strings.Split(lower+lower+upper+digits+"-._~++", "")
	FileElemAlphabet   = append(strings.Split(lower+lower+upper+digits+"!#$%&()+,-.=@[]^_{}~ ", ""), "é", "世", "ß", "\u03a9", "\u01c5", "\u212a")
	DomainAlphabet     = strings.Split(lower+lower+digits+"-", "")
)

// ReservedLike are element stems around the Windows device names (the names, near misses).
var ReservedLike = []string{"CON", "PRN", "AUX", "NUL", "COM1", "COM2", "COM3", "COM4", "COM5", "COM6", "COM7", "COM8", "COM9",
	"LPT1", "LPT2", "LPT3", "LPT4", "LPT5", "LPT6", "LPT7", "LPT8", "LPT9",
	"COM", "LPT", "COM10", "COM11", "LPT10", "CO", "CONX", "XCON", "NULL", "AUX1", "PRN0", "COM1X", "CON-", "CON_", "CON~", "COM0", "LPT0"}

// Elem draws a non-empty element over alphabet, retrying until ok accepts it.
func Elem(r *rand.Rand, alphabet []string, maxLen int, ok func(string) bool) string {
	for try := 0; ; try++ {
		n := 1 + r.IntN(maxLen)
		var sb strings.Builder
		for i := 0; i < n; i++ {
			sb.WriteString(Pick(r, alphabet))
		}
		e := sb.String()
		if ok == nil || ok(e) {
			return e
		}
		if try > 200 {
			return "x"
		}
	}
}

// CaseMix re-draws the case of every ASCII letter of s with probability p of upper case.
func CaseMix(r *rand.Rand, s string, pUpper float64) string {
	b := []byte(s)
	for i, c := range b {
		switch {
		case 'a' <= c && c <= 'z' && r.Float64() < pUpper:
			b[i] = c - 'a' + 'A'
		case 'A' <= c && c <= 'Z' && r.Float64() >= pUpper:
			b[i] = c - 'A' + 'a'
		}
	}
	return string(b)
}

// Domain draws a first element in the documented domain-name shape: lower-case letters, digits,
// dashes, at least one dot, no leading dash.
func Domain(r *rand.Rand, ok func(string) bool) string {
	if r.IntN(3) == 0 {
		return Pick(r, []string{"example.com", "github.com", "golang.org", "rsc.io", "k8s.io", "x.y", "a.b.c", "0.1", "go.uber.org", "gopkg.in"})
	}
	for try := 0; ; try++ {
		n := 2 + r.IntN(2)
		parts := make([]string, n)
		for i := range parts {
			parts[i] = Elem(r, DomainAlphabet, 6, nil)
		}
		d := strings.Join(parts, ".")
		if d[0] != '-' && (ok == nil || ok(d)) {
			return d
		}
		if try > 200 {
			return "example.com"
		}
	}
}

// MajorNumber draws the N of a /vN or .vN suffix that is valid for /vN (N >= 2, no leading zero).
func MajorNumber(r *rand.Rand) string {
	switch r.IntN(6) {
	case 0:
		return "2"
	case 1:
		return Pick(r, []string{"3", "9", "10", "11", "20", "100"})
	case 2:
		return Pick(r, []string{"18446744073709551615", "18446744073709551616", "99999999999999999999", "123456789012345678901234567890"})
	default:
		n := Digits(r, 1+r.IntN(3))
		if n == "0" || n == "1" {
			return "2"
		}
		return n
	}
}

// ModulePath draws a module path that is valid by construction: domain first element, further
// elements over the module alphabet accepted by ok, and optionally a /vN or gopkg.in .vN suffix.
func ModulePath(r *rand.Rand, ok func(string) bool) string {
	if r.IntN(8) == 0 {
		// gopkg.in/[user/]name.vN[-unstable]
		p := "gopkg.in/"
		if r.IntN(2) == 0 {
			p += Elem(r, ModuleElemAlphabet, 6, ok) + "/"
		}
		n := Pick(r, []string{"0", "1", "2", "3", "10"})
		if r.IntN(3) == 0 {
			n = MajorNumber(r)
		}
		// the element is name + ".vN": keep it acceptable as a whole
		for try := 0; ; try++ {
			name := Elem(r, ModuleElemAlphabet, 6, ok)
			e := name + ".v" + n
			if n != "0" && r.IntN(4) == 0 {
				e += "-unstable"
			}
			if ok == nil || ok(e) || try > 200 {
				return p + e
			}
		}
	}
	p := Domain(r, ok)
	k := r.IntN(4)
	for i := 0; i < k; i++ {
		e := Elem(r, ModuleElemAlphabet, 8, ok)
		if len(e) > 1 && e[0] == 'v' && strings.Trim(e[1:], "0123456789.") == "" {
			e = "w" + e // would read as a /vN suffix
		}
		p += "/" + e
	}
	if p == "gopkg.in" || strings.HasPrefix(p, "gopkg.in/") {
		p = "x." + p
	}
	if r.IntN(3) == 0 {
		p += "/v" + MajorNumber(r)
	}
	return p
}

// ImportPath draws a valid-by-construction import path that is usually not a valid module path
// (upper case or no dot in the first element, '+', elements starting with a dot).
func ImportPath(r *rand.Rand, ok func(string) bool) string {
	k := 1 + r.IntN(4)
	parts := make([]string, k)
	for i := range parts {
		parts[i] = Elem(r, ImportElemAlphabet, 8, ok)
		if r.IntN(6) == 0 && ok != nil && ok("."+parts[i]) {
			parts[i] = "." + parts[i]
		}
	}
	if parts[0][0] == '-' {
		parts[0] = "x" + parts[0]
	}
	return strings.Join(parts, "/")
}

// FilePath draws a valid-by-construction file path (Unicode letters, spaces, the extra punctuation).
func FilePath(r *rand.Rand, ok func(string) bool) string {
	k := 1 + r.IntN(4)
	parts := make([]string, k)
	for i := range parts {
		parts[i] = Elem(r, FileElemAlphabet, 8, ok)
	}
	return strings.Join(parts, "/")
}

var pathSoup = []string{"a", "b", "z", "A", "Z", "0", "1", "9", "-", ".", "_", "~", "+", "/", "/", "!", "#", "$", "%", "&", "(", ")", ",", "=", "@",
	"[", "]", "^", "{", "}", " ", "\"", "'", "*", "<", ">", "?", "`", "|", "\\", ":", ";", "é", "世", "ß", "\xff", "\x00", "\u0301", "\u212a", "\u0663", "\ufffd", "\xc0\x80",
	// non-letter runes whose LOW BYTE is an allowed ASCII punctuation character or letter (a byte(r) truncation would let them through)
	"\u202e", "\u2028", "\u2029", "\u2025", "\u0323", "\uff20", "\u2020", "\u200b", "\u2061", "\u212e", "\u2030", "\u203d", "\u2e2e", "\u3000", "\u205f", "\U0001f600",
	// pairs of runes that agree in their low 16 bits and differ in being a letter (a table or cache keyed on part of the rune confuses them)
	"\uf9d0", "\U0001f9d0", "\u0100", "\U000e0100", "\U00010100", "\U0002f800", "\uf800", "\u4e00", "\U00014e00",
	"v", "v2", "v1", "v0", "v02", "/v2", "/v1", ".v1", ".v2", ".v0", ".v", "-unstable", "com", "con", "CON", "nul", "Aux", "com1", "LPT9", "~1", "~12", "a~1",
	"gopkg.in", "example.com", "github.com", "..", "x.y", "\t", "\n", "\x7f"}

// PathSoup draws a short string over an alphabet containing every ASCII punctuation character,
// both cases, digits, non-ASCII letters and marks, invalid UTF-8, NUL and rule-relevant tokens.
func PathSoup(r *rand.Rand) string {
	var sb strings.Builder
	if r.IntN(40) == 0 {
		// a reserved stem that first occurs inside a longer word and later stands as an element of its own
		st := Pick(r, []string{"con", "nul", "aux", "prn", "com1", "lpt1", "CON", "Nul"})
		word := Pick(r, []string{st + "s", st + "0", "fal" + st, "x" + st, st + st, st + "-" + st, "_" + st})
		return Pick(r, []string{"", "example.com/", "a/"}) + word + "/" + st + Pick(r, []string{"", ".go", ".tar.gz", "/driver.go", " .txt"})
	}
	switch r.IntN(5) {
	case 0:
		sb.WriteString("example.com/")
	case 1:
		sb.WriteString("gopkg.in/")
	}
	n := 1 + r.IntN(7)
	for i := 0; i < n; i++ {
		if r.IntN(12) == 0 {
			sb.WriteRune(BoundaryRune(r))
			continue
		}
		sb.WriteString(Pick(r, pathSoup))
	}
	return sb.String()
}

// letterEdges: for every range of the Unicode letter tables, its first and last member and their
// outer neighbours (a non-letter in the middle of a letter block, like U+00D7 between U+00D6 and
// U+00D8, is the outer neighbour of two ranges).
var letterEdges = func() []rune {
	var out []rune
	add := func(lo, hi rune) {
		for _, x := range []rune{lo - 1, lo, hi, hi + 1} {
			if x >= 0x80 && x <= unicode.MaxRune && !(0xD800 <= x && x <= 0xDFFF) {
				out = append(out, x)
			}
		}
	}
	for _, rg := range unicode.L.R16 {
		if rg.Stride == 1 {
			add(rune(rg.Lo), rune(rg.Hi))
		} else {
			add(rune(rg.Lo), rune(rg.Lo))
			add(rune(rg.Hi), rune(rg.Hi))
		}
	}
	for _, rg := range unicode.L.R32 {
		add(rune(rg.Lo), rune(rg.Hi))
	}
	return out
}()

// BoundaryRune draws a rune at an edge of a range of the Unicode letter tables (half of them are
// letters, half are not), or now and then any code point below U+3000.
func BoundaryRune(r *rand.Rand) rune {
	if r.IntN(4) == 0 {
		return rune(0x80 + r.IntN(0x3000-0x80))
	}
	return letterEdges[r.IntN(len(letterEdges))]
}

// InsertAt inserts ins into s at a random byte position in [lo, len(s)].
func InsertAt(r *rand.Rand, s, ins string, lo int) string {
	if lo > len(s) {
		lo = len(s)
	}
	i := lo + r.IntN(len(s)-lo+1)
	return s[:i] + ins + s[i:]
}

// CaseFamily returns all 2^k casings of a skeleton with k ASCII letters (k is capped at max:
// letters beyond the cap keep their case).
func CaseFamily(skeleton string, max int) []string {
	var pos []int
	for i := 0; i < len(skeleton) && len(pos) < max; i++ {
		c := skeleton[i]
		if 'a' <= c && c <= 'z' || 'A' <= c && c <= 'Z' {
			pos = append(pos, i)
		}
	}
	out := make([]string, 0, 1<<len(pos))
	for m := 0; m < 1<<len(pos); m++ {
		b := []byte(strings.ToLower(skeleton))
		for j, p := range pos {
			if m>>j&1 == 1 {
				b[p] = b[p] - 'a' + 'A'
			}
		}
		out = append(out, string(b))
	}
	return out
}

// Glob tokens for one pattern element (no '/' inside).
var globTokens = []string{"a", "b", "c", "p", "q", "x.y", "*", "*", "?", "[a-c]", "[^a]", "[abc]", "\\a", "\\*", "[", "]", "\\", "[a-", "-", "é", "[é-世]", "", ""}

// GlobElem draws one pattern element.
func GlobElem(r *rand.Rand) string {
	var sb strings.Builder
	for i, n := 0, 1+r.IntN(3); i < n; i++ {
		sb.WriteString(Pick(r, globTokens))
	}
	return sb.String()
}

// GlobFor draws a pattern that is derived from the first k elements of target: literal elements
// with some characters generalised, so that matches are frequent.
func GlobFor(r *rand.Rand, target string) string {
	elems := strings.Split(target, "/")
	k := 1 + r.IntN(len(elems))
	if r.IntN(8) == 0 {
		k = len(elems) + 1 + r.IntN(2) // more elements than the target has
	}
	out := make([]string, k)
	for i := range out {
		if i >= len(elems) {
			out[i] = Pick(r, []string{"*", "a", "?"})
			continue
		}
		e := elems[i]
		switch r.IntN(8) {
		case 0:
			out[i] = "*"
		case 1:
			if len(e) > 0 {
				j := r.IntN(len(e))
				out[i] = e[:j] + "*"
			} else {
				out[i] = "*"
			}
		case 2:
			b := []byte(e)
			if len(b) > 0 && b[0] < 0x80 {
				b[0] = '?'
			}
			out[i] = string(b)
		case 3:
			if len(e) > 0 && e[0] >= 'a' && e[0] <= 'z' {
				out[i] = "[" + string(e[0]) + "-" + string(e[0]+1) + "]" + e[1:]
			} else {
				out[i] = e
			}
		case 4:
			if len(e) > 0 && e[0] < 0x80 {
				out[i] = "\\" + e
			} else {
				out[i] = e
			}
		case 5:
			out[i] = GlobElem(r)
		default:
			out[i] = e
		}
	}
	return strings.Join(out, "/")
}

// GlobTarget draws a target path over a small alphabet (so that random patterns hit).
func GlobTarget(r *rand.Rand) string {
	if r.IntN(12) == 0 {
		return Pick(r, []string{"", "/", "a/", "/a", "a//b", "a/b/", "é/世"})
	}
	toks := []string{"a", "b", "c", "p", "q", "pq", "x.y", "ab", "abc", "*", "é"}
	k := 1 + r.IntN(4)
	parts := make([]string, k)
	for i := range parts {
		parts[i] = Pick(r, toks)
		if r.IntN(4) == 0 {
			parts[i] += Pick(r, toks)
		}
	}
	return strings.Join(parts, "/")
}

// GlobList draws a comma-separated list for target: related patterns, unrelated ones, empty
// items, trailing slashes, malformed patterns.
func GlobList(r *rand.Rand, target string) string {
	n := 1 + r.IntN(3)
	items := make([]string, n)
	for i := range items {
		switch r.IntN(10) {
		case 0:
			items[i] = ""
		case 1:
			k := 1 + r.IntN(3)
			es := make([]string, k)
			for j := range es {
				es[j] = GlobElem(r)
			}
			items[i] = strings.Join(es, "/")
		case 2:
			items[i] = GlobFor(r, GlobTarget(r))
		default:
			items[i] = GlobFor(r, target)
		}
		switch r.IntN(12) {
		case 0, 1:
			items[i] += "/"
		case 2:
			items[i] += "//"
		case 3:
			items[i] = "/" + items[i]
		}
	}
	return strings.Join(items, ",")
}
