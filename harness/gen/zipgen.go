package gen

// Generators for the module-zip engines (C05, C12, C17): file names, file
// lists with fake Lstat results, go.mod contents, module path/version pairs.
// Everything is "valid by construction + k rule-targeted mutations".

import (
	"bytes"
	"fmt"
	"io"
	"io/fs"
	"math/rand/v2"
	"os"
	"path"
	"strings"
	"time"
	"unicode"
	"unicode/utf8"
)

// ZFile is a fake file for zip.CheckFiles / zip.Create (it has the three
// methods of zip.File). Lstat reports M and Sz; Open serves Data, or Zeros
// zero bytes when Zeros > 0 (never materialised).
type ZFile struct {
	P         string
	M         fs.FileMode
	Sz        int64
	Data      []byte
	Zeros     int64
	GoVersion string // argument of the go directive in Data ("" = none / unparsable file)
	GoModKind string // how the go.mod text was built (coverage accounting)
	Tag       string // what the generator intended with this file
	Opened    int
	OpenErr   error // when set, Open itself fails with this error
	ReadErr   error // when set, Open serves Data[:ReadErrAt] and then fails with this error
	ReadErrAt int
	LaterSz   int64 // when > 0, every Lstat after the first reports this size instead of Sz
	Lstats    int
}

type zInfo struct {
	f  *ZFile
	sz int64
}

func (i zInfo) Name() string       { return path.Base(i.f.P) }
func (i zInfo) Size() int64        { return i.sz }
func (i zInfo) Mode() fs.FileMode  { return i.f.M }
func (i zInfo) ModTime() time.Time { return time.Time{} }
func (i zInfo) IsDir() bool        { return i.f.M.IsDir() }
func (i zInfo) Sys() any           { return nil }

func (f *ZFile) Path() string { return f.P }
func (f *ZFile) Lstat() (os.FileInfo, error) {
	f.Lstats++
	if f.LaterSz > 0 && f.Lstats > 1 {
		return zInfo{f, f.LaterSz}, nil
	}
	return zInfo{f, f.Sz}, nil
}
func (f *ZFile) Open() (io.ReadCloser, error) {
	f.Opened++
	if f.OpenErr != nil {
		return nil, f.OpenErr
	}
	if f.ReadErr != nil {
		return io.NopCloser(io.MultiReader(bytes.NewReader(f.Data[:f.ReadErrAt]), zErrReader{f.ReadErr})), nil
	}
	if f.Zeros > 0 {
		return io.NopCloser(io.LimitReader(zeroReader{}, f.Zeros)), nil
	}
	return io.NopCloser(bytes.NewReader(f.Data)), nil
}

// Content returns what Open serves (only for files without Zeros).
func (f *ZFile) Content() []byte { return f.Data }

type zErrReader struct{ err error }

func (r zErrReader) Read([]byte) (int, error) { return 0, r.err }

type zeroReader struct{}

func (zeroReader) Read(p []byte) (int, error) {
	for i := range p {
		p[i] = 0
	}
	return len(p), nil
}

// ZGoMod is a go.mod text with the go version it declares.
type ZGoMod struct {
	Text, Version, Kind string
}

// ZGoMods: contents for a root go.mod. Version is the argument of the go
// directive when the file parses and has one, "" otherwise.
var ZGoMods = []ZGoMod{
	{"module example.com/m\n", "", "absent"},
	{"", "", "absent"},
	{"// go 1.24\nmodule example.com/m\n", "", "absent"},
	{"module example.com/m\n\ngo 1.16\n", "1.16", "old"},
	{"module example.com/m\n\ngo 1.9\n", "1.9", "old"},
	{"module example.com/m\n\ngo 1.23\n", "1.23", "old"},
	{"module example.com/m\n\ngo 1.23.4\n", "1.23.4", "old"},
	{"module example.com/m\n\ngo 1.23rc2\n", "1.23rc2", "old"},
	{"module example.com/m\n\ngo 1.24\n", "1.24", "new"},
	{"module example.com/m\n\ngo 1.24rc1\n", "1.24rc1", "new"},
	{"module example.com/m\n\ngo 1.24.0\n", "1.24.0", "new"},
	{"module example.com/m\n\ngo 1.25.0\n", "1.25.0", "new"},
	{"module example.com/m\n\ngo 1.100\n", "1.100", "new"},
	{"go 1.24\n", "1.24", "new"},
	{"module example.com/m\n\nrequire example.com/x v1.0.0\n\ngo 1.24\n\ntoolchain go1.24.1\n", "1.24", "new"},
	// the same line with other white space around it (a tab, an indent, blanks at the end, CRLF, a comment)
	{"module example.com/m\n\ngo\t1.24\n", "1.24", "new"},
	{"module example.com/m\n\n\tgo 1.24\n", "1.24", "new"},
	{"module example.com/m\n\n  go   1.24.0  \n", "1.24.0", "new"},
	{"module example.com/m\r\n\r\ngo 1.24\r\n", "1.24", "new"},
	{"module example.com/m\n\ngo 1.24 // as of this release\n", "1.24", "new"},
	{"go\t1.25\n", "1.25", "new"},
	{"module example.com/m\n\ngo\t1.23\n", "1.23", "old"},
	// non-ASCII around the go line: a no-break space, an ideographic space or a byte order mark is not white
	// space to the reader (the file is unparsable); an undecodable byte inside a word of a skipped line is
	// just a character; a requirement whose version has a Latin-1 letter spoils the file
	{"module example.com/m\n\ngo 1.24\u00a0\n", "", "unparsable"},
	{"module example.com/m\n\ngo\u30001.24\n", "", "unparsable"},
	{"\ufeffmodule example.com/m\n\ngo 1.24\n", "", "unparsable"},
	{"module example.com/m\n\ngo 1.24\n\nexclude example.com/it\x92s v1.0.0\n", "1.24", "new"},
	{"module example.com/m\n\ngo 1.24\n\nrequire example.com/x v1.0.0-b\u00eata\n", "", "unparsable"},
	{"module example.com/m\n\ngo 1.24\n\nrequire example.com/x v1.0.0-b\xe9ta\n", "", "unparsable"},
	// spellings only the lenient reading accepts: it keeps major.minor
	{"module example.com/m\n\ngo v1.24.0\n", "1.24", "new-lax"},
	{"module example.com/m\n\ngo 1.24.x\n", "1.24", "new-lax"},
	{"module example.com/m\n\ngo 1.25-custom\n", "1.25", "new-lax"},
	{"module example.com/m\n\ngo 1.24beta\n", "1.24", "new-lax"},
	{"module example.com/m\n\ngo v1.23\n", "", "unparsable"},
	{"module example.com/m\n\ngo 1.23.x\n", "1.23", "old-lax"},
	{"module example.com/m\n\ngo v1.9-a\n", "1.9", "old-lax"},
	{"module example.com/m\n\ngo 1.24\n)(\n", "", "unparsable"},
	{"module example.com/m\n\ngo 1.24 1.25\n", "", "unparsable"},
	{"module example.com/m\n\ngo one.two\n", "", "unparsable"},
	// a directive given twice is an error for the lenient reader too
	{"module example.com/m\n\ngo 1.24\ngo 1.21\n", "", "unparsable"},
	{"module example.com/m\n\ngo 1.21\n\ngo 1.24\n", "", "unparsable"},
	{"module example.com/m\nmodule example.com/m\n\ngo 1.24\n", "", "unparsable"},
	// (the lenient reader skips toolchain lines altogether, so a repeated one does not spoil the file)
	{"module example.com/m\n\ngo 1.24\n\ntoolchain go1.24.0\ntoolchain go1.24.1\n", "1.24", "new"},
	{"module example.com/m\ngo 1.24\nrequire (\n", "", "unparsable"},
}

// Name atoms. The "safe" pools contain only valid file-path elements and no
// two members that are equal under case folding.
var zSafeDirs = []string{"", "", "", "b/", "b/c/", "x/y/z/", "internal/", "cmd/tool/", "doc/", "é/", "k/", "straße/", "sp ace/", ".x/",
	"sub/", "sub/deep/", "s2/", "vendor/", "vendor/x/", "vendor/x/y/", "pkg/vendor/", "pkg/vendor/foo/", "pkg/vendor/x/vendor/y/",
	"vendorx/a/", "xvendor/a/", "vendor/vendor/", "pkg/vendor/x/vendor/", "vendor/x/vendor/", "go.mod/", "sub/go.mod/", "pkg/"}
var zSafeBases = []string{"a.go", "c.go", "main.go", "x_test.go", "foo.go", "README", "LICENSE", "LICENSE.md", "modules.txt", "vendor.go", "vendor",
	"é.go", "\u212A.go", "ß.txt", "ss.txt", "σ", "ǆ", "ſ.go", "µ.go", "θ", "ª", "ж.go",
	// letters whose case-folding orbit has three or more members (a one-step fold does not normalise them)
	"ς.go", "Ω.go", "ω", "å.txt", "\u212B", "вход.go", "В", "ι.txt", "ϑ.go", "ǅ.txt", "ᲀ", "ϐ", "ϕ.go", "ϖ", "ϱ", "ϵ", "ẛ", "ᲈ", "日本語.txt", "\uf9d0.txt", "\u0100", "\u4e00.go", "go.mod.bak", ".hidden", ".gitignore", ".git", "-dash", "_",
	"dollar$", "at@", "plus+", "hash#", "excl!", "eq=", "caret^", "br[ack]et", "{brace}", "pa(ren)", "amp&", "pct%", "com,ma", "tilde~",
	"sp ace.go", " lead", "con1", "com10", "conx", "x.con", "nul_", ".hg_archival.txt", "go.mod", "sum.golang.org"}

var zHostileDirs = []string{"B/", "b/C/", "É/", "K/", "\u212A/", "STRAẞE/", "Sub/", "SUB/deep/", "Vendor/x/", "VENDOR/x/", "con/", "aux.d/", "x./", "q?/",
	".git/", ".hg/", ".svn/", ".bzr/", "a/../", "./", "/abs/", "a//", "../", "b/./", "nul/", "lpt1.x/", "a..b/", "foo~1/", "\xff/", "e\u0301/",
	// letters whose case-folded form is shorter in UTF-8 than they are (Ohm, long s, Angstrom, capital sharp s)
	"\u2126x/", "\u017fs/d/", "\u212b/", "\u1e9e/q/"}
var zHostileBases = []string{"A.go", "C.go", "K.go", "k.go", "ẞ.txt", "SS.txt", "É.go", "e\u0301.go", "ς", "Σ", "ǅ", "Ǆ", "s.go", "S.go",
	"GO.MOD", "Go.mod", "go.MOD", "license", "License", ".HG_ARCHIVAL.TXT", "README", "readme", "Main.go",
	"con", "CON", "con.txt", "Con.tar.gz", "aux", "nul", "NUL.go", "com1", "COM9.x", "lpt1", "LPT0", "COM0", "prn", "PRN.a.b",
	"tr.", "...", "trail ", "q?.go", "st*r", "a:b", "x\\y", "qu\"ote", "pi|pe", "<lt", ">gt", "`bt", "'sq", "semi;colon",
	"foo~1.txt", "foo~1", "~1", "a..b", "..a", "emoji😀", "digit٣", "ⅷ", "\xff", "bad\xc3", "nul\x00x", "tab\tx", "nl\nx", "del\x7f", "\ufffd",
	"²", "x\u200bx", "x\u00a0x",
	// white space other than U+0020 at either end of a name
	"end\u00a0", "\u3000lead.go", "end.go\u2028", "end\t", "end.go\n", "\u0085x", "x.go\r", "go.mod\u00a0", "\u2003go.mod",
	// non-letter runes whose low byte is an allowed ASCII byte
	"inv\u202efdp.exe", "a\u2028b", "p\u2029q", "\u2025", "x\u0323", "at\uff20", "dag\u2020", "f\u2061x", "e\u212e", "per\u2030", "int\u203d", "sp\u3000ace", "m\u205fs",
	// non-letters that share their low 16 bits with a letter of the safe pool (and one letter that shares them with a non-letter)
	"\U0001f9d0.txt", "\U000e0100", "x\U00010100", "\U00014e00.go", "\uf800", "\U0002f800.go"}
var zWholePaths = []string{"", ".", "..", "../up", "a/", "/", "dir/", "a/./b", "../../x", "/go.mod", "./go.mod", "sub/../go.mod", "sub//go.mod",
	// reserved stems that first occur inside a longer word and later stand as an element of their own
	"icons/con.png", "null/nul.txt", "auxiliary/aux.go", "lpt10/lpt1.cfg", "falcon/con/driver.go", "conx/con", "prnt/x/prn.a", "com12/com1"}

// zModes for files that are not regular.
var zModes = []fs.FileMode{fs.ModeSymlink | 0o777, fs.ModeSymlink | 0o777, fs.ModeDir | 0o755, fs.ModeNamedPipe | 0o644, fs.ModeSocket | 0o644,
	fs.ModeDevice | 0o644, fs.ModeDevice | fs.ModeCharDevice | 0o644, fs.ModeIrregular | 0o644}

// ZOpts bounds a generated list.
type ZOpts struct {
	MaxFiles int  // upper bound on the list length before mutations
	MaxData  int  // bytes of content per file
	Modes    bool // allow symlink / directory / irregular modes
	FakeSize bool // allow declared sizes around the limits (content stays small: the size is then a lie)
	Plain    bool // only what can be materialised as a tree of regular files
}

// ZFoldVariant returns p with one rune replaced by another member of its
// case-folding orbit (k -> K or the Kelvin sign, ß -> ẞ ...); ok=false when p
// has no such rune.
func ZFoldVariant(r *rand.Rand, p string) (string, bool) {
	rs := []rune(p)
	var cand, special []int
	for i, c := range rs {
		if c != utf8.RuneError && unicode.SimpleFold(c) != c {
			cand = append(cand, i)
			// runes whose orbit is more than an ASCII upper/lower pair (k, s, Greek sigma, sharp s ...)
			for d := unicode.SimpleFold(c); d != c; d = unicode.SimpleFold(d) {
				if c >= 0x80 || d >= 0x80 {
					special = append(special, i)
					break
				}
			}
		}
	}
	if len(cand) == 0 {
		return p, false
	}
	if len(special) > 0 && r.IntN(2) == 0 {
		cand = special
	}
	n := 1
	if r.IntN(4) == 0 {
		n = 1 + r.IntN(len(cand))
	}
	for ; n > 0; n-- {
		i := cand[r.IntN(len(cand))]
		var orbit []rune
		for c := unicode.SimpleFold(rs[i]); c != rs[i]; c = unicode.SimpleFold(c) {
			orbit = append(orbit, c)
		}
		rs[i] = orbit[r.IntN(len(orbit))]
	}
	q := string(rs)
	return q, q != p
}

// zRichGoMod: a well-formed go.mod from the go.mod generator (comments with non-ASCII text,
// blocks, CRLF, odd spacing, other directives around the go line), now and then with
// unknown directives that the lenient reading skips.
func zRichGoMod(r *rand.Rand) ZGoMod {
	o := ModOpts{GoVersions: []string{"1.9", "1.21", "1.23", "1.23.9", "1.23rc2", "1.24", "1.24.0", "1.24rc1", "1.25.1", "1.100", "2.0"}, MaxStmts: 3}
	if r.IntN(4) == 0 {
		o.Unknown = 1 + r.IntN(2)
	}
	d := GoMod(r, o)
	kind := "rich-absent"
	if d.Go != "" {
		kind = "rich-old"
		var maj, min int
		fmt.Sscanf(d.Go, "%d.%d", &maj, &min)
		if maj > 1 || min >= 24 {
			kind = "rich-new"
		}
	}
	return ZGoMod{string(d.Bytes()), d.Go, kind}
}

func zData(r *rand.Rand, max int) []byte {
	if max <= 0 || r.IntN(8) == 0 {
		return []byte{}
	}
	b := make([]byte, 1+r.IntN(max))
	for i := range b {
		b[i] = byte(r.IntN(256))
	}
	return b
}

func zNewFile(r *rand.Rand, p string, o ZOpts, tag string) *ZFile {
	f := &ZFile{P: p, M: 0o644, Tag: tag}
	base := path.Base(p)
	if strings.EqualFold(base, "go.mod") {
		g := Pick(r, ZGoMods)
		if r.IntN(3) == 0 {
			g = zRichGoMod(r)
		}
		f.Data, f.GoVersion, f.GoModKind = []byte(g.Text), g.Version, g.Kind
	} else {
		f.Data = zData(r, o.MaxData)
	}
	f.Sz = int64(len(f.Data))
	return f
}

// ZSizes are declared sizes around the documented limits.
var ZSizes = []int64{16<<20 - 1, 16 << 20, 16<<20 + 1, 100 << 20, 250 << 20, 250<<20 + 1, 500<<20 - 16<<20, 500 << 20, 500<<20 + 1, 1 << 40, 1<<63 - 1}

// ZList generates a list of files. About half of the lists are made only of
// names that are valid or omitted by rule ("clean"); the others get 1..3
// rule-targeted mutations or are drawn from the hostile pools.
func ZList(r *rand.Rand, o ZOpts) (files []*ZFile, theme string) {
	n := 1 + r.IntN(o.MaxFiles)
	nd, nb := 1+r.IntN(4), 2+r.IntN(6)
	pick := func(pool []string, k int) []string {
		s := make([]string, k)
		for i := range s {
			s[i] = Pick(r, pool)
		}
		return s
	}
	dirs, bases := pick(zSafeDirs, nd), pick(zSafeBases, nb)
	t := r.IntN(100)
	switch {
	case t < 45:
		theme = "clean"
	case t < 80:
		theme = "mutated"
	default:
		theme = "hostile"
		if !o.Plain {
			dirs = append(dirs, pick(zHostileDirs, 1+r.IntN(2))...)
		} else {
			dirs = append(dirs, pick([]string{"B/", "b/C/", "É/", "K/", "\u212A/", "STRAẞE/", "Sub/", "Vendor/x/", "con/", "aux.d/", "x./", "q?/", "nul/", "a..b/", "e\u0301/", "\u2126x/", "\u017fs/d/", "\u212b/"}, 1+r.IntN(2))...)
		}
		bases = append(bases, pick(zHostileBases, 1+r.IntN(4))...)
		bases = append(bases, "e"+string(BoundaryRune(r))+".go", string(BoundaryRune(r)))
	}
	seen := map[string]bool{}
	add := func(p, tag string) *ZFile {
		f := zNewFile(r, p, o, tag)
		files = append(files, f)
		seen[p] = true
		return f
	}
	if r.IntN(10) < 6 {
		add("go.mod", "root-go.mod")
	}
	for len(files) < n {
		p := Pick(r, dirs) + Pick(r, bases)
		if theme == "hostile" && !o.Plain && r.IntN(12) == 0 {
			p = Pick(r, zWholePaths)
		}
		if seen[p] {
			n-- // keeps the loop finite on tiny pools
			continue
		}
		if theme != "hostile" {
			// clean lists must not clash as file vs directory
			clash := false
			for q := range seen {
				if strings.HasPrefix(q, p+"/") || strings.HasPrefix(p, q+"/") {
					clash = true
				}
			}
			if clash {
				n--
				continue
			}
		}
		add(p, "base")
	}
	if len(files) == 0 {
		add("a.go", "base")
	}
	if theme != "clean" {
		k := 1 + r.IntN(3)
		for ; k > 0; k-- {
			zMutateList(r, &files, o, add)
		}
	}
	if o.Modes {
		for _, f := range files {
			if r.IntN(12) == 0 {
				f.M = Pick(r, zModes)
				f.Tag += "+mode"
			}
		}
	}
	if o.FakeSize && r.IntN(6) == 0 {
		for k := 1 + r.IntN(3); k > 0; k-- {
			f := files[r.IntN(len(files))]
			f.Sz = Pick(r, ZSizes)
			if r.IntN(40) == 0 {
				f.Sz = -1 - int64(r.IntN(5))
			}
			f.Tag += "+fakesize"
		}
		if r.IntN(2) == 0 {
			// make sure the limited names get their share
			for _, f := range files {
				if f.P == "go.mod" && r.IntN(2) == 0 || path.Base(f.P) == "LICENSE" {
					f.Sz = Pick(r, ZSizes[:3])
					f.Tag += "+fakesize"
				}
			}
		}
	}
	r.Shuffle(len(files), func(i, j int) { files[i], files[j] = files[j], files[i] })
	return files, theme
}

// zMutateList applies one rule-targeted mutation.
func zMutateList(r *rand.Rand, files *[]*ZFile, o ZOpts, add func(p, tag string) *ZFile) {
	l := *files
	victim := l[r.IntN(len(l))]
	p := victim.P
	kinds := 12
	if o.Plain {
		kinds = 9
	}
	switch r.IntN(kinds) {
	case 0: // fold variant of an existing path
		if q, ok := ZFoldVariant(r, p); ok {
			add(q, "fold-variant")
		}
	case 1: // fold variant of a directory of an existing path
		if i := strings.LastIndex(p, "/"); i > 0 {
			if q, ok := ZFoldVariant(r, p[:i]); ok {
				add(q+"/"+Pick(r, zSafeBases), "fold-variant-dir")
			}
		}
	case 2: // file vs directory
		if r.IntN(2) == 0 || !strings.Contains(p, "/") {
			add(p+"/"+Pick(r, zSafeBases), "dir-under-file")
		} else {
			add(path.Dir(p), "file-over-dir")
		}
	case 3: // nested module next to an existing file, any case
		if d := path.Dir(p); d != "." && d != "/" {
			add(d+"/"+Pick(r, []string{"go.mod", "go.mod", "GO.MOD", "Go.Mod"}), "nested-go.mod")
		} else {
			add(Pick(r, []string{"sub", "b", "x/y"})+"/go.mod", "nested-go.mod")
		}
	case 4: // root go.mod in another case
		add(Pick(r, []string{"GO.MOD", "Go.mod", "go.MOD", "gO.mOd"}), "go.mod-case")
	case 5: // the file moves under a vendor directory
		add(Pick(r, []string{"vendor/", "vendor/x/", "pkg/vendor/", "pkg/vendor/q/", "a/b/vendor/"})+path.Base(p), "vendor-layout")
	case 6: // bad element
		add(path.Join(path.Dir(p), Pick(r, zHostileBases)), "hostile-base")
	case 7: // bad directory element
		if r.IntN(2) == 0 {
			// a reserved name whose stem extends the name of a sibling directory (co/ and con.go): each path
			// is judged on its own, whatever was looked at just before
			st := Pick(r, [][2]string{{"co", "con"}, {"nu", "nul"}, {"au", "aux"}, {"pr", "prn"}, {"com", "com1"}, {"lpt", "lpt9"}, {"CO", "CON"}, {"c", "con"}})
			pre := ""
			if d := path.Dir(p); d != "." && d != "/" && r.IntN(2) == 0 {
				pre = d + "/"
			}
			add(pre+st[0]+"/"+Pick(r, zSafeBases), "prefix-dir-of-reserved-name")
			add(pre+st[1]+Pick(r, []string{".go", ".txt", "", ".tar.gz"}), "reserved-name-after-its-prefix")
			return
		}
		add(strings.TrimSuffix(Pick(r, []string{"con/", "aux.d/", "x./", "q?/", "nul/", "a..b/", "foo~1/"}), "/")+"/"+path.Base(p), "hostile-dir")
	case 8: // VCS metadata file and friends
		add(Pick(r, []string{".hg_archival.txt", "x/.hg_archival.txt", ".HG_ARCHIVAL.TXT", "vendor/modules.txt", "pkg/vendor/modules.txt"}), "vcs-file")
	case 9: // duplicate listing (same file object)
		*files = append(*files, victim)
		if r.IntN(4) == 0 {
			*files = append(*files, victim)
		}
	case 10: // unclean or absolute spelling of an existing path
		add(Pick(r, []string{"./" + p, "/" + p, p + "/", "x/../" + p, strings.Replace(p, "/", "//", 1), p + "/."}), "unclean")
	case 11: // VCS directory content
		add(Pick(r, []string{".git/", ".hg/", "sub/.svn/", ".bzr/"})+Pick(r, []string{"config", "HEAD", "go.mod"}), "vcs-dir")
	}
}

// ZModule is a module path/version pair with the generator's intent.
type ZModule struct {
	Path, Version, Intent string
}

var zGoodModules = []ZModule{
	{"example.com/m", "v1.0.0", "plain"},
	{"example.com/m", "v0.3.1", "plain"},
	{"example.com/m", "v1.2.3-pre.1", "prerelease"},
	{"example.com/m", "v0.0.0-20191109021931-daa7c04131f5", "pseudo"},
	{"example.com/m", "v2.0.0+incompatible", "incompatible"},
	{"example.com/m/v2", "v2.0.0", "major-suffix"},
	{"example.com/m/v11", "v11.3.1-rc.1", "major-suffix"},
	{"github.com/Foo/Bar-baz_q", "v1.0.0", "upper-case-element"},
	{"gopkg.in/yaml.v2", "v2.4.0", "gopkg"},
	{"gopkg.in/check.v1", "v1.0.0", "gopkg"},
	{"gopkg.in/a/b.v0", "v0.1.0", "gopkg"},
	{"gopkg.in/x.v3-unstable", "v3.0.0", "gopkg"},
	{"gopkg.in/x.v1-unstable", "v1.2.0", "gopkg"},
	// "gopkg.in/yaml.v1 (or its -unstable form) may also have a v0.0.0- pseudo-version": the documented exception
	{"gopkg.in/check.v1", "v0.0.0-20161208181325-20d25e280405", "gopkg-v1-with-v0-pseudo"},
	{"gopkg.in/x.v1-unstable", "v0.0.0-20161208181325-20d25e280405", "gopkg-v1-with-v0-pseudo"},
	{"example.com/big/v9223372036854775808", "v9223372036854775808.0.1", "major-above-int64"},
	{"gopkg.in/big.v18446744073709551616", "v18446744073709551616.2.0", "major-above-int64"},
	{"gopkg.info/tools/lib", "v1.0.0", "host-starting-like-gopkg.in"},
	{"gopkg.in.example.com/lib/v2", "v2.1.0", "host-starting-like-gopkg.in"},
	{"example.com/m", "v2.0.0-rc.1+incompatible", "prerelease-incompatible"},
	{"a.b", "v1.0.0", "one-element"},
	{"x.y/v/w", "v1.0.0", "v-element-inside"},
	{"example.com/v", "v1.0.0", "v-alone"},
	{"example.com/m/v2x", "v1.0.0", "not-a-suffix"},
}

var zBadModules = []ZModule{
	{"example.com/m", "v1.0", "non-canonical"},
	{"example.com/m", "v1", "non-canonical"},
	{"example.com/m", "v1.0.0+meta", "non-canonical"},
	{"example.com/m", "v1.0.0+incompatible.1", "non-canonical"},
	{"example.com/m", "v01.0.0", "bad-version"},
	{"example.com/m", "", "bad-version"},
	{"example.com/m", "1.0.0", "bad-version"},
	{"example.com/m", "v1.0.0 ", "bad-version"},
	{"example.com/m", "v1.0.0/x", "bad-version"},
	{"example.com/m", "latest", "bad-version"},
	{"example.com/m", "v2.0.0-rc.01+incompatible", "bad-version"},
	{"example.com/m", "v1.0.0-01", "bad-version"},
	{"example.com/m", "v1.0.0-rc..1", "bad-version"},
	{"example.com/m", "v1.0.0-rc_1", "bad-version"},
	{"example.com/m", "v2.0.0", "major-mismatch"},
	{"example.com/m/v2", "v1.0.0", "major-mismatch"},
	{"example.com/m/v2", "v3.0.0", "major-mismatch"},
	{"example.com/m/v2", "v21.0.0", "major-mismatch"},
	{"example.com/m/v2", "v20.3.1-pre", "major-mismatch"},
	{"gopkg.in/yaml.v3", "v30.0.0", "major-mismatch"},
	{"example.com/m/v21", "v2.0.0", "major-mismatch"},
	{"example.com/m/v2", "v3.0.0+incompatible", "major-mismatch"},
	{"example.com/m/v2", "v1.0.0+incompatible", "major-mismatch"},
	{"gopkg.in/yaml.v2", "v3.1.0+incompatible", "major-mismatch"},
	{"example.com/m/v2", "v0.0.0-20191109021931-daa7c04131f5", "major-mismatch"},
	{"gopkg.in/yaml.v2", "v1.0.0", "major-mismatch"},
	{"gopkg.in/yaml.v2", "v3.0.0", "major-mismatch"},
	{"example.com/m/v1", "v1.0.0", "bad-major-suffix"},
	{"example.com/m/v0", "v0.1.0", "bad-major-suffix"},
	{"example.com/m/v02", "v2.0.0", "bad-major-suffix"},
	{"example.com/m/v2.1", "v2.1.0", "bad-major-suffix"},
	{"gopkg.in/yaml", "v1.0.0", "bad-gopkg"},
	{"gopkg.in/yaml/v2", "v2.0.0", "bad-gopkg"},
	{"gopkg.in/yaml.v02", "v2.0.0", "bad-gopkg"},
	{"gopkg.in/yaml.v-unstable", "v1.0.0", "bad-gopkg"},
	{"m", "v1.0.0", "bad-path"},
	{"localhost/tools.d", "v1.0.0", "bad-path"},
	{"cmd/go.mod", "v0.1.0", "bad-path"},
	{"corp/team/lib.go/v2", "v2.0.0", "bad-path"},
	{"Example.com/m", "v1.0.0", "bad-path"},
	// letters and signs beyond ASCII whose low byte is an allowed ASCII character, and versions with such bytes
	{"example.com/\u4e2d", "v1.0.0", "bad-path"},
	{"example.com/a\u017e", "v1.0.0", "bad-path"},
	{"example.com/x\u2030y", "v1.0.0", "bad-path"},
	{"example.com/m", "v1.0.0-b\u00eata", "bad-version"},
	{"example.com/m", "v1.\u0662.3", "bad-version"},
	{"example.com/m", "v1.0.0+\xe9", "bad-version"},
	{"example.com/.m", "v1.0.0", "bad-path"},
	{"example.com/m/", "v1.0.0", "bad-path"},
	{"example.com//m", "v1.0.0", "bad-path"},
	{"/example.com/m", "v1.0.0", "bad-path"},
	{"example.com/m!", "v1.0.0", "bad-path"},
	{"-example.com/m", "v1.0.0", "bad-path"},
	{"example.com/con", "v1.0.0", "bad-path"},
	{"example.com/NUL.x", "v1.0.0", "bad-path"},
	{"example.com/é", "v1.0.0", "bad-path"},
	{"example.com/m@v1", "v1.0.0", "bad-path"},
	{"example.com/m.", "v1.0.0", "bad-path"},
	{"example.com/a b", "v1.0.0", "bad-path"},
	{"example.com/../m", "v1.0.0", "bad-path"},
	{"", "v1.0.0", "bad-path"},
}

// ZGoodModule returns a valid pair.
func ZGoodModule(r *rand.Rand) ZModule { return Pick(r, zGoodModules) }

// ZBadModule returns a pair that breaks one rule.
func ZBadModule(r *rand.Rand) ZModule {
	if r.IntN(3) == 0 {
		// a generated pair: a usual path with a version from the version soup (most are valid but not
		// canonical or do not match the path, a good share break one rule of the version grammar)
		p := Pick(r, []string{"example.com/m", "example.com/m", "example.com/m/v2", "gopkg.in/yaml.v2", "gopkg.in/x.v1-unstable", "gopkg.in/check.v1"})
		v := Version(r)
		if r.IntN(2) == 0 {
			v = ValidVersion(r, true)
		}
		return ZModule{p, v, "generated-pair"}
	}
	return Pick(r, zBadModules)
}

// ZHostileName returns one (usually invalid) archive entry name relative to
// the module prefix: the union of the list pools plus archive-only forms.
func ZHostileName(r *rand.Rand) string {
	switch r.IntN(10) {
	case 0:
		return Pick(r, zWholePaths)
	case 1:
		return Pick(r, []string{"../evil", "../../evil", "../../../evil", "../../../../evil", "a/../../evil", "..\\evil", "/abs", "//abs", "\\abs",
			"C:/x", "C:\\x", "a\\..\\..\\b", "dir/../../sentinel.txt", "../sentinel.txt", "../sibling/inner.txt", "../m.zip", "..", "../", "a/..", "x/../../target2/f"})
	case 2, 3:
		return Pick(r, zHostileDirs) + Pick(r, zSafeBases)
	case 4, 5:
		return Pick(r, zSafeDirs) + Pick(r, zHostileBases)
	case 6:
		return Pick(r, zHostileDirs) + Pick(r, zHostileBases)
	case 7:
		return Pick(r, zSafeDirs) + Pick(r, []string{"go.mod", "GO.MOD", "Go.mod", "go.mod/", "LICENSE", "license"})
	default:
		return Pick(r, zSafeDirs) + Pick(r, zSafeBases) + Pick(r, []string{"/", "//", "/.", "\x00", " ", "."})
	}
}

// ZSafeName returns a valid entry name relative to the module prefix.
func ZSafeName(r *rand.Rand) string {
	d := Pick(r, zSafeDirs)
	b := Pick(r, zSafeBases)
	if b == "go.mod" && d != "" {
		b = "go.sum"
	}
	return d + b
}
