package gen

// Starting files for the modfile edit engines (C08, C15, C16): well-formed
// go.mod / go.work texts over a small universe (so that operations collide),
// with duplicated directives, mixed line/block forms, commented blocks and
// uniquely tagged comments: directive line number k may carry the whole-line
// comment "// b<k>" directly before it and the end-of-line comment "// s<k>"
// (after "indirect; " on indirect requirements). The generator also returns a
// description of every directive line it wrote, so that a reference model can
// be initialised without consulting the parser under test.

import (
	"fmt"
	"math/rand/v2"
	"strconv"
	"strings"
)

// The argument universe shared by the file generator and the session generators.
var (
	EditPaths = []string{"a.com/x", "b.com/y", "c.com/z/v2", "d.com/w", "require"} // the last one is spelled like a directive keyword
	// three canonical versions per path, matching the path's major version;
	// lexical and semantic order differ inside a.com/x and c.com/z/v2.
	EditVers = map[string][]string{
		"a.com/x":    {"v1.2.3", "v1.10.0", "v1.0.0", "v1.9.10"}, // the last is as long as the second and sorts the other way as a string
		"b.com/y":    {"v1.0.0", "v0.1.0", "v1.1.0-pre"},
		"c.com/z/v2": {"v2.10.0", "v2.1.0", "v2.0.0"},
		"d.com/w":    {"v0.0.1", "v1.0.0", "v2.0.0+incompatible", "v1.0.0+incompatible"}, // the last differs from the second by its build tag only
		"require":    {"v1.0.0", "v1.1.0", "v0.5.0"},
	}
	EditRetracts   = [][2]string{{"v1.0.0", "v1.0.0"}, {"v1.10.0", "v1.10.0"}, {"v1.2.0", "v1.2.0"}, {"v1.1.0", "v1.2.0"}, {"v1.1.0", "v1.3.0"}, {"v0.9.0", "v0.9.5"}}
	EditTools      = []string{"a.com/x/cmd/t", "b.com/y/t2", "d.com/w/cmd/q"}
	EditGodebugKey = []string{"k1", "k2", "k3"}
	EditGodebugVal = []string{"0", "1", "2", ""} // the empty value is a value too (`godebug k=`)
	EditUseDirs    = []string{"./a", "./b", "../c", "./d e", "./f", "./g//h", "./m//", "./n\xffr", "./cafe\u0301"} // the last two: an undecodable byte next to the end, a combining mark at the end (both are written unquoted)
	EditGoVersions = []string{"1.9", "1.20", "1.21", "1.21.0", "1.22.1", "1.100", "1.22rc1", "1.20rc2"}
	EditToolchains = []string{"go1.21.0", "go1.22.1", "default"}
	EditModules    = []string{"m.com/m", "n.com/n"}
	// replacement targets: directories have no version
	EditTargets = [][2]string{{"../x", ""}, {"../y", ""}, {"e.com/fork", "v1.0.0"}, {"e.com/fork", "v1.1.0"}, {"f.com/other", "v1.0.0"}, {"../v\xff", ""}, {"../m\u00b2", ""}, {"../z//w", ""}, {"./sp ace", ""}, {".", ""}, {"..", ""}, {"../q//", ""}}
)

// EditLine describes one directive line of a generated file.
type EditLine struct {
	UID  int    // unique id, also the number in its tags
	Verb string // module go toolchain require exclude replace retract tool godebug use
	// A holds the semantic fields: require/exclude path, version; replace old
	// path, old version, new path, new version; retract low, high; tool path;
	// godebug key, value; use directory; module/go/toolchain the value.
	A            [4]string
	Indirect     bool
	TagB, TagS   bool // the line carries "// b<UID>" before / "s<UID>" in its end-of-line comment
	Stmt         int  // ordinal of the top-level statement it was written in
	InBlock      bool
	BlockComment bool // its block has a leading comment
	// SuffixNote is the text of the end-of-line comment apart from the "indirect" marker (empty: none).
	SuffixNote string
}

// EditFile is a generated starting file.
type EditFile struct {
	Work  bool
	Text  string
	Lines []EditLine
	// Shape facts (coverage accounting and domain decisions of the engines).
	ReqStmts       int  // top-level require statements (lines and non-empty blocks)
	ReqBare        bool // no require statement or line has a comment other than "// indirect", and no blank lines inside
	MixedForms     bool // some verb appears both as a single line and in a block
	CommentedBlock bool // some block has a leading comment
	TailComment    bool // some block has a comment before its closing parenthesis
	Duplicates     map[string]bool
}

// EditOpts tunes the generator.
type EditOpts struct {
	Work bool
	// Bulk: workload of the bulk-setter engine: more require/use groups, a good
	// share of files whose only requirements are one uncommented line or block.
	Bulk bool
	// NoCommentedRetractBlock keeps leading comments off retract blocks (the
	// rationale of a retract line without own comments is its block's comment,
	// which makes the rationale depend on layout).
	NoCommentedRetractBlock bool
}

type editGen struct {
	r    *rand.Rand
	o    EditOpts
	b    strings.Builder
	f    *EditFile
	uid  int
	stmt int
	seen map[string]bool
	form map[string]int // verb -> bit 1 line form, bit 2 block form
}

// EditQuote quotes a token the way go.mod syntax requires for the strings of the universe.
func EditQuote(s string) string {
	if s == "" || strings.ContainsAny(s, " \"'`") || strings.Contains(s, "//") {
		return strconv.Quote(s)
	}
	return s
}

type editSpec struct {
	a        [4]string
	text     string
	indirect bool
}

// group writes n directive lines of one verb as a block or as single lines.
// bare: no comments at all except "// indirect".
func (g *editGen) group(verb string, n int, bare bool, mk func() editSpec) {
	r := g.r
	block := r.IntN(2) == 0
	if n == 0 {
		if r.IntN(12) != 0 || bare {
			return
		}
		// an empty block
		fmt.Fprintf(&g.b, "%s (\n)\n\n", verb)
		g.stmt++
		return
	}
	blockComment := false
	if block {
		g.form[verb] |= 2
		if !bare && r.IntN(3) == 0 && !(verb == "retract" && g.o.NoCommentedRetractBlock) {
			blockComment = true
			g.f.CommentedBlock = true
			fmt.Fprintf(&g.b, "// blk%d\n", g.stmt)
		}
		fmt.Fprintf(&g.b, "%s (\n", verb)
		if verb == "require" {
			g.f.ReqStmts++
		}
	} else {
		g.form[verb] |= 1
	}
	for i := 0; i < n; i++ {
		g.uid++
		sp := mk()
		l := EditLine{UID: g.uid, Verb: verb, A: sp.a, Indirect: sp.indirect, Stmt: g.stmt, InBlock: block, BlockComment: blockComment}
		if !bare {
			l.TagB = r.IntN(4) > 0
			l.TagS = r.IntN(4) > 0
		}
		key := verb + " " + sp.text
		if verb == "require" || verb == "godebug" {
			key = verb + " " + sp.a[0]
		}
		if verb == "replace" {
			key = verb + " " + sp.a[0] + " " + sp.a[1]
		}
		if g.seen[key] {
			g.f.Duplicates[verb] = true
		}
		g.seen[key] = true
		ind := ""
		if block {
			ind = "\t"
			if !bare && i > 0 && r.IntN(6) == 0 {
				g.b.WriteString("\n") // blank line inside the block
			}
		}
		if l.TagB {
			fmt.Fprintf(&g.b, "%s// b%d\n", ind, l.UID)
		}
		if block {
			g.b.WriteString("\t" + sp.text)
		} else {
			g.b.WriteString(verb + " " + sp.text)
			if verb == "require" {
				g.f.ReqStmts++
			}
		}
		// Some end-of-line comments of require lines merely START with the word "indirect": only
		// "// indirect" alone or a "// indirect;" prefix is the marker.
		note := ""
		if l.TagS {
			note = fmt.Sprintf("s%d", l.UID)
			if verb == "require" {
				switch r.IntN(8) {
				case 0:
					note = fmt.Sprintf("indirect dependency of q, pinned s%d", l.UID)
				case 1:
					note = fmt.Sprintf("indirectly s%d", l.UID)
				case 2:
					note = fmt.Sprintf("was indirect; s%d", l.UID)
				}
			}
		}
		// the marker is the word "indirect" alone, or "indirect;" followed by white space and more text;
		// the white space around it is usually one blank, now and then something else
		lead, sep := " ", " "
		if r.IntN(6) == 0 {
			lead = Pick(r, []string{"", "\t", "  ", "\u00a0", " \t"})
		}
		if r.IntN(6) == 0 {
			sep = Pick(r, []string{"\t", "  ", "\u00a0", " \t", "\u3000"})
		}
		switch {
		case sp.indirect && l.TagS:
			fmt.Fprintf(&g.b, " //%sindirect;%s%s", lead, sep, note)
		case sp.indirect:
			g.b.WriteString(" //" + lead + "indirect")
		case l.TagS:
			fmt.Fprintf(&g.b, " // %s", note)
		case verb == "require" && !bare && r.IntN(12) == 0:
			// an end-of-line comment with nothing in it but blanks
			g.b.WriteString(" //" + Pick(r, []string{"", " ", "\t", "  \t "}))
			g.f.ReqBare = false
		}
		l.SuffixNote = note
		g.b.WriteString("\n")
		if !block {
			g.stmt++
			if r.IntN(3) == 0 {
				g.b.WriteString("\n")
			}
		}
		g.f.Lines = append(g.f.Lines, l)
	}
	if block {
		if !bare && r.IntN(8) == 0 {
			g.f.TailComment = true
			fmt.Fprintf(&g.b, "\t// tail%d\n", g.stmt)
		}
		g.b.WriteString(")\n")
		g.stmt++
	}
	g.b.WriteString("\n")
	if !bare && r.IntN(10) == 0 {
		// a free-standing comment block between statements
		fmt.Fprintf(&g.b, "// free%d\n\n", g.stmt)
		g.stmt++
	}
}

func (g *editGen) scalar(verb, val string) {
	g.uid++
	l := EditLine{UID: g.uid, Verb: verb, A: [4]string{val}, Stmt: g.stmt}
	l.TagB = g.r.IntN(2) == 0
	l.TagS = g.r.IntN(2) == 0
	if l.TagB {
		fmt.Fprintf(&g.b, "// b%d\n", l.UID)
	}
	if verb == "module" && g.r.IntN(10) == 0 {
		l.InBlock = true
		fmt.Fprintf(&g.b, "module (\n\t%s", val)
		if l.TagS {
			fmt.Fprintf(&g.b, " // s%d", l.UID)
		}
		g.b.WriteString("\n)\n\n")
	} else {
		fmt.Fprintf(&g.b, "%s %s", verb, val)
		if l.TagS {
			fmt.Fprintf(&g.b, " // s%d", l.UID)
		}
		g.b.WriteString("\n\n")
	}
	g.stmt++
	g.f.Lines = append(g.f.Lines, l)
}

func (g *editGen) replaceSpec() editSpec {
	r := g.r
	p := Pick(r, EditPaths)
	ov := ""
	if r.IntN(2) == 0 {
		ov = Pick(r, EditVers[p])
	}
	t := Pick(r, EditTargets)
	s := p
	if ov != "" {
		s += " " + ov
	}
	s += " => " + EditQuote(t[0])
	if t[1] != "" {
		s += " " + t[1]
	}
	return editSpec{a: [4]string{p, ov, t[0], t[1]}, text: s}
}

func (g *editGen) godebugSpec() editSpec {
	k, v := Pick(g.r, EditGodebugKey), Pick(g.r, EditGodebugVal[:2])
	return editSpec{a: [4]string{k, v}, text: k + "=" + v}
}

// EditGenFile generates one starting file.
func EditGenFile(r *rand.Rand, o EditOpts) *EditFile {
	g := &editGen{r: r, o: o, f: &EditFile{Work: o.Work, Duplicates: map[string]bool{}}, seen: map[string]bool{}, form: map[string]int{}}
	if o.Work {
		g.genWork()
	} else {
		g.genMod()
	}
	g.f.Text = g.b.String()
	for _, v := range g.form {
		if v == 3 {
			g.f.MixedForms = true
		}
	}
	return g.f
}

func (g *editGen) genMod() {
	r := g.r
	g.scalar("module", EditModules[0])
	goLate := r.IntN(8) == 0
	hasGo := r.IntN(5) > 0
	gov := Pick(r, EditGoVersions)
	if hasGo && !goLate {
		g.scalar("go", gov)
	}
	if r.IntN(4) == 0 {
		g.scalar("toolchain", Pick(r, EditToolchains))
	}

	reqSpec := func() editSpec {
		p := Pick(r, EditPaths)
		v := Pick(r, EditVers[p])
		return editSpec{a: [4]string{p, v}, text: p + " " + v, indirect: r.IntN(2) == 0}
	}
	excSpec := func() editSpec {
		p := Pick(r, EditPaths)
		v := Pick(r, EditVers[p])
		return editSpec{a: [4]string{p, v}, text: p + " " + v}
	}
	retSpec := func() editSpec {
		vi := Pick(r, EditRetracts)
		if vi[0] == vi[1] && r.IntN(3) > 0 {
			return editSpec{a: [4]string{vi[0], vi[1]}, text: vi[0]}
		}
		return editSpec{a: [4]string{vi[0], vi[1]}, text: "[" + vi[0] + ", " + vi[1] + "]"}
	}
	toolSpec := func() editSpec {
		p := Pick(r, EditTools)
		return editSpec{a: [4]string{p}, text: p}
	}

	// requirements
	g.f.ReqBare = true
	bareOne := g.o.Bulk && r.IntN(3) == 0 // the separation-qualifying shape: one uncommented line or block
	var groups []func()
	if bareOne {
		n := 1 + r.IntN(5)
		if r.IntN(4) == 0 {
			n = 1
		}
		groups = append(groups, func() { g.reqGroup(n, true, reqSpec) })
	} else {
		k := r.IntN(3)
		if g.o.Bulk {
			k = 1 + r.IntN(3)
		}
		for i := 0; i < k; i++ {
			n := r.IntN(4)
			if g.o.Bulk {
				n = r.IntN(5)
			}
			bare := r.IntN(5) == 0
			groups = append(groups, func() { g.reqGroup(n, bare, reqSpec) })
		}
	}
	small := func(max int) int { return r.IntN(max + 1) }
	nExc, nRep, nRet, nTool, nGdb := small(3), small(3), small(3), small(2), small(2)
	if g.o.Bulk {
		// blocks whose order is decided by the documented comparators
		nExc, nRet = small(4), small(4)
	}
	groups = append(groups,
		func() { g.group("exclude", nExc, false, excSpec) },
		func() { g.group("replace", nRep, false, g.replaceSpec) },
		func() { g.group("retract", nRet, false, retSpec) },
		func() { g.group("tool", nTool, false, toolSpec) },
		func() { g.group("godebug", nGdb, false, g.godebugSpec) },
	)
	// a second group of some verb now and then (several blocks of one kind)
	switch r.IntN(8) {
	case 0:
		groups = append(groups, func() { g.group("exclude", 1+small(2), false, excSpec) })
	case 1:
		groups = append(groups, func() { g.group("replace", 1+small(2), false, g.replaceSpec) })
	case 2:
		groups = append(groups, func() { g.group("retract", 1+small(1), false, retSpec) })
	case 3:
		groups = append(groups, func() { g.group("tool", 1+small(1), false, toolSpec) })
	}
	if r.IntN(4) == 0 {
		r.Shuffle(len(groups), func(i, j int) { groups[i], groups[j] = groups[j], groups[i] })
	}
	for _, f := range groups {
		f()
	}
	if hasGo && goLate {
		g.scalar("go", gov)
	}
}

func (g *editGen) reqGroup(n int, bare bool, mk func() editSpec) {
	before := len(g.f.Lines)
	cb, tc := g.f.CommentedBlock, g.f.TailComment
	g.f.CommentedBlock, g.f.TailComment = false, false
	mark := g.b.Len()
	g.group("require", n, bare, mk)
	written := g.b.String()[mark:]
	if !bare {
		for _, l := range g.f.Lines[before:] {
			if l.TagB || l.TagS {
				g.f.ReqBare = false
			}
		}
		if g.f.CommentedBlock || g.f.TailComment || strings.Contains(written, "\n\n\t") {
			g.f.ReqBare = false
		}
	}
	g.f.CommentedBlock = g.f.CommentedBlock || cb
	g.f.TailComment = g.f.TailComment || tc
}

func (g *editGen) genWork() {
	r := g.r
	if r.IntN(4) > 0 {
		g.scalar("go", Pick(r, EditGoVersions))
	}
	if r.IntN(4) == 0 {
		g.scalar("toolchain", Pick(r, EditToolchains))
	}
	useSpec := func() editSpec {
		d := Pick(r, EditUseDirs)
		return editSpec{a: [4]string{d}, text: EditQuote(d)}
	}
	var groups []func()
	k := 1 + r.IntN(2)
	if g.o.Bulk {
		k = 1 + r.IntN(3)
	}
	for i := 0; i < k; i++ {
		n := r.IntN(4)
		bare := r.IntN(5) == 0
		groups = append(groups, func() { g.group("use", n, bare, useSpec) })
	}
	nGdb, nRep := r.IntN(3), r.IntN(4)
	groups = append(groups,
		func() { g.group("godebug", nGdb, false, g.godebugSpec) },
		func() { g.group("replace", nRep, false, g.replaceSpec) },
	)
	if r.IntN(6) == 0 {
		groups = append(groups, func() { g.group("replace", 1+r.IntN(2), false, g.replaceSpec) })
	}
	if r.IntN(4) == 0 {
		r.Shuffle(len(groups), func(i, j int) { groups[i], groups[j] = groups[j], groups[i] })
	}
	for _, f := range groups {
		f()
	}
}
