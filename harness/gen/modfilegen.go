package gen

// Generators and mutators for go.mod / go.work texts (package modfile of
// golang/mod). Shared by the engines of C02 and C20 and meant to be reused by
// the edit-operation engines (C08, C15, C16). Nothing here imports golang/mod.
//
// API overview
//
//	(a) ModTokenSoup(r)            random concatenation of lexer-level atoms; about half of the
//	                               results are accepted by the syntax layer.
//	(b) ModStructure(r)            syntactically valid text made of lines and blocks whose tokens carry
//	                               no directive meaning, with comments placed deliberately at each of the
//	                               ten textual comment sites (ModSite…); reports what it placed.
//	(c) GoMod(r, o), GoWork(r, o)  well-formed go.mod / go.work files as a *ModDoc: a list of top-level
//	                               chunks (each a complete statement with its own comments) plus the
//	                               directive values the text was rendered from. (*ModDoc).Bytes() is the
//	                               text, (*ModDoc).WithUnknown(r, n) a copy with n unknown directives /
//	                               blocks inserted between chunks (lax-only files).
//	(d) ModMutateBytes, ModMutateTokens, ModSplice, ModHuge
//	                               byte-, token-level mutators and very large inputs.
//	    ModTestdata()              the *.in fixtures of /repo/modfile/testdata (empty if absent).
//
// Domain restrictions of (c), from the statements of C02/C20 and DESIGN §5.20/§6.8:
// paths are non-empty and never a lone bracket or comma; versions are valid semantic
// versions that match the major-version suffix of their path (canonical unless
// ModOpts.NonCanonical); the module path is a valid import path unless
// ModOpts.ExoticModule; no line inside a block starts with the bare token `module`
// and no block header starts with `module` unless it is the module directive itself
// (ModulePath is a line scanner, known finding modulepath-block-line).

import (
	"fmt"
	"math/rand/v2"
	"os"
	"path/filepath"
	"sort"
	"strconv"
	"strings"
	"sync"
	"unicode"
	"unicode/utf8"
)

// ---------------------------------------------------------------------------------------------
// (a) token soup

var modSoupAtoms = []string{
	"a", "b", "require", "module", "x/y", "v1.2.3", "(", ")", "[", "]", "{", "}", ",",
	"\"q s\"", "`r`", "// c", "//", "\n", "\n", "\n", "\n", " ", "\t", "\r", "\r\n", "=>", "\"\"", "/", "//x", "é",
	"\"a//b\"", "go", "1.21", "\\", "'", "\"\\\"\"", "// indirect", "/*", "\x00", " ", "\v", "\xff",
	"\"unterminated", "retract", "use", "./d", "世界", "\"\\x41\\u00e9\"", "`a\\`", "\"/*\"", "(\n", "\n)", "( )",
	"//\t c \t", "exclude", "replace", "tool", "godebug", "k=v", "toolchain", "go1.22", "\u00a0", "\u2028", "\ufeff",
	"v2.0.0+incompatible", "example.com/m", "\"a\\\n", "`b\nc`", "*/", "x(", ")y", "a,b", "[v1.0.0,v1.1.0]",
}

// ModTokenSoup returns a random concatenation of lexer-level atoms: identifiers, all
// seven punctuation tokens, interpreted and raw strings (with escapes, `//` and `/*`
// inside, unterminated), comments, `/*`, blank lines, tabs, CR, CRLF, NUL, invalid
// UTF-8, Unicode spaces. Occasionally one atom is a very long identifier or comment.
func ModTokenSoup(r *rand.Rand) []byte {
	var b []byte
	n := r.IntN(25)
	if r.IntN(40) == 0 {
		n = r.IntN(200)
	}
	// Hostile atoms (NUL, /*, unterminated strings ...) make the whole input a syntax
	// error; keep roughly half of the soups free of them so that both outcomes are common.
	clean := r.IntN(2) == 0
	for i := 0; i < n; i++ {
		a := modSoupAtoms[r.IntN(len(modSoupAtoms))]
		if clean && modSoupHostile(a) {
			a = Pick(r, []string{"x", "\n", "// k", "(", ")", "\"s\""})
		}
		if r.IntN(400) == 0 {
			a = strings.Repeat(Pick(r, []string{"z", "é", "//", "\"", " ", "("}), 1+r.IntN(3000))
			if a[0] == '"' {
				a = "\"" + strings.Repeat("s", 1+r.IntN(3000)) + "\""
			}
		}
		b = append(b, a...)
		if r.IntN(3) > 0 {
			b = append(b, ' ')
		}
	}
	return b
}

func modSoupHostile(a string) bool {
	switch a {
	case "/*", "\x00", "\v", "\"unterminated", "\u00a0", "\u2028", "\ufeff", "\"a\\\n", "`b\nc`":
		return true
	}
	return false
}

// ---------------------------------------------------------------------------------------------
// (b) structure generator

// ModSite names one of the textual places a comment can be put in a go.mod-syntax file.
type ModSite int

const (
	ModSiteFileBefore   ModSite = iota // whole-line comment(s) before the first statement of the file
	ModSiteFileAfter                   // whole-line comment(s) after the last statement, at end of file
	ModSiteStmtBefore                  // whole-line comment(s) directly above a top-level statement
	ModSiteStmtSuffix                  // end-of-line comment on a top-level line or on a one-line empty block `x ( ) // c`
	ModSiteStmtAfter                   // whole-line comment(s) directly below a top-level statement (followed by a blank line)
	ModSiteLParenSuffix                // end-of-line comment after the `(` that opens a block
	ModSiteLineBefore                  // whole-line comment(s) directly above a line inside a block
	ModSiteLineSuffix                  // end-of-line comment on a line inside a block
	ModSiteRParenBefore                // whole-line comment(s) directly above the `)` that closes a block
	ModSiteRParenSuffix                // end-of-line comment after the closing `)`
	ModNumSites
)

// ModSiteNames are the names of the sites, indexable by ModSite.
var ModSiteNames = [ModNumSites]string{"file-before", "file-after", "stmt-before", "stmt-suffix", "stmt-after",
	"lparen-suffix", "line-before", "line-suffix", "rparen-before", "rparen-suffix"}

// ModStructured is the result of ModStructure.
type ModStructured struct {
	Text   []byte
	Placed [ModNumSites]int // number of comments put at each site
	Blocks int              // number of blocks (multi-line or empty)
	Valid  bool             // false when a syntax-breaking atom was injected on purpose
}

var modCommentTexts = []string{"c", " c", " comment text", "", " indirect", " indirect; why", " Deprecated: use x instead.", "x//y",
	" \"quoted\" (paren) [br] {cu} ,", " /* not a block comment */", " module example.com/fake", "\ttabbed\t", " trailing space   ",
	" é 世界", " a\rb", "  two  spaces  ", "/", "//", " `raw`", " \\", " \u00a0nbsp\u00a0", " retract [v1.0.0, v1.1.0]", "\xff", " \x00nul"}

// ModComment returns a `//` comment (no newline). About half of the comments carry a
// serial number so that lost, duplicated or reordered comments are distinguishable.
func ModComment(r *rand.Rand) string {
	t := Pick(r, modCommentTexts)
	if r.IntN(2) == 0 {
		t = fmt.Sprintf("%s#%d", t, r.IntN(100000))
	}
	if r.IntN(8) == 0 {
		t += Pick(r, []string{" ", "\t", "  \t", "\r", " \u00a0"})
	}
	return "//" + t
}

var modStructWords = []string{"x", "y", "zz", "require", "module2", "go", "1.21", "v1.2.3", "a/b", "\"s\"", "\"s t\"", "`raw`", "`r w`", "=>", "`C:\\src\\dep\\`", "`\\`", "`a\\\"b`",
	"\"//\"", "\"/*\"", "é", "世", "[", "]", "{", "}", ",", "k=v", "./dir", "\"\\\"\"", "\"(\"", "x\\y", "a'b", "\"\\x00\"", "\xff"}

type modLayout struct {
	r    *rand.Rand
	crlf int // 0 = LF, 1 = CRLF, 2 = mixed
}

func (l *modLayout) nl() string {
	switch l.crlf {
	case 1:
		return "\r\n"
	case 2:
		if l.r.IntN(2) == 0 {
			return "\r\n"
		}
	}
	return "\n"
}

func (l *modLayout) ws() string {
	switch l.r.IntN(12) {
	case 0:
		return "\t"
	case 1:
		return "  "
	case 2:
		return " \t "
	case 3:
		return "\r "
	}
	return " "
}

func (l *modLayout) indent(in bool) string {
	switch l.r.IntN(8) {
	case 0:
		return ""
	case 1:
		return "    "
	case 2:
		return " \t"
	}
	if in {
		return "\t"
	}
	return ""
}

func (l *modLayout) trail() string {
	switch l.r.IntN(10) {
	case 0:
		return " "
	case 1:
		return "\t"
	case 2:
		return " \t "
	}
	return ""
}

// csep separates a token or parenthesis from the end-of-line comment behind it: usually a
// space, now and then nothing at all (`)// c`, `v1.2.3// indirect`).
func (l *modLayout) csep(o ModOpts) string {
	if !o.Plain && l.r.IntN(6) == 0 {
		return ""
	}
	return " "
}

func newModLayout(r *rand.Rand) *modLayout {
	l := &modLayout{r: r}
	switch r.IntN(8) {
	case 0:
		l.crlf = 1
	case 1:
		l.crlf = 2
	}
	return l
}

// structLine returns the tokens of one line. A line never ends with a `(` and never
// consists of `… ( )` at its end, because those forms open a block.
func (l *modLayout) structLine(inBlock bool) string {
	r := l.r
	n := 1 + r.IntN(4)
	var sb strings.Builder
	first := Pick(r, modStructWords[:12])
	if inBlock && r.IntN(3) == 0 {
		// inside a block any token may start a line, including punctuation
		first = Pick(r, modStructWords)
	}
	sb.WriteString(first)
	for i := 1; i < n; i++ {
		sb.WriteString(l.ws())
		w := Pick(r, modStructWords)
		switch r.IntN(14) {
		case 0:
			w = "( " + Pick(r, modStructWords) // `(` in the middle of a line
		case 1:
			w = "( ) " + Pick(r, modStructWords) // `( )` in the middle of a line
		case 2:
			w = ") " + Pick(r, modStructWords)
		}
		if inBlock && r.IntN(30) == 0 {
			w = "(" // a block line may end with `(`: nested-looking block
		}
		sb.WriteString(w)
	}
	return sb.String()
}

// ModStructure returns a text built from lines, blocks, empty blocks, comment blocks and
// blank lines with comments placed at each of the ten sites with fixed probability
// (DESIGN §5.2 lists the same sites but counts them as nine).
func ModStructure(r *rand.Rand) ModStructured {
	l := newModLayout(r)
	var res ModStructured
	res.Valid = true
	var sb strings.Builder
	comments := func(site ModSite, ind string, max int) {
		k := 1 + r.IntN(max)
		for i := 0; i < k; i++ {
			sb.WriteString(ind + ModComment(r) + l.nl())
			res.Placed[site]++
		}
	}
	suffix := func(site ModSite) {
		sb.WriteString(Pick(r, []string{" ", "", "\t", "  "}) + ModComment(r))
		res.Placed[site]++
	}
	nstmt := r.IntN(5)
	if r.IntN(3) == 0 {
		comments(ModSiteFileBefore, l.indent(false), 3)
		if r.IntN(2) == 0 {
			sb.WriteString(l.nl())
		}
	}
	for s := 0; s < nstmt; s++ {
		if s > 0 || r.IntN(3) == 0 {
			for k := r.IntN(3); k > 0; k-- {
				sb.WriteString(l.trail() + l.nl())
			}
		}
		if r.IntN(3) == 0 {
			comments(ModSiteStmtBefore, l.indent(false), 3)
		}
		switch r.IntN(10) {
		case 0, 1, 2, 3: // plain line
			sb.WriteString(l.indent(false) + l.structLine(false) + l.trail())
			if r.IntN(2) == 0 {
				suffix(ModSiteStmtSuffix)
			}
			sb.WriteString(l.nl())
		case 4: // empty block on one line
			res.Blocks++
			sb.WriteString(l.indent(false) + Pick(r, modStructWords[:12]) + Pick(r, []string{" ( )", "()", " (\t)", " x ( )", "( )"}) + l.trail())
			if r.IntN(2) == 0 {
				suffix(ModSiteStmtSuffix)
			}
			sb.WriteString(l.nl())
		default: // block
			res.Blocks++
			hdr := Pick(r, modStructWords[:12])
			if r.IntN(6) == 0 {
				hdr += " " + Pick(r, modStructWords)
			}
			sb.WriteString(l.indent(false) + hdr + Pick(r, []string{" (", "(", "\t(", "  ("}) + l.trail())
			if r.IntN(3) == 0 {
				suffix(ModSiteLParenSuffix)
			}
			sb.WriteString(l.nl())
			nl := r.IntN(5)
			for i := 0; i < nl; i++ {
				for k := r.IntN(4) / 2; k > 0; k-- {
					sb.WriteString(l.trail() + l.nl()) // blank line(s)
				}
				if r.IntN(3) == 0 {
					comments(ModSiteLineBefore, l.indent(true), 3)
					if r.IntN(4) == 0 {
						sb.WriteString(l.nl())
						if r.IntN(2) == 0 {
							comments(ModSiteLineBefore, l.indent(true), 2)
						}
					}
				}
				sb.WriteString(l.indent(true) + l.structLine(true) + l.trail())
				if r.IntN(3) == 0 {
					suffix(ModSiteLineSuffix)
				}
				sb.WriteString(l.nl())
			}
			for k := r.IntN(4) / 2; k > 0; k-- {
				sb.WriteString(l.nl())
			}
			if r.IntN(3) == 0 {
				comments(ModSiteRParenBefore, l.indent(true), 3)
				if r.IntN(3) == 0 {
					sb.WriteString(l.nl())
					if r.IntN(2) == 0 {
						comments(ModSiteRParenBefore, l.indent(true), 2)
					}
				}
			}
			sb.WriteString(l.indent(false) + ")" + l.trail())
			if r.IntN(3) == 0 {
				suffix(ModSiteRParenSuffix)
			}
			sb.WriteString(l.nl())
		}
		if r.IntN(5) == 0 {
			comments(ModSiteStmtAfter, l.indent(false), 2)
			sb.WriteString(l.nl())
		}
	}
	if nstmt > 0 && r.IntN(3) == 0 {
		if r.IntN(2) == 0 {
			sb.WriteString(l.nl())
		}
		comments(ModSiteFileAfter, l.indent(false), 3)
	}
	out := sb.String()
	if r.IntN(6) == 0 { // no newline at end of file
		out = strings.TrimRight(out, "\r\n")
	}
	if r.IntN(40) == 0 {
		// one deliberate syntax breaker, so that the rejecting side is seen from this generator too
		res.Valid = false
		i := r.IntN(len(out) + 1)
		out = out[:i] + Pick(r, []string{"/*", "\"", "`", "\x00", "\v", ")\n)", "(\n", "\u00a0"}) + out[i:]
	}
	res.Text = []byte(out)
	return res
}

// ---------------------------------------------------------------------------------------------
// (c) well-formed go.mod / go.work

// ModOpts selects what GoMod / GoWork may emit. The zero value gives canonical versions,
// a valid module path, comments, mixed forms and no unknown statements.
type ModOpts struct {
	NonCanonical bool // versions may be short (v1, v1.2) or carry +build metadata: needs a canonicalising VersionFixer
	ExoticModule bool // the module path may be one that needs quoting (not a valid import path)
	NoComments   bool // no comments at all
	NoExotic     bool // only plain paths (nothing that needs quoting)
	Unknown      int  // number of unknown directives / blocks to insert (strict parsers then reject the file)
	MaxStmts     int  // upper bound on generated directives per verb family (default 4)
	Plain        bool // canonical `go mod` style layout: single spaces, tabs in blocks, LF, no redundant quotes
	GoVersions   []string // when set, the go directive's argument is drawn from this list
}

// ModReq etc. are the directive values a ModDoc was rendered from. Version fields hold the
// text as written (unquoted); Canon fields the canonical version.
type ModReq struct {
	Path, Version, Canon string
	Indirect             bool
}
type ModRep struct{ OldPath, OldVersion, OldCanon, NewPath, NewVersion, NewCanon string }
type ModInterval struct{ Low, High, LowCanon, HighCanon string }

// ModChunk is one top-level piece of a ModDoc: a statement with the comments that belong
// to it, or a free comment block (which then ends with a blank line). Text consists of
// complete lines (the last chunk of a document may lack the final newline).
type ModChunk struct {
	Text    string
	Verb    string // "module", "go", …, "comment" for a free comment block, "unknown" for an unknown statement
	Block   bool   // rendered as a block
	Unknown bool
}

// ModDoc is a generated well-formed file.
type ModDoc struct {
	Work   bool
	Chunks []ModChunk

	Module           string // "" when the file has no module directive (always for go.work)
	ModuleSingleLine bool   // module directive is a top-level line (not the block form)
	ModuleValid      bool   // module path is a plain valid import path
	Go, Toolchain    string
	Godebug          [][2]string
	Require          []ModReq
	Exclude          []ModReq
	Replace          []ModRep
	Retract          []ModInterval
	Tool             []string
	Use              []string
	NonCanonical     bool // at least one version is written in non-canonical form
	CRLF             int  // 0 LF, 1 CRLF, 2 mixed
	NUnknown         int
}

// Bytes returns the text of the document.
func (d *ModDoc) Bytes() []byte {
	var b []byte
	for _, c := range d.Chunks {
		b = append(b, c.Text...)
	}
	return b
}

// WithUnknown returns a copy of d with n unknown directives or blocks inserted between
// top-level chunks. Each inserted chunk is surrounded by blank lines, so no comment of d
// changes the statement it is attached to. The values of d are unchanged; strict parsers
// must reject the result, ParseLax must accept it (go.mod only).
func (d *ModDoc) WithUnknown(r *rand.Rand, n int) *ModDoc {
	e := *d
	e.Chunks = append([]ModChunk(nil), d.Chunks...)
	l := &modLayout{r: r, crlf: d.CRLF}
	for i := 0; i < n; i++ {
		max := len(e.Chunks)
		if max > 0 && !strings.HasSuffix(e.Chunks[max-1].Text, "\n") {
			max-- // cannot append after a last line without newline
		}
		at := r.IntN(max + 1)
		ch := ModChunk{Text: l.nl() + l.unknownStmt(d.Work) + l.nl(), Verb: "unknown", Unknown: true}
		e.Chunks = append(e.Chunks[:at:at], append([]ModChunk{ch}, e.Chunks[at:]...)...)
		e.NUnknown++
	}
	return &e
}

var modUnknownVerbs = []string{"foo", "unknown", "requires", "Require", "GO", "Module", "toolchains", "ignore", "vendor", "x.y/z", "=>",
	"\"go\"", "\"require\"", "\"module\"", "modules", "retracts", "é", "v1.2.3", "[", "]", ",", "{", "}", "go2", "_"}
var modUnknownArgs = []string{"x", "y/z", "v1.0.0", "\"q s\"", "=>", "[", "]", ",", "{", "}", "1.21", "`raw`", "a=b", "./d", "module", "require", "go",
	"\"//\"", "( x", "( ) y", ") z", "é", "'", "`C:\\src\\dep\\`", "`\\`", "`a\\\"b`"}

// unknownStmt returns one complete unknown statement (line or block) ending in a newline.
func (l *modLayout) unknownStmt(work bool) string {
	r := l.r
	args := func(k int) string {
		var sb strings.Builder
		for i := 0; i < k; i++ {
			sb.WriteString(l.ws() + Pick(r, modUnknownArgs))
		}
		return sb.String()
	}
	known := []string{"go", "toolchain", "use", "require x", "exclude y z", "retract [", "replace a =>", "godebug k=v", "tool t", "go 1.21", "toolchain default"}
	if work {
		known = []string{"go", "toolchain", "module", "require", "exclude", "retract", "tool", "use x", "replace a =>", "godebug k=v", "go 1.21"}
	}
	var sb strings.Builder
	switch r.IntN(10) {
	case 0, 1, 2, 3, 4: // unknown directive line
		v := Pick(r, modUnknownVerbs)
		if work && r.IntN(3) == 0 {
			v = Pick(r, []string{"module", "require", "exclude", "retract", "tool"})
		}
		sb.WriteString(v + args(r.IntN(4)))
		if r.IntN(4) == 0 {
			sb.WriteString(" " + ModComment(r))
		}
		sb.WriteString(l.nl())
	case 5: // empty unknown block on one line
		sb.WriteString(Pick(r, modUnknownVerbs) + Pick(r, []string{" ( )", "()", " x ( )"}) + l.nl())
	case 6, 7: // unknown block
		sb.WriteString(Pick(r, modUnknownVerbs) + " (" + l.nl())
		for k := r.IntN(4); k > 0; k-- {
			first := Pick(r, modUnknownArgs[:16])
			if first == "module" {
				first = "modul"
			}
			sb.WriteString("\t" + first + args(r.IntN(3)) + l.nl())
		}
		sb.WriteString(")" + l.nl())
	default: // block whose header is a known verb used in a way that makes the block type unknown
		h := Pick(r, known)
		if !work && strings.HasPrefix(h, "module") {
			h = "go"
		}
		sb.WriteString(h + " (" + l.nl())
		for k := r.IntN(3); k > 0; k-- {
			first := Pick(r, modUnknownArgs[:16])
			if first == "module" {
				first = "modul"
			}
			sb.WriteString("\t" + first + args(r.IntN(3)) + l.nl())
		}
		sb.WriteString(")" + l.nl())
	}
	return sb.String()
}

// ModNeedsQuote reports whether s cannot be written as a bare token (own transcription of
// the lexer rules: space, quote characters, non-printable runes, brackets or commas inside a
// longer token, `//` and `/*`, the empty string).
func ModNeedsQuote(s string) bool {
	if s == "" || strings.Contains(s, "//") || strings.Contains(s, "/*") {
		return true
	}
	for _, c := range s {
		switch c {
		case ' ', '"', '\'', '`':
			return true
		case '(', ')', '[', ']', '{', '}', ',':
			if len(s) > 1 {
				return true
			}
		default:
			if !unicode.IsPrint(c) {
				return true
			}
		}
	}
	return false
}

// ModQuote returns an interpreted string literal for s; with fancy, some characters are
// written as \x, \u or octal escapes although they would not need it.
func ModQuote(r *rand.Rand, s string, fancy bool) string {
	if !fancy || !utf8.ValidString(s) {
		return strconv.Quote(s)
	}
	var sb strings.Builder
	sb.WriteByte('"')
	for i, c := range s {
		switch {
		// a backslash, above all a trailing one, is often spelled with a numeric escape: the parser then
		// re-quotes the value as \\ and the lexer has to cope with an escaped backslash before the quote
		case c < 0x80 && (r.IntN(6) == 0 || c == '\\' && (i == len(s)-1 || r.IntN(2) == 0)):
			switch r.IntN(3) {
			case 0:
				fmt.Fprintf(&sb, `\x%02x`, c)
			case 1:
				fmt.Fprintf(&sb, `\u%04x`, c)
			default:
				fmt.Fprintf(&sb, `\%03o`, c)
			}
		case c == '"' || c == '\\':
			sb.WriteByte('\\')
			sb.WriteRune(c)
		case c == '\n':
			sb.WriteString(`\n`)
		case !strconv.IsPrint(c):
			if c < 0x10000 {
				fmt.Fprintf(&sb, `\u%04x`, c)
			} else {
				fmt.Fprintf(&sb, `\U%08x`, c)
			}
		default:
			sb.WriteRune(c)
		}
	}
	sb.WriteByte('"')
	return sb.String()
}

// tok renders a string-valued argument: quoted when necessary, sometimes redundantly.
func (l *modLayout) tok(s string, plain bool) string {
	if ModNeedsQuote(s) {
		return ModQuote(l.r, s, !plain && l.r.IntN(3) == 0)
	}
	if !plain && l.r.IntN(5) == 0 {
		return ModQuote(l.r, s, l.r.IntN(2) == 0)
	}
	return s
}

// Hosts and keys that merely START with a directive keyword ("modules.example.com", "modulecache=1") are
// ordinary tokens; a line scanner that matches keywords as prefixes goes wrong on them.
var modHosts = []string{"example.com", "github.com/user", "golang.org/x", "rsc.io", "k8s.io", "go.uber.org", "example.org/a/b", "h.example",
	"modules.example.com", "modulegen.example.org", "module.example", "requires.example.com", "goproxy.example", "retracted.example"}
var modNames = []string{"m", "tools", "quote", "repo", "pkg-x", "a_b", "z9", "Mixed", "x.y", "mod", "v", "vv2", "cmd"}
var modExoticPaths = []string{"example.com/a b", "example.com/a\"q", "example.com/(paren)", "ex.com/a//b", "ex.com/a/*b", "世界.com/m", "ex.com/a,b",
	"ex.com/[x]", "ex.com/a\tb", "ex.com/\x00z", "ex.com/it's", "ex.com/`bq`", "ex.com/\xffbad", "ex.com/{c}", "ex.com/nb\u00a0sp", "ex.com/e\u0301",
	"ex.com/new\nline", "(x", "a)", "module x", "ex.com/back\\slash", "ex.com/🙂", "ex.com/trailing\\", "ex.com/sp ace\\", "\\",
	// values that begin and end with a quote character of their own
	"\"my dir\"", "\"\"", "\"x", "'single'",
	// values spelled like tokens of the grammar itself
	"=>", "=>x", "require", "replace", "go", "v1.0.0", "module"}

// ModPathVersion returns a module path and a canonical version that satisfies the
// path's major-version suffix. exotic allows paths that need quoting.
func ModPathVersion(r *rand.Rand, exotic bool) (path, version string) {
	pre := ""
	switch r.IntN(8) {
	case 0:
		pre = "-" + Pick(r, []string{"rc1", "alpha.1", "0", "beta", "pre.2.x"})
	case 1:
		pre = "-" + Pick(r, []string{"0.20200101000000-abcdef123456", "20191109021931-daa7c04131f5"})
	}
	mmp := func(major int) string {
		if strings.HasPrefix(pre, "-2019") {
			return fmt.Sprintf("v%d.0.0%s", major, pre)
		}
		return fmt.Sprintf("v%d.%d.%d%s", major, r.IntN(12), r.IntN(30), pre)
	}
	if exotic && r.IntN(5) == 0 {
		return Pick(r, modExoticPaths), mmp(r.IntN(2))
	}
	base := Pick(r, modHosts) + "/" + Pick(r, modNames)
	if r.IntN(4) == 0 {
		base += "/" + Pick(r, modNames)
	}
	switch r.IntN(10) {
	case 0, 1: // /vN
		n := 2 + r.IntN(3)
		if r.IntN(4) == 0 {
			n = 10 + r.IntN(90)
		}
		return fmt.Sprintf("%s/v%d", base, n), mmp(n)
	case 2: // gopkg.in
		n := r.IntN(4)
		p := fmt.Sprintf("gopkg.in/%s.v%d", Pick(r, []string{"yaml", "check", "user/pkg"}), n)
		if n > 0 && r.IntN(6) == 0 {
			p += "-unstable" // gopkg.in/x.v0-unstable is not a module path
		}
		return p, mmp(n)
	case 3: // +incompatible
		return base, mmp(2+r.IntN(5)) + "+incompatible"
	}
	return base, mmp(r.IntN(2))
}

// modDecorate writes a canonical version in a non-canonical but valid way.
func modDecorate(r *rand.Rand, v string) string {
	core := v
	inc := strings.HasSuffix(v, "+incompatible")
	if inc {
		return v // build metadata other than +incompatible would be dropped; keep as is
	}
	switch r.IntN(4) {
	case 0:
		if !strings.Contains(core, "-") {
			if strings.HasSuffix(core, ".0") {
				core = strings.TrimSuffix(core, ".0") // v1.2.0 -> v1.2
				if strings.HasSuffix(core, ".0") && r.IntN(2) == 0 {
					core = strings.TrimSuffix(core, ".0") // v1.0.0 -> v1
				}
			}
		}
		return core
	case 1:
		return v + "+" + Pick(r, []string{"meta", "build.7", "dirty"})
	}
	return v
}

func (d *ModDoc) version(r *rand.Rand, o ModOpts, canon string) string {
	if o.NonCanonical && r.IntN(2) == 0 {
		w := modDecorate(r, canon)
		if w != canon {
			d.NonCanonical = true
		}
		return w
	}
	return canon
}

// commentsBefore renders k whole-line comments at indentation ind.
func (l *modLayout) commentsBefore(ind string, texts ...string) string {
	var sb strings.Builder
	for _, t := range texts {
		sb.WriteString(ind + t + l.nl())
	}
	return sb.String()
}

type modItem struct {
	toks   []string // rendered argument tokens (without the verb)
	suffix string   // forced suffix comment ("" = none / random)
	before []string // forced before comments
}

// renderStmts renders items of one verb as a mix of single lines and blocks and appends
// the chunks to d.
func (d *ModDoc) renderStmts(l *modLayout, o ModOpts, verb string, items []modItem, canBlock bool) []ModChunk {
	r := l.r
	var chunks []ModChunk
	cm := func() bool { return !o.NoComments && !o.Plain && r.IntN(4) == 0 }
	join := func(toks []string) string {
		var sb strings.Builder
		for i, t := range toks {
			if i > 0 {
				if o.Plain {
					sb.WriteString(" ")
				} else if (t == "," || t == "]" || toks[i-1] == "[" || toks[i-1] == ",") && r.IntN(2) == 0 {
					// brackets and commas need no surrounding space
				} else {
					sb.WriteString(l.ws())
				}
			}
			sb.WriteString(t)
		}
		return sb.String()
	}
	for i := 0; i < len(items); {
		block := canBlock && r.IntN(2) == 0
		if !block {
			it := items[i]
			i++
			var sb strings.Builder
			sb.WriteString(l.commentsBefore("", it.before...))
			if len(it.before) == 0 && cm() {
				for k := 1 + r.IntN(2); k > 0; k-- {
					sb.WriteString(l.commentsBefore(l.indentP(o, false), ModComment(r)))
				}
			}
			sb.WriteString(l.indentP(o, false) + verb)
			if len(it.toks) > 0 {
				sb.WriteString(l.wsP(o) + join(it.toks))
			}
			sb.WriteString(l.trailP(o))
			if it.suffix != "" {
				sb.WriteString(l.csep(o) + it.suffix)
			} else if cm() {
				sb.WriteString(l.csep(o) + ModComment(r))
			}
			sb.WriteString(l.nl())
			chunks = append(chunks, ModChunk{Text: sb.String(), Verb: verb})
			continue
		}
		n := r.IntN(len(items) - i + 1)
		if r.IntN(3) > 0 && n == 0 {
			n = 1
		}
		var sb strings.Builder
		if cm() {
			sb.WriteString(l.commentsBefore(l.indentP(o, false), ModComment(r)))
		}
		if n == 0 && r.IntN(2) == 0 && verb != "module" {
			// empty block on one line
			sb.WriteString(verb + Pick(r, []string{" ( )", " ()", "()"}))
			if cm() {
				sb.WriteString(l.csep(o) + ModComment(r))
			}
			sb.WriteString(l.nl())
			chunks = append(chunks, ModChunk{Text: sb.String(), Verb: verb, Block: true})
			continue
		}
		if n == 0 && verb == "module" {
			n = 1
		}
		sb.WriteString(l.indentP(o, false) + verb + l.wsP(o) + "(" + l.trailP(o))
		if cm() {
			sb.WriteString(l.csep(o) + ModComment(r))
		}
		sb.WriteString(l.nl())
		for k := 0; k < n; k++ {
			it := items[i]
			i++
			if !o.Plain && r.IntN(5) == 0 && k > 0 {
				sb.WriteString(l.nl())
			}
			sb.WriteString(l.commentsBefore("\t", it.before...))
			if len(it.before) == 0 && cm() {
				sb.WriteString(l.commentsBefore(l.indentP(o, true), ModComment(r)))
				if r.IntN(5) == 0 {
					sb.WriteString(l.nl() + l.commentsBefore(l.indentP(o, true), ModComment(r)))
				}
			}
			sb.WriteString(l.indentP(o, true) + join(it.toks) + l.trailP(o))
			if it.suffix != "" {
				sb.WriteString(l.csep(o) + it.suffix)
			} else if cm() {
				sb.WriteString(l.csep(o) + ModComment(r))
			}
			sb.WriteString(l.nl())
		}
		if !o.Plain && r.IntN(6) == 0 {
			sb.WriteString(l.nl())
		}
		if cm() {
			sb.WriteString(l.commentsBefore(l.indentP(o, true), ModComment(r)))
		}
		sb.WriteString(l.indentP(o, false) + ")" + l.trailP(o))
		if cm() {
			sb.WriteString(l.csep(o) + ModComment(r))
		}
		sb.WriteString(l.nl())
		chunks = append(chunks, ModChunk{Text: sb.String(), Verb: verb, Block: true})
	}
	return chunks
}

func (l *modLayout) indentP(o ModOpts, in bool) string {
	if o.Plain {
		if in {
			return "\t"
		}
		return ""
	}
	return l.indent(in)
}
func (l *modLayout) wsP(o ModOpts) string {
	if o.Plain {
		return " "
	}
	return l.ws()
}
func (l *modLayout) trailP(o ModOpts) string {
	if o.Plain {
		return ""
	}
	return l.trail()
}

func (d *ModDoc) replaceItems(l *modLayout, o ModOpts, n int) []modItem {
	r := l.r
	var items []modItem
	for i := 0; i < n; i++ {
		op, ov := ModPathVersion(r, !o.NoExotic)
		rep := ModRep{OldPath: op}
		toks := []string{l.tok(op, o.Plain)}
		if r.IntN(2) == 0 {
			rep.OldCanon = ov
			rep.OldVersion = d.version(r, o, ov)
			toks = append(toks, l.tok(rep.OldVersion, o.Plain))
		}
		toks = append(toks, "=>")
		if r.IntN(2) == 0 {
			dir := Pick(r, []string{"./local", "../up/dir", "/abs/path", ".", "..", "./with space", "C:/win/dir", "./a//b", "./(p)"})
			if o.NoExotic {
				dir = Pick(r, []string{"./local", "../up/dir", "/abs/path"})
			}
			rep.NewPath = dir
			toks = append(toks, l.tok(dir, o.Plain))
		} else {
			np, nv := ModPathVersion(r, false)
			rep.NewPath, rep.NewCanon = np, nv
			rep.NewVersion = d.version(r, o, nv)
			toks = append(toks, l.tok(np, o.Plain), l.tok(rep.NewVersion, o.Plain))
		}
		d.Replace = append(d.Replace, rep)
		items = append(items, modItem{toks: toks})
	}
	return items
}

func (d *ModDoc) godebugItems(l *modLayout, n int) []modItem {
	var items []modItem
	for i := 0; i < n; i++ {
		kv := Pick(l.r, [][2]string{{"panicnil", "1"}, {"default", "go1.21"}, {"a", "b=c"}, {"x", ""}, {"httplaxcontentlength", "0"}, {"k.é", "v"}, {"modulecache", "1"}, {"moduleproxy", "off"}, {"gone", "1"}})
		d.Godebug = append(d.Godebug, kv)
		items = append(items, modItem{toks: []string{kv[0] + "=" + kv[1]}})
	}
	return items
}

func (d *ModDoc) goToolchain(l *modLayout, o ModOpts) []ModChunk {
	r := l.r
	var chunks []ModChunk
	if r.IntN(5) > 0 {
		d.Go = Pick(r, []string{"1.21", "1.21.0", "1.9", "1.22rc1", "1.21.13", "2.0", "1.23.0", "1.100"})
		if len(o.GoVersions) > 0 {
			d.Go = Pick(r, o.GoVersions)
		}
		chunks = append(chunks, d.renderStmts(l, o, "go", []modItem{{toks: []string{d.Go}}}, false)...)
	}
	if r.IntN(3) == 0 {
		d.Toolchain = Pick(r, []string{"go1.21.0", "go1.22rc1", "default", "go1.21.0-gccgo", "go1", "go1.23.4"})
		chunks = append(chunks, d.renderStmts(l, o, "toolchain", []modItem{{toks: []string{d.Toolchain}}}, false)...)
	}
	return chunks
}

func (d *ModDoc) finish(l *modLayout, o ModOpts, groups [][]ModChunk) {
	r := l.r
	// Statement groups in random order; chunks of a group stay in order (directive order
	// within a verb is part of the values).
	r.Shuffle(len(groups), func(i, j int) { groups[i], groups[j] = groups[j], groups[i] })
	// Interleave: repeatedly take the next chunk of a random non-empty group.
	var chunks []ModChunk
	for {
		var live []int
		for i, g := range groups {
			if len(g) > 0 {
				live = append(live, i)
			}
		}
		if len(live) == 0 {
			break
		}
		i := live[0]
		if r.IntN(3) == 0 {
			i = Pick(r, live)
		}
		chunks = append(chunks, groups[i][0])
		groups[i] = groups[i][1:]
	}
	// Blank lines and free comment blocks between chunks.
	var out []ModChunk
	for i, c := range chunks {
		if !o.Plain {
			if !o.NoComments && r.IntN(8) == 0 {
				var sb strings.Builder
				for k := 1 + r.IntN(2); k > 0; k-- {
					sb.WriteString(l.commentsBefore(l.indent(false), ModComment(r)))
				}
				sb.WriteString(l.nl()) // a free comment block always ends with a blank line
				out = append(out, ModChunk{Text: sb.String(), Verb: "comment"})
			}
			if i > 0 && r.IntN(2) == 0 {
				out = append(out, ModChunk{Text: strings.Repeat(l.trail()+l.nl(), 1+r.IntN(2)), Verb: "blank"})
			}
		} else if i > 0 {
			out = append(out, ModChunk{Text: "\n", Verb: "blank"})
		}
		out = append(out, c)
	}
	if !o.Plain && !o.NoComments && r.IntN(6) == 0 {
		out = append(out, ModChunk{Text: l.nl() + l.commentsBefore("", ModComment(r)), Verb: "comment"})
	}
	if !o.Plain && len(out) > 0 && r.IntN(8) == 0 {
		last := &out[len(out)-1]
		last.Text = strings.TrimRight(last.Text, "\r\n") // no newline at end of file
		if last.Text == "" {
			out = out[:len(out)-1]
		}
	}
	d.Chunks = out
	d.CRLF = l.crlf
	if o.Unknown > 0 {
		*d = *d.WithUnknown(r, o.Unknown)
	}
}

func modMax(o ModOpts) int {
	if o.MaxStmts > 0 {
		return o.MaxStmts
	}
	return 4
}

// GoMod returns a well-formed go.mod file.
func GoMod(r *rand.Rand, o ModOpts) *ModDoc {
	d := &ModDoc{}
	l := newModLayout(r)
	if o.Plain {
		l.crlf = 0
	}
	max := modMax(o)
	var groups [][]ModChunk

	// module
	if r.IntN(12) > 0 {
		d.Module, _ = ModPathVersion(r, false)
		d.ModuleValid = true
		if o.ExoticModule && r.IntN(2) == 0 {
			d.Module = Pick(r, modExoticPaths)
			d.ModuleValid = false
		}
		it := modItem{toks: []string{l.tok(d.Module, o.Plain)}}
		if !o.NoComments && r.IntN(4) == 0 {
			dep := "// Deprecated: " + Pick(r, []string{"use example.com/new instead.", "no longer maintained", "x  y", "module gone // really"})
			switch r.IntN(3) {
			case 0:
				it.suffix = dep
			case 1:
				it.before = []string{dep}
			default:
				it.before = []string{"// Some module.", "//", dep, "// second line", "//", "// another paragraph"}
			}
		}
		ch := d.renderStmts(l, o, "module", []modItem{it}, r.IntN(6) == 0)
		d.ModuleSingleLine = !ch[0].Block
		groups = append(groups, ch)
	}
	groups = append(groups, d.goToolchain(l, o))
	groups = append(groups, d.renderStmts(l, o, "godebug", d.godebugItems(l, r.IntN(max)/2), true))

	// require
	var items []modItem
	for i, n := 0, r.IntN(max+1); i < n; i++ {
		p, v := ModPathVersion(r, !o.NoExotic)
		q := ModReq{Path: p, Canon: v, Version: d.version(r, o, v)}
		it := modItem{toks: []string{l.tok(p, o.Plain), l.tok(q.Version, o.Plain)}}
		if r.IntN(3) == 0 {
			q.Indirect = true
			it.suffix = Pick(r, []string{"// indirect", "//indirect", "// indirect; because", "//\tindirect  ", "// indirect;x y",
				"//\u00a0indirect", "// indirect;\u3000why", "//\vindirect", "// indirect\u2003", "// indirect;\u00a0note"})
		} else if !o.NoComments && r.IntN(8) == 0 {
			it.suffix = Pick(r, []string{"// indirectly", "// not indirect", "// indirect;", "//", "// Indirect"})
		}
		d.Require = append(d.Require, q)
		items = append(items, it)
	}
	groups = append(groups, d.renderStmts(l, o, "require", items, true))

	// exclude
	items = nil
	for i, n := 0, r.IntN(max)/2; i < n; i++ {
		p, v := ModPathVersion(r, !o.NoExotic)
		q := ModReq{Path: p, Canon: v, Version: d.version(r, o, v)}
		d.Exclude = append(d.Exclude, q)
		items = append(items, modItem{toks: []string{l.tok(p, o.Plain), l.tok(q.Version, o.Plain)}})
	}
	groups = append(groups, d.renderStmts(l, o, "exclude", items, true))

	groups = append(groups, d.renderStmts(l, o, "replace", d.replaceItems(l, o, r.IntN(max)), true))

	// retract (needs a module directive when a fixer is used)
	items = nil
	if d.Module != "" {
		for i, n := 0, r.IntN(max); i < n; i++ {
			_, lo := ModPathVersion(r, false)
			lo = strings.TrimSuffix(lo, "+incompatible")
			iv := ModInterval{LowCanon: lo, HighCanon: lo}
			iv.Low = d.version(r, o, lo)
			iv.High = iv.Low
			toks := []string{l.tok(iv.Low, o.Plain)}
			if r.IntN(2) == 0 {
				_, hi := ModPathVersion(r, false)
				hi = strings.TrimSuffix(hi, "+incompatible")
				iv.HighCanon, iv.High = hi, d.version(r, o, hi)
				toks = []string{"[", l.tok(iv.Low, o.Plain), ",", l.tok(iv.High, o.Plain), "]"}
			} else if r.IntN(3) == 0 {
				// a one-version interval written out, both bounds with the very same (possibly short) text
				toks = []string{"[", l.tok(iv.Low, o.Plain), ",", l.tok(iv.High, o.Plain), "]"}
			}
			it := modItem{toks: toks}
			if !o.NoComments {
				switch r.IntN(4) {
				case 0:
					it.suffix = "// " + Pick(r, []string{"bad release", "security: CVE-1", "module broken (see #1)"})
				case 1:
					it.before = []string{"// published by accident", "//  second line "}
				}
			}
			d.Retract = append(d.Retract, iv)
			items = append(items, it)
		}
	}
	groups = append(groups, d.renderStmts(l, o, "retract", items, true))

	// tool
	items = nil
	for i, n := 0, r.IntN(max)/2; i < n; i++ {
		p, _ := ModPathVersion(r, !o.NoExotic)
		p += "/cmd/" + Pick(r, modNames)
		d.Tool = append(d.Tool, p)
		items = append(items, modItem{toks: []string{l.tok(p, o.Plain)}})
	}
	groups = append(groups, d.renderStmts(l, o, "tool", items, true))

	d.finish(l, o, groups)
	return d
}

// GoWork returns a well-formed go.work file.
func GoWork(r *rand.Rand, o ModOpts) *ModDoc {
	d := &ModDoc{Work: true}
	l := newModLayout(r)
	if o.Plain {
		l.crlf = 0
	}
	max := modMax(o)
	var groups [][]ModChunk
	groups = append(groups, d.goToolchain(l, o))
	groups = append(groups, d.renderStmts(l, o, "godebug", d.godebugItems(l, r.IntN(max)/2), true))
	var items []modItem
	for i, n := 0, r.IntN(max+1); i < n; i++ {
		p := Pick(r, []string{"./a", "../b", "/abs/dir", "./with space", "C:\\win\\dir", ".", "./x/y/z", "sub", "./q\"uote", "./(p)", "./é", "./a//b", "./my dir\\", "C:\\win\\", "./tr\\"})
		if o.NoExotic {
			p = Pick(r, []string{"./a", "../b", "/abs/dir", ".", "./x/y/z", "sub"})
		}
		d.Use = append(d.Use, p)
		items = append(items, modItem{toks: []string{l.tok(p, o.Plain)}})
	}
	groups = append(groups, d.renderStmts(l, o, "use", items, true))
	groups = append(groups, d.renderStmts(l, o, "replace", d.replaceItems(l, o, r.IntN(max)), true))
	d.finish(l, o, groups)
	return d
}

// ---------------------------------------------------------------------------------------------
// (d) mutators

var modMutAtoms = []string{"\"", "`", "(", ")", "\n", "\r", "\r\n", "/", "//", "/*", "*/", "\\", "\x00", "\xff", "\xef\xbb\xbf", "[", "]", ",", "{", "}",
	" ", "\t", "\v", "\f", "'", "=>", "module", "require", "go", "retract", "use", "v1.0.0", "é", "\u00a0", "\u2028", "\xc3", "(\n", "\n)", "( )", "x"}

// ModMutateBytes applies one byte-level edit: insert / replace / delete with a hostile
// alphabet, delete or duplicate a span, truncate (unterminated strings and blocks), BOM,
// LF→CRLF, LF→CR.
func ModMutateBytes(r *rand.Rand, in []byte) []byte {
	b := append([]byte(nil), in...)
	switch r.IntN(12) {
	case 0, 1, 2: // insert atom
		i := r.IntN(len(b) + 1)
		a := Pick(r, modMutAtoms)
		b = append(b[:i:i], append([]byte(a), b[i:]...)...)
	case 3, 4: // replace a byte
		if len(b) > 0 {
			i := r.IntN(len(b))
			a := Pick(r, modMutAtoms)
			b = append(b[:i:i], append([]byte(a), b[i+1:]...)...)
		}
	case 5: // delete a byte
		if len(b) > 0 {
			i := r.IntN(len(b))
			b = append(b[:i:i], b[i+1:]...)
		}
	case 6: // delete a span
		if len(b) > 1 {
			i := r.IntN(len(b))
			j := i + 1 + r.IntN(min(len(b)-i, 20))
			b = append(b[:i:i], b[j:]...)
		}
	case 7: // duplicate a span
		if len(b) > 1 {
			i := r.IntN(len(b))
			j := i + 1 + r.IntN(min(len(b)-i, 30))
			b = append(b[:j:j], append(append([]byte(nil), b[i:j]...), b[j:]...)...)
		}
	case 8: // truncate
		if len(b) > 0 {
			b = b[:r.IntN(len(b))]
		}
	case 9: // BOM / leading junk
		b = append([]byte(Pick(r, []string{"\xef\xbb\xbf", "\xff\xfe", "\x00", "\n\n", "\r"})), b...)
	case 10:
		b = []byte(strings.ReplaceAll(string(b), "\n", "\r\n"))
	default:
		if r.IntN(2) == 0 {
			b = []byte(strings.ReplaceAll(string(b), "\n", "\r"))
		} else if len(b) > 0 { // flip one bit
			i := r.IntN(len(b))
			b[i] ^= 1 << r.IntN(8)
		}
	}
	return b
}

// modFields splits text into alternating separators and fields (fields are maximal runs
// of non-space bytes; newlines are their own fields), so that joining gives the text back.
func modFields(in []byte) []string {
	var out []string
	i := 0
	for i < len(in) {
		j := i
		switch {
		case in[i] == '\n':
			j = i + 1
		case in[i] == ' ' || in[i] == '\t' || in[i] == '\r':
			for j < len(in) && (in[j] == ' ' || in[j] == '\t' || in[j] == '\r') {
				j++
			}
		default:
			for j < len(in) && in[j] != ' ' && in[j] != '\t' && in[j] != '\r' && in[j] != '\n' {
				j++
			}
		}
		out = append(out, string(in[i:j]))
		i = j
	}
	return out
}

// ModMutateTokens applies one token-level edit: swap, delete, duplicate or replace a
// whitespace-separated field, join two lines, break a line.
func ModMutateTokens(r *rand.Rand, in []byte) []byte {
	f := modFields(in)
	if len(f) == 0 {
		return []byte(Pick(r, modMutAtoms))
	}
	i := r.IntN(len(f))
	switch r.IntN(7) {
	case 0:
		j := r.IntN(len(f))
		f[i], f[j] = f[j], f[i]
	case 1:
		f[i] = ""
	case 2:
		f[i] = f[i] + " " + f[i]
	case 3:
		f[i] = Pick(r, modMutAtoms)
	case 4: // join lines: drop some newline
		for k := 0; k < len(f); k++ {
			if f[(i+k)%len(f)] == "\n" {
				f[(i+k)%len(f)] = " "
				break
			}
		}
	case 5: // break a line
		f[i] = f[i] + "\n"
	default: // wrap in quotes of either kind, or unbalance them
		f[i] = Pick(r, []string{"\"", "`", "'"}) + f[i] + Pick(r, []string{"\"", "`", "", "'"})
	}
	return []byte(strings.Join(f, ""))
}

// ModSplice returns a prefix of a followed by a suffix of b, cut at line boundaries when
// possible (blocks opened in a and closed in b, or never closed).
func ModSplice(r *rand.Rand, a, b []byte) []byte {
	cut := func(x []byte) int {
		if len(x) == 0 {
			return 0
		}
		i := r.IntN(len(x))
		if r.IntN(3) > 0 {
			for i < len(x) && x[i] != '\n' {
				i++
			}
			if i < len(x) {
				i++
			}
		}
		return i
	}
	out := append([]byte(nil), a[:cut(a)]...)
	return append(out, b[cut(b):]...)
}

// ModHugeKinds lists the kinds ModHuge understands.
var ModHugeKinds = []string{"long-ident", "long-comment", "long-string", "long-raw-string", "many-tokens", "nested-parens", "nested-parens-closed",
	"many-lines", "big-block", "long-unterminated-string", "many-comments", "long-spaces", "many-brackets", "long-module-line"}

// ModHuge returns a very large input of the named kind: lines of about `line` bytes,
// `tokens` tokens on a line, `parens` nested-looking parentheses.
func ModHuge(r *rand.Rand, kind string, line, tokens, parens int) []byte {
	var sb strings.Builder
	switch kind {
	case "long-ident":
		sb.WriteString("require " + strings.Repeat(Pick(r, []string{"a", "é", "x/"}), line) + " v1.0.0\n")
	case "long-comment":
		sb.WriteString("module example.com/m //" + strings.Repeat(Pick(r, []string{"c", " ", "世", "/"}), line) + "\ngo 1.21\n")
	case "long-string":
		sb.WriteString("module \"example.com/" + strings.Repeat("s", line) + "\"\n")
	case "long-raw-string":
		sb.WriteString("x `" + strings.Repeat("\\", line) + "` y\n")
	case "long-unterminated-string":
		sb.WriteString("module example.com/m\nrequire \"" + strings.Repeat("\\\"", line/2))
	case "many-tokens":
		sb.WriteString("x")
		for i := 0; i < tokens; i++ {
			sb.WriteString(Pick(r, []string{" a", " [", " ,", " \"s\"", " ( y", " é", "\t]"}))
		}
		sb.WriteString(" // end\n")
	case "many-brackets":
		sb.WriteString("retract ")
		for i := 0; i < tokens; i++ {
			sb.WriteString(Pick(r, []string{"[", "]", ",", "{", "}", ")", "( "}))
		}
		sb.WriteString("x\n")
	case "nested-parens":
		for i := 0; i < parens; i++ {
			sb.WriteString("x (\n")
		}
	case "nested-parens-closed":
		for i := 0; i < parens; i++ {
			sb.WriteString(strings.Repeat("\t", i%7) + "x (\n")
		}
		for i := 0; i < parens; i++ {
			sb.WriteString(")\n")
		}
	case "many-lines":
		sb.WriteString("module example.com/m\n")
		for i := 0; i < tokens; i++ {
			fmt.Fprintf(&sb, "require example.com/d%d v1.0.%d // indirect\n", i, i)
		}
	case "big-block":
		sb.WriteString("module example.com/m\nrequire (\n")
		for i := 0; i < tokens; i++ {
			fmt.Fprintf(&sb, "\t// c%d\n\texample.com/d%d v1.0.%d // indirect\n\n", i, i, i)
		}
		sb.WriteString(")\n")
	case "many-comments":
		for i := 0; i < tokens; i++ {
			fmt.Fprintf(&sb, "// c%d\n", i)
			if i%3 == 0 {
				sb.WriteString("\n")
			}
		}
		sb.WriteString("go 1.21\n")
	case "long-spaces":
		sb.WriteString("go" + strings.Repeat(Pick(r, []string{" ", "\t", "\r"}), line) + "1.21" + strings.Repeat(" ", line/4) + "// c\n")
	case "long-module-line":
		sb.WriteString("module" + strings.Repeat(" ", line/2) + "example.com/" + strings.Repeat("m", line/2) + "\n")
	default:
		panic("ModHuge: unknown kind " + kind)
	}
	return []byte(sb.String())
}

// ---------------------------------------------------------------------------------------------
// corpus

var modTestdataOnce sync.Once
var modTestdata [][]byte
var modTestdataNames []string

// ModTestdata returns the contents of /repo/modfile/testdata/*.in, testdata/work/*.in and
// the matching *.golden files, sorted by name. It returns nil when the directory is absent.
func ModTestdata() (names []string, files [][]byte) {
	modTestdataOnce.Do(func() {
		var paths []string
		for _, pat := range []string{"/repo/modfile/testdata/*.in", "/repo/modfile/testdata/*.golden", "/repo/modfile/testdata/work/*.in", "/repo/modfile/testdata/work/*.golden"} {
			m, _ := filepath.Glob(pat)
			paths = append(paths, m...)
		}
		sort.Strings(paths)
		for _, p := range paths {
			b, err := os.ReadFile(p)
			if err != nil {
				continue
			}
			modTestdata = append(modTestdata, b)
			modTestdataNames = append(modTestdataNames, strings.TrimPrefix(p, "/repo/modfile/testdata/"))
		}
	})
	return modTestdataNames, modTestdata
}
