// Package gen holds the seeded generators and mutators shared by the engines.
package gen

import (
	"math/rand/v2"
	"strings"
)

var nums = []string{"0", "1", "2", "9", "10", "11", "01", "00", "123456789012345678901234567890", "99999999999999999999",
	"100000000000000000000", "18446744073709551615", "18446744073709551616", "9223372036854775807", "9223372036854775808", "",
	// decimal digits outside ASCII (Arabic-Indic, fullwidth, Devanagari), alone, behind ASCII digits and hiding a leading zero
	"\u0662", "\uff13", "2\u0663", "3\u0969", "\u06600"}
var ids = []string{"0", "1", "10", "2", "01", "a", "A", "-", "--", "a1", "1a", "alpha", "beta", "rc1", "0a", "00", "", "x-y", "é", "_",
	"pre", "0.20200101000000-abcdef123456", "99999999999999999999", "100000000000000000000",
	// letters whose UTF-8 bytes are all Latin-1 letters when read one byte at a time, and a lone Latin-1 byte
	"b\u00eata", "\u00b5s", "\xe9", "\u043a\u0435"}
var builds = []string{"incompatible", "meta", "a.b", "", "01", "x..y", "incompatible.1", "Incompatible", "dirty", "meta-pre", "linux-amd64", "-", "a-.-b", "0-0"}

// BuildMeta returns valid build metadata (without the '+'): one to three dot-separated
// identifiers over [0-9A-Za-z-]; half are drawn from a list of usual ones.
func BuildMeta(r *rand.Rand) string {
	if r.IntN(2) == 0 {
		return Pick(r, []string{"incompatible", "meta", "a.b", "01", "incompatible.1", "dirty", "meta-pre", "linux-amd64", "-", "a-.-b", "0-0", "Z", "exp.sha.5114f85"})
	}
	const alpha = "0123456789abyzABYZ-"
	var sb strings.Builder
	for i, k := 0, 1+r.IntN(3); i < k; i++ {
		if i > 0 {
			sb.WriteString(".")
		}
		for j, n := 0, 1+r.IntN(6); j < n; j++ {
			sb.WriteByte(alpha[r.IntN(len(alpha))])
		}
	}
	return sb.String()
}

// Pick returns a uniformly chosen element.
func Pick[T any](r *rand.Rand, s []T) T { return s[r.IntN(len(s))] }

// Digits returns a decimal string of n digits without a leading zero.
func Digits(r *rand.Rand, n int) string {
	b := make([]byte, n)
	for i := range b {
		b[i] = byte('0' + r.IntN(10))
	}
	if n > 1 && b[0] == '0' {
		b[0] = byte('1' + r.IntN(9))
	}
	if r.IntN(6) == 0 {
		for i := range b {
			b[i] = '9'
		}
	}
	return string(b)
}

func numField(r *rand.Rand) string {
	if r.IntN(3) == 0 {
		return Digits(r, 1+r.IntN(40))
	}
	return Pick(r, nums)
}

// Version returns a version-looking string; most are valid, a good share break one rule.
func Version(r *rand.Rand) string {
	var sb strings.Builder
	if r.IntN(20) > 0 {
		sb.WriteString("v")
	}
	n := 1 + r.IntN(3)
	if r.IntN(4) > 0 {
		n = 3
	}
	for i := 0; i < n; i++ {
		if i > 0 {
			sb.WriteString(".")
		}
		sb.WriteString(numField(r))
	}
	if r.IntN(2) == 0 {
		sb.WriteString("-")
		k := 1 + r.IntN(3)
		for i := 0; i < k; i++ {
			if i > 0 {
				sb.WriteString(".")
			}
			sb.WriteString(Pick(r, ids))
		}
	}
	if r.IntN(3) == 0 {
		sb.WriteString("+")
		sb.WriteString(Pick(r, builds))
	}
	if r.IntN(30) == 0 {
		sb.WriteString(Pick(r, []string{" ", "\n", "+", "-", ".", "\x00", "v"}))
	}
	return sb.String()
}

// ValidVersion returns a version that is valid by construction (full three-part
// form unless short is allowed).
func ValidVersion(r *rand.Rand, allowShort bool) string {
	clean := func(s string) string {
		if s == "" || (len(s) > 1 && s[0] == '0') {
			return "0"
		}
		for i := 0; i < len(s); i++ {
			if s[i] < '0' || s[i] > '9' {
				return "7" // the pool also holds digits outside ASCII
			}
		}
		return s
	}
	var sb strings.Builder
	sb.WriteString("v")
	n := 3
	if allowShort && r.IntN(5) == 0 {
		n = 1 + r.IntN(2)
	}
	for i := 0; i < n; i++ {
		if i > 0 {
			sb.WriteString(".")
		}
		sb.WriteString(clean(numField(r)))
	}
	if n == 3 {
		if r.IntN(2) == 0 {
			sb.WriteString("-")
			k := 1 + r.IntN(3)
			for i := 0; i < k; i++ {
				if i > 0 {
					sb.WriteString(".")
				}
				id := Pick(r, []string{"0", "1", "10", "2", "a", "A", "-", "--", "a1", "1a", "alpha", "beta", "rc1", "0a", "x-y", "pre", "99999999999999999999", "100000000000000000000", "0.20200101000000-abcdef123456"})
				sb.WriteString(id)
			}
		}
		if r.IntN(3) == 0 {
			sb.WriteString("+")
			sb.WriteString(BuildMeta(r))
		}
	}
	return sb.String()
}

// RandString returns a random string over a hostile alphabet.
func RandString(r *rand.Rand, maxLen int) string {
	alpha := []string{"v", "0", "1", "9", ".", "-", "+", "a", "Z", " ", "\n", "\x00", "é", "\xff", "/", "!", "_", "~"}
	n := r.IntN(maxLen + 1)
	var sb strings.Builder
	for i := 0; i < n; i++ {
		sb.WriteString(Pick(r, alpha))
	}
	return sb.String()
}

// MutateString applies one small byte-level edit.
func MutateString(r *rand.Rand, s string) string {
	b := []byte(s)
	switch r.IntN(5) {
	case 0: // delete
		if len(b) > 0 {
			i := r.IntN(len(b))
			b = append(b[:i:i], b[i+1:]...)
		}
	case 1: // insert
		i := r.IntN(len(b) + 1)
		c := Pick(r, []byte("v0019.-+aZ \n/!~_"))
		b = append(b[:i:i], append([]byte{c}, b[i:]...)...)
	case 2: // replace
		if len(b) > 0 {
			b[r.IntN(len(b))] = Pick(r, []byte("v0019.-+aZ \n/!~_\xff"))
		}
	case 3: // duplicate a char
		if len(b) > 0 {
			i := r.IntN(len(b))
			b = append(b[:i:i], append([]byte{b[i]}, b[i:]...)...)
		}
	case 4: // swap adjacent
		if len(b) > 1 {
			i := r.IntN(len(b) - 1)
			b[i], b[i+1] = b[i+1], b[i]
		}
	}
	return string(b)
}
