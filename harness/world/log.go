package world

import (
	"crypto/sha256"
	"encoding/base64"
	"fmt"
	"strings"
	"sync"

	"verif/harness/ref/refmerkle"
)

// Mod is one record of the log: the go.sum lines of a module version.
type Mod struct {
	Path, Vers string
	Text       []byte // record text (go.sum lines, each ending in \n)
}

// Lines returns the record's lines that start with prefix.
func (m Mod) Lines(prefix string) []string {
	var out []string
	for _, l := range strings.Split(strings.TrimSuffix(string(m.Text), "\n"), "\n") {
		if strings.HasPrefix(l, prefix) {
			out = append(out, l)
		}
	}
	return out
}

// Log is an independent transparency log of module records.
type Log struct {
	Tag  string
	Mods []Mod
	M    *refmerkle.Log
	Key  *Key

	mu    sync.Mutex
	heads map[string][]byte
}

func h1(s string) string {
	h := sha256.Sum256([]byte(s))
	return "h1:" + base64.StdEncoding.EncodeToString(h[:])
}

// RecordText builds the two go.sum lines of a module version.
func RecordText(path, vers, tag string) []byte {
	return []byte(fmt.Sprintf("%s %s %s\n%s %s/go.mod %s\n", path, vers, h1(tag+path+vers), path, vers, h1(tag+path+vers+"/go.mod")))
}

// logVersions: plain releases, and versions whose last characters are letters of "/go.mod".
var logVersions = []string{"v1.0.0", "v1.1.0", "v1.2.0", "v0.0.0-20200214102310-6d5b0d4f3e5d", "v1.0.0-prod", "v1.2.0-rc.g", "v2.0.0+incompatible", "v1.0.0-mod", "v1.0.1-go.mod"}

// NewLog builds a log of n records; records from index `forkAt` on carry the tag
// (so two logs with different tags share exactly the prefix [0, forkAt)).
func NewLog(tag string, n, forkAt int, key *Key) *Log {
	l := &Log{Tag: tag, Key: key, heads: map[string][]byte{}}
	var recs [][]byte
	for i := 0; i < n; i++ {
		t := "common"
		if i >= forkAt {
			t = tag
		}
		m := Mod{Path: fmt.Sprintf("example.com/m%d", i), Vers: logVersions[i%len(logVersions)]}
		m.Text = RecordText(m.Path, m.Vers, t)
		l.Mods = append(l.Mods, m)
		recs = append(recs, m.Text)
	}
	l.M = refmerkle.New(recs)
	return l
}

// Find returns the record id of a module version (vers without /go.mod), or -1.
func (l *Log) Find(path, vers string, size int) int {
	for i := 0; i < size && i < len(l.Mods); i++ {
		if l.Mods[i].Path == path && l.Mods[i].Vers == vers {
			return i
		}
	}
	return -1
}

// Head is the signed tree head of size n (cached; signing is deterministic).
func (l *Log) Head(n int) []byte { return l.HeadExtra(n, "") }

// HeadExtra is a signed head whose text carries extra trailing lines.
func (l *Log) HeadExtra(n int, extra string) []byte {
	key := fmt.Sprintf("%d|%s", n, extra)
	l.mu.Lock()
	defer l.mu.Unlock()
	if b, ok := l.heads[key]; ok {
		return b
	}
	b := Sign(FormatTreeText(int64(n), l.M.Root(n))+extra, l.Key)
	l.heads[key] = b
	return b
}

// LookupResponse is the honest response for record id under the head of size n.
func (l *Log) LookupResponse(id, n int) []byte {
	return append([]byte(fmt.Sprintf("%d\n%s\n", id, l.Mods[id].Text)), l.Head(n)...)
}

// Tile returns the true bytes of a hash tile in the tree of size n.
func (l *Log) Tile(t refmerkle.Tile, n int) ([]byte, bool) {
	if t.L < 0 || !refmerkle.TileExists(t, int64(n)) {
		return nil, false
	}
	return l.M.TileBytes(t), true
}

// AuthenticHead reports whether msg is a head signed by the log's key whose
// (N, hash) is a prefix of this log; extra signature lines and extra text
// lines are tolerated (the formats allow them).
func (l *Log) AuthenticHead(msg []byte) (n int64, ok bool) {
	text, ok := OpenText(msg, l.Key)
	if !ok {
		return 0, false
	}
	n, hash, _, ok := ParseTreeText(text)
	if !ok || n > int64(len(l.Mods)) {
		return 0, false
	}
	if hash != l.M.Root(int(n)) {
		return 0, false
	}
	return n, true
}
