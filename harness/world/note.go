// Package world is the simulated checksum-database world around a real
// sumdb.Client: an independent log (ref/refmerkle) signed with its own
// Ed25519 note code, an in-memory ClientOps (remote, cache, config with
// compare-and-swap) with per-response fault plans, a totally ordered event
// trace, schedule gates, and the online monitors for C01/C13/C14.
// Nothing here uses golang.org/x/mod to decide what is authentic.
package world

import (
	"bytes"
	"crypto/ed25519"
	"crypto/sha256"
	"encoding/base64"
	"encoding/binary"
	"fmt"
	"strconv"
	"strings"
)

// Key is an Ed25519 note key (own implementation of the documented format).
type Key struct {
	Name string
	Hash uint32
	pub  ed25519.PublicKey
	priv ed25519.PrivateKey
	seed [32]byte
}

// NewKey derives a key deterministically.
func NewKey(name string, seed byte) *Key {
	var s [32]byte
	for i := range s {
		s[i] = seed ^ byte(i*7)
	}
	priv := ed25519.NewKeyFromSeed(s[:])
	pub := priv.Public().(ed25519.PublicKey)
	h := sha256.New()
	h.Write([]byte(name))
	h.Write([]byte("\n"))
	h.Write([]byte{1})
	h.Write(pub)
	return &Key{Name: name, Hash: binary.BigEndian.Uint32(h.Sum(nil)), pub: pub, priv: priv, seed: s}
}

// SignerKey is the encoded signer key "PRIVATE+KEY+name+hash+base64(alg‖seed)".
func (k *Key) SignerKey() string {
	return fmt.Sprintf("PRIVATE+KEY+%s+%08x+%s", k.Name, k.Hash, base64.StdEncoding.EncodeToString(append([]byte{1}, k.seed[:]...)))
}

// VerifierKey is the encoded verifier key "name+hash+base64(alg‖pub)".
func (k *Key) VerifierKey() string {
	return fmt.Sprintf("%s+%08x+%s", k.Name, k.Hash, base64.StdEncoding.EncodeToString(append([]byte{1}, k.pub...)))
}

// SigLine is the signature line for text (which must end in a newline).
func (k *Key) SigLine(text string) string {
	sig := ed25519.Sign(k.priv, []byte(text))
	var hb [4]byte
	binary.BigEndian.PutUint32(hb[:], k.Hash)
	return "— " + k.Name + " " + base64.StdEncoding.EncodeToString(append(hb[:], sig...)) + "\n"
}

// Sign returns the signed note: text, blank line, signature lines.
func Sign(text string, keys ...*Key) []byte {
	var b bytes.Buffer
	b.WriteString(text)
	b.WriteString("\n")
	for _, k := range keys {
		b.WriteString(k.SigLine(text))
	}
	return b.Bytes()
}

// OpenText returns the note text if msg carries at least one signature by k
// that verifies over exactly that text (own tolerant reader of the format).
func OpenText(msg []byte, k *Key) (string, bool) {
	i := bytes.LastIndex(msg, []byte("\n\n"))
	if i < 0 {
		return "", false
	}
	text, sigs := string(msg[:i+1]), string(msg[i+2:])
	if sigs == "" || !strings.HasSuffix(sigs, "\n") {
		return "", false
	}
	for _, line := range strings.Split(strings.TrimSuffix(sigs, "\n"), "\n") {
		if !strings.HasPrefix(line, "— ") {
			return "", false
		}
		f := strings.SplitN(strings.TrimPrefix(line, "— "), " ", 2)
		if len(f) != 2 || f[0] != k.Name {
			continue
		}
		raw, err := base64.StdEncoding.DecodeString(f[1])
		if err != nil || len(raw) < 5 || binary.BigEndian.Uint32(raw) != k.Hash {
			continue
		}
		if ed25519.Verify(k.pub, []byte(text), raw[4:]) {
			return text, true
		}
	}
	return "", false
}

// ParseTreeText reads "go.sum database tree\nN\nbase64\n[extra lines]".
func ParseTreeText(text string) (n int64, hash [32]byte, extra string, ok bool) {
	lines := strings.SplitN(text, "\n", 4)
	if len(lines) < 4 || lines[0] != "go.sum database tree" {
		return
	}
	v, err := strconv.ParseInt(lines[1], 10, 64)
	if err != nil || v < 0 || strconv.FormatInt(v, 10) != lines[1] {
		return
	}
	raw, err := base64.StdEncoding.DecodeString(lines[2])
	if err != nil || len(raw) != 32 {
		return
	}
	copy(hash[:], raw)
	return v, hash, lines[3], true
}

// FormatTreeText writes a tree head text.
func FormatTreeText(n int64, hash [32]byte) string {
	return fmt.Sprintf("go.sum database tree\n%d\n%s\n", n, base64.StdEncoding.EncodeToString(hash[:]))
}

// ParseLookup splits a lookup response "id\ntext\n\nrest" (tolerant in the ways the
// format tolerates: the id is any strconv-parsable integer).
func ParseLookup(data []byte) (id int64, text, rest []byte, ok bool) {
	i := bytes.IndexByte(data, '\n')
	if i < 0 {
		return
	}
	id, err := strconv.ParseInt(string(data[:i]), 10, 64)
	if err != nil {
		return
	}
	body := data[i+1:]
	j := bytes.Index(body, []byte("\n\n"))
	if j < 0 {
		return
	}
	return id, body[:j+1], body[j+2:], true
}
