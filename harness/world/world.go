package world

import (
	"bytes"
	"fmt"
	"runtime"
	"strconv"
	"strings"
	"sync"
	"sync/atomic"

	"golang.org/x/mod/sumdb"
	"golang.org/x/mod/sumdb/tlog"

	"verif/harness/ref/refmerkle"
)

// Event is one entry of the totally ordered trace.
type Event struct {
	Seq    int    `json:"seq"`
	Client int    `json:"client"`
	Gid    int64  `json:"gid"`
	Op     string `json:"op"`  // ReadRemote ReadCache WriteCache ReadConfig WriteConfig Security Yield Install Lookup Return
	Arg    string `json:"arg"` // path / file / yield point
	Res    string `json:"res"` // ok, err, conflict, hit, miss, sizes …
}

func (e Event) String() string {
	return fmt.Sprintf("#%d c%d g%d %s %s %s", e.Seq, e.Client, e.Gid, e.Op, e.Arg, e.Res)
}

// Viol is a monitor complaint raised inside the world.
type Viol struct {
	Class  string
	Detail map[string]any
}

// Fault rewrites one remote response.
type Fault func(honest []byte, err error) ([]byte, error)

// World is the shared environment of one or more clients.
type World struct {
	Name string
	Key  *Key
	Logs []*Log // authentic branches; Logs[0] is the one an honest server serves

	// Remote is the server behaviour; it is called without the world lock held.
	Remote func(client int, path string) ([]byte, error)
	// Gate, if set, is called (without the lock) after every logged event.
	Gate func(ev Event)

	mu        sync.Mutex
	Faults    map[string]Fault
	Cache     map[string][]byte
	Config    map[string][]byte
	Trace     []Event
	Viols     []Viol
	Security  []string
	delivered map[int]map[string][]byte
	clients   map[*sumdb.Client]int
	installs  map[int][]int64
	gidClient map[int64]int
	// ConfigHistory is every successfully installed config value, in store order.
	ConfigHistory [][]byte
	// SkipAuth disables the authenticity monitors (worlds whose server is not one of Logs); the
	// config writes are then only checked for a valid signature and a non-decreasing size.
	SkipAuth bool
	// ShareBytes makes ReadCache and ReadRemote hand out the stored bytes themselves instead of private
	// copies, and the same bytes to every caller asking for the same thing (an mmap'ed cache, a memoising
	// transport): what the client is handed is not the client's to write to. HandedOutIntact tells whether
	// every such buffer still holds what it held; under the race detector a write is a report in any case.
	ShareBytes bool
	shared     map[string][]byte
	handed     []handedOut
	// FailConfigRead injects an I/O error into the n-th ReadConfig of a file other than "key" (1-based), 0 = never.
	FailConfigRead int
	nConfigRead    int
	// FailConfigWrite injects a non-conflict error into the n-th WriteConfig (1-based), 0 = never.
	FailConfigWrite int
	nConfigWrite    int
}

type handedOut struct {
	what        string
	buf, shadow []byte
}

// share returns the one buffer handed out for (what, data) in a ShareBytes world.
func (w *World) share(what string, data []byte) []byte {
	w.mu.Lock()
	defer w.mu.Unlock()
	if w.shared == nil {
		w.shared = map[string][]byte{}
	}
	if b, ok := w.shared[what]; ok && bytes.Equal(b, data) {
		return b
	}
	b := append(make([]byte, 0, len(data)+16), data...) // spare capacity: an append would not reallocate
	w.shared[what] = b
	w.handed = append(w.handed, handedOut{what, b[:len(b):cap(b)], append([]byte(nil), b[:cap(b)]...)})
	return b
}

// HandedOutIntact reports the buffers of a ShareBytes world that no longer hold what they were handed out with.
func (w *World) HandedOutIntact() (changed []string) {
	w.mu.Lock()
	defer w.mu.Unlock()
	for _, h := range w.handed {
		if !bytes.Equal(h.buf[:cap(h.buf)], h.shadow) {
			changed = append(changed, h.what)
		}
	}
	return changed
}

// New makes a world around the given branches.
func New(name string, key *Key, logs ...*Log) *World {
	return &World{Name: name, Key: key, Logs: logs, Faults: map[string]Fault{}, Cache: map[string][]byte{}, Config: map[string][]byte{},
		delivered: map[int]map[string][]byte{}, clients: map[*sumdb.Client]int{}, installs: map[int][]int64{}}
}

// Gid returns the current goroutine id.
func Gid() int64 {
	var buf [64]byte
	n := runtime.Stack(buf[:], false)
	f := strings.Fields(string(buf[:n]))
	if len(f) < 2 {
		return -1
	}
	id, _ := strconv.ParseInt(f[1], 10, 64)
	return id
}

// Bind attributes the calling goroutine to a client, so that hook events raised on it
// (which carry no client) can be attributed in the trace.
func (w *World) Bind(client int) {
	g := Gid()
	w.mu.Lock()
	if w.gidClient == nil {
		w.gidClient = map[int64]int{}
	}
	w.gidClient[g] = client
	w.mu.Unlock()
}

func (w *World) log(client int, op, arg, res string) Event {
	g := Gid()
	w.mu.Lock()
	if client < 0 {
		if c, ok := w.gidClient[g]; ok {
			client = c
		}
	}
	ev := Event{Seq: len(w.Trace), Client: client, Gid: g, Op: op, Arg: arg, Res: res}
	w.Trace = append(w.Trace, ev)
	w.mu.Unlock()
	if w.Gate != nil {
		w.Gate(ev)
	}
	return ev
}

func (w *World) viol(class string, detail map[string]any) {
	w.mu.Lock()
	if len(w.Viols) < 50 {
		w.Viols = append(w.Viols, Viol{class, detail})
	}
	w.mu.Unlock()
}

// Snapshot returns copies of trace and violations.
func (w *World) Snapshot() ([]Event, []Viol) {
	w.mu.Lock()
	defer w.mu.Unlock()
	return append([]Event(nil), w.Trace...), append([]Viol(nil), w.Viols...)
}

// TraceTail renders the last k events.
func (w *World) TraceTail(k int) []string {
	w.mu.Lock()
	defer w.mu.Unlock()
	t := w.Trace
	if len(t) > k {
		t = t[len(t)-k:]
	}
	out := make([]string, len(t))
	for i, e := range t {
		out[i] = e.String()
	}
	return out
}

// CloneStore copies cache and config (for branching a scenario).
func (w *World) CloneStore() (cache, config map[string][]byte) {
	w.mu.Lock()
	defer w.mu.Unlock()
	cache, config = map[string][]byte{}, map[string][]byte{}
	for k, v := range w.Cache {
		cache[k] = v
	}
	for k, v := range w.Config {
		config[k] = v
	}
	return
}

// ---- authenticity (decided with own code only) -------------------------------------------

// HeadOn returns, for each branch, whether msg is an authentic head on it.
func (w *World) HeadOn(msg []byte) (n int64, on []bool, any bool) {
	on = make([]bool, len(w.Logs))
	for i, l := range w.Logs {
		if k, ok := l.AuthenticHead(msg); ok {
			on[i], any, n = true, true, k
		}
	}
	return
}

// AuthenticTileFile decides a cache file "<name>/tile/…".
func (w *World) AuthenticTileFile(file string, data []byte) bool {
	rel := strings.TrimPrefix(file, w.Name+"/")
	t, ok := refmerkle.ParseTilePath(rel)
	if !ok {
		return false
	}
	for _, l := range w.Logs {
		if want, ok := l.Tile(t, len(l.Mods)); ok && bytes.Equal(want, data) {
			return true
		}
	}
	return false
}

// AuthenticLookup decides lookup bytes: an authentic record followed by an authentic head
// of the same branch. It returns the branch and record id.
func (w *World) AuthenticLookup(data []byte) (branch, id int, ok bool) {
	// The id line only tells the client which leaf to verify; what makes the bytes authentic is
	// that the record text is a record of the log and the head is an authentic head of that log
	// (a negative id denotes leaf 0 to the client, observed on the unchanged tree with "-1").
	_, text, rest, ok := ParseLookup(data)
	if !ok {
		return 0, 0, false
	}
	for bi, l := range w.Logs {
		if _, ok := l.AuthenticHead(rest); !ok {
			continue
		}
		for j := range l.Mods {
			if bytes.Equal(text, l.Mods[j].Text) {
				return bi, j, true
			}
		}
	}
	return 0, 0, false
}

// ---- ClientOps -------------------------------------------------------------------------------

// Ops is the ClientOps of one client.
type Ops struct {
	W  *World
	ID int
}

// Client makes the ClientOps for client id.
func (w *World) Client(id int) *Ops { return &Ops{W: w, ID: id} }

// Register associates a sumdb.Client with its id (for the install hook).
func (w *World) Register(c *sumdb.Client, id int) {
	w.mu.Lock()
	w.clients[c] = id
	w.mu.Unlock()
}

var errNotFound = fmt.Errorf("not found")

// ReadRemote implements ClientOps.
func (o *Ops) ReadRemote(path string) ([]byte, error) {
	w := o.W
	o.W.log(o.ID, "ReadRemote", path, "call")
	data, err := w.Remote(o.ID, path)
	w.mu.Lock()
	f := w.Faults[path]
	w.mu.Unlock()
	if f != nil {
		data, err = f(data, err)
	}
	res := "ok"
	if err != nil {
		res = "err"
	}
	if err == nil && strings.HasPrefix(path, "/lookup/") {
		w.mu.Lock()
		if w.delivered[o.ID] == nil {
			w.delivered[o.ID] = map[string][]byte{}
		}
		w.delivered[o.ID][w.Name+path] = append([]byte(nil), data...)
		w.mu.Unlock()
	}
	o.W.log(o.ID, "ReadRemoteDone", path, res)
	if err != nil {
		return nil, err
	}
	if w.ShareBytes {
		return w.share("remote:"+path, data), nil
	}
	return append([]byte(nil), data...), nil
}

// ReadConfig implements ClientOps.
func (o *Ops) ReadConfig(file string) ([]byte, error) {
	w := o.W
	if file == "key" {
		o.W.log(o.ID, "ReadConfig", file, "ok")
		return []byte(w.Key.VerifierKey()), nil
	}
	w.mu.Lock()
	w.nConfigRead++
	if w.FailConfigRead != 0 && w.nConfigRead == w.FailConfigRead {
		w.mu.Unlock()
		o.W.log(o.ID, "ReadConfig", file, "injected-error")
		return nil, fmt.Errorf("injected config read error")
	}
	v := append([]byte(nil), w.Config[file]...)
	w.mu.Unlock()
	o.W.log(o.ID, "ReadConfig", file, fmt.Sprintf("len=%d", len(v)))
	return v, nil
}

// WriteConfig implements ClientOps (compare-and-swap) and carries the C01/C13 config monitors.
func (o *Ops) WriteConfig(file string, old, new []byte) error {
	w := o.W
	w.mu.Lock()
	cur := w.Config[file]
	if !bytes.Equal(cur, old) {
		w.mu.Unlock()
		o.W.log(o.ID, "WriteConfig", file, "conflict")
		return sumdb.ErrWriteConflict
	}
	w.nConfigWrite++
	if w.FailConfigWrite != 0 && w.nConfigWrite == w.FailConfigWrite {
		w.mu.Unlock()
		o.W.log(o.ID, "WriteConfig", file, "injected-error")
		return fmt.Errorf("injected config write error")
	}
	w.Config[file] = append([]byte(nil), new...)
	w.ConfigHistory = append(w.ConfigHistory, append([]byte(nil), new...))
	w.mu.Unlock()

	// Monitors (outside the lock; the values are private copies).
	if w.SkipAuth {
		nNew, okNew := w.SignedSize(new)
		nOld, okOld := int64(0), true
		if len(old) > 0 {
			nOld, okOld = w.SignedSize(old)
		}
		if !okNew {
			w.viol("writeconfig-head-not-signed-by-key", map[string]any{"client": o.ID, "new": string(new)})
		} else if okOld && nNew < nOld {
			w.viol("writeconfig-size-decreased", map[string]any{"client": o.ID, "old_n": nOld, "new_n": nNew})
		}
		o.W.log(o.ID, "WriteConfig", file, fmt.Sprintf("ok n=%d", nNew))
		return nil
	}
	nNew, onNew, okNew := w.HeadOn(new)
	if file != w.Name+"/latest" {
		w.viol("writeconfig-unknown-file", map[string]any{"file": file})
	}
	if !okNew {
		w.viol("writeconfig-unauthentic-head", map[string]any{"client": o.ID, "new": string(new)})
	} else if len(old) > 0 {
		nOld, onOld, okOld := w.HeadOn(old)
		if okOld {
			share := false
			for i := range onNew {
				if onNew[i] && onOld[i] {
					share = true
				}
			}
			if nNew < nOld {
				w.viol("writeconfig-size-decreased", map[string]any{"client": o.ID, "old_n": nOld, "new_n": nNew})
			} else if !share {
				w.viol("writeconfig-not-an-extension", map[string]any{"client": o.ID, "old_n": nOld, "new_n": nNew, "old": string(old), "new": string(new)})
			}
		}
	}
	o.W.log(o.ID, "WriteConfig", file, fmt.Sprintf("ok n=%d", nNew))
	return nil
}

// ReadCache implements ClientOps.
func (o *Ops) ReadCache(file string) ([]byte, error) {
	w := o.W
	w.mu.Lock()
	v, ok := w.Cache[file]
	if ok && strings.Contains(file, "/lookup/") {
		if w.delivered[o.ID] == nil {
			w.delivered[o.ID] = map[string][]byte{}
		}
		w.delivered[o.ID][file] = append([]byte(nil), v...)
	}
	w.mu.Unlock()
	if !ok {
		o.W.log(o.ID, "ReadCache", file, "miss")
		return nil, errNotFound
	}
	o.W.log(o.ID, "ReadCache", file, "hit")
	if w.ShareBytes {
		return w.share("cache:"+file, v), nil
	}
	return append([]byte(nil), v...), nil
}

// WriteCache implements ClientOps and carries the C01 cache monitor.
func (o *Ops) WriteCache(file string, data []byte) {
	w := o.W
	cp := append([]byte(nil), data...)
	w.mu.Lock()
	w.Cache[file] = cp
	w.mu.Unlock()
	rel := strings.TrimPrefix(file, w.Name)
	switch {
	case w.SkipAuth:
	case !strings.HasPrefix(file, w.Name+"/"):
		w.viol("writecache-unknown-file", map[string]any{"file": file})
	case strings.HasPrefix(rel, "/lookup/"):
		if _, _, ok := w.AuthenticLookup(cp); !ok {
			w.viol("writecache-unauthentic-lookup", map[string]any{"client": o.ID, "file": file, "data": string(cp)})
		}
	case strings.HasPrefix(rel, "/tile/"):
		if !w.AuthenticTileFile(file, cp) {
			w.viol("writecache-unauthentic-tile", map[string]any{"client": o.ID, "file": file, "len": len(cp)})
		}
	default:
		w.viol("writecache-unknown-file", map[string]any{"file": file})
	}
	o.W.log(o.ID, "WriteCache", file, fmt.Sprintf("len=%d", len(cp)))
}

// Log implements ClientOps.
func (o *Ops) Log(msg string) {}

// SecurityError implements ClientOps.
func (o *Ops) SecurityError(msg string) {
	o.W.mu.Lock()
	o.W.Security = append(o.W.Security, msg)
	o.W.mu.Unlock()
	o.W.log(o.ID, "Security", "", "")
}

// SignedSize returns the tree size of a head that carries a valid signature by the world's key.
func (w *World) SignedSize(msg []byte) (int64, bool) {
	text, ok := OpenText(msg, w.Key)
	if !ok {
		return 0, false
	}
	n, _, _, ok := ParseTreeText(text)
	return n, ok
}

// Note adds a harness event (call/return markers) to the trace.
func (w *World) Note(client int, op, arg, res string) Event { return w.log(client, op, arg, res) }

// AllDelivered returns every lookup response handed to any client.
func (w *World) AllDelivered() [][]byte {
	w.mu.Lock()
	defer w.mu.Unlock()
	var out [][]byte
	for _, m := range w.delivered {
		for _, v := range m {
			out = append(out, v)
		}
	}
	return out
}

// Delivered returns the last lookup bytes handed to a client for a cache file name.
func (w *World) Delivered(client int, file string) []byte {
	w.mu.Lock()
	defer w.mu.Unlock()
	return w.delivered[client][file]
}

// ---- hooks ---------------------------------------------------------------------------------

var active atomic.Pointer[World]
var hooksOnce sync.Once

// Activate makes w the receiver of the verif hooks of package sumdb. The hook
// variables themselves are assigned exactly once per process, before any client runs.
func Activate(w *World) {
	hooksOnce.Do(func() {
		sumdb.VerifYield = func(point string) {
			if cur := active.Load(); cur != nil {
				cur.log(-1, "Yield", point, "")
			}
		}
		sumdb.VerifInstall = func(c *sumdb.Client, oldT, newT tlog.Tree) {
			cur := active.Load()
			if cur == nil {
				return
			}
			oldN, newN := oldT.N, newT.N
			cur.mu.Lock()
			id, ok := cur.clients[c]
			if !ok {
				id = -1
			}
			cur.installs[id] = append(cur.installs[id], newN)
			ev := Event{Seq: len(cur.Trace), Client: id, Gid: Gid(), Op: "Install", Arg: fmt.Sprintf("%d->%d", oldN, newN)}
			cur.Trace = append(cur.Trace, ev)
			cur.mu.Unlock()
			if newN <= oldN {
				cur.viol("in-memory-head-regressed", map[string]any{"client": id, "old_n": oldN, "new_n": newN})
			}
			// the in-memory head follows one timeline: old and new must be heads of one common branch
			if !cur.SkipAuth && len(cur.Logs) > 0 {
				share, known := false, true
				for _, l := range cur.Logs {
					onOld := oldN <= int64(len(l.Mods)) && (oldN == 0 || l.M.Root(int(oldN)) == [32]byte(oldT.Hash))
					onNew := newN <= int64(len(l.Mods)) && l.M.Root(int(newN)) == [32]byte(newT.Hash)
					if onOld && onNew {
						share = true
					}
				}
				_ = known
				if !share {
					cur.viol("in-memory-head-moved-off-its-timeline", map[string]any{"client": id, "old_n": oldN, "new_n": newN,
						"old_hash": fmt.Sprintf("%x", oldT.Hash[:6]), "new_hash": fmt.Sprintf("%x", newT.Hash[:6])})
				}
			}
			// no Gate here: the caller holds the client's latestMu
		}
	})
	active.Store(w)
}

// Deactivate detaches the hooks.
func Deactivate() { active.Store(nil) }

// LoseLatest replaces the stored latest head by keep (nil: as on a fresh configuration directory) while
// the cache stays: a restored module cache next to a new or older configuration. The history of installed
// config values is kept, so whatever is stored afterwards is still judged against what was stored before.
func (w *World) LoseLatest(keep []byte) {
	w.mu.Lock()
	if keep == nil {
		delete(w.Config, w.Name+"/latest")
	} else {
		w.Config[w.Name+"/latest"] = append([]byte(nil), keep...)
	}
	w.mu.Unlock()
	w.log(0, "ConfigLost", w.Name+"/latest", fmt.Sprintf("len=%d", len(keep)))
}

// ArmConfigReadFault makes the next ReadConfig of a non-key file fail once.
func (w *World) ArmConfigReadFault() {
	w.mu.Lock()
	w.FailConfigRead = w.nConfigRead + 1
	w.mu.Unlock()
}

// SecurityMessages returns a copy of the security callback messages so far.
func (w *World) SecurityMessages() []string {
	w.mu.Lock()
	defer w.mu.Unlock()
	return append([]string(nil), w.Security...)
}

// Installs returns the sizes installed in memory by a client, in order.
func (w *World) Installs(client int) []int64 {
	w.mu.Lock()
	defer w.mu.Unlock()
	return append([]int64(nil), w.installs[client]...)
}

// HonestRemote serves Logs[0] at tree size n.
func (w *World) HonestRemote(n int) func(client int, path string) ([]byte, error) {
	return ServeLog(w.Logs[0], func() int { return n })
}

// ServeLog is an honest server over l at the size returned by size().
func ServeLog(l *Log, size func() int) func(client int, path string) ([]byte, error) {
	return func(client int, path string) ([]byte, error) {
		n := size()
		switch {
		case strings.HasPrefix(path, "/lookup/"):
			mv := strings.TrimPrefix(path, "/lookup/")
			i := strings.LastIndex(mv, "@")
			if i < 0 {
				return nil, errNotFound
			}
			id := l.Find(mv[:i], mv[i+1:], n)
			if id < 0 {
				return nil, errNotFound
			}
			return l.LookupResponse(id, n), nil
		case strings.HasPrefix(path, "/tile/"):
			t, ok := refmerkle.ParseTilePath(path[1:])
			if !ok {
				return nil, errNotFound
			}
			d, ok := l.Tile(t, n)
			if !ok {
				return nil, errNotFound
			}
			return d, nil
		case path == "/latest":
			return l.Head(n), nil
		}
		return nil, errNotFound
	}
}
