// Command vcheck is the worker of the verification harness: it runs one
// batch of one property's workload against golang/mod (built from /repo via
// the replace directive, tag verif) and writes a JSON report.
package main

import (
	"flag"
	"fmt"
	"os"
	"runtime/debug"

	"verif/harness/mon"
	"verif/harness/props"
)

func main() {
	prop := flag.String("prop", "", "property id")
	tier := flag.String("tier", "quick", "quick|thorough")
	seed := flag.Uint64("seed", 1, "VERIF_SEED")
	batch := flag.Int("batch", 0, "batch index")
	nbatch := flag.Int("nbatch", 1, "number of batches")
	out := flag.String("out", "", "report path")
	wal := flag.String("wal", "", "write-ahead file")
	replay := flag.String("case", "", "only run this case id (replay)")
	flag.Parse()
	run, ok := props.Registry[*prop]
	if !ok {
		fmt.Fprintf(os.Stderr, "unknown property %q\n", *prop)
		os.Exit(3)
	}
	// A mutated library can recurse without bound on hostile input; fail fast.
	debug.SetMaxStack(64 << 20)
	ctx := mon.New(*prop, *tier, *seed, *batch, *nbatch, *out, *wal)
	ctx.ReplayCase = *replay
	run(ctx)
	if err := ctx.Flush(true); err != nil {
		fmt.Fprintln(os.Stderr, "flush:", err)
		os.Exit(3)
	}
}
