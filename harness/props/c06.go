package props

import (
	"fmt"
	"math/big"
	"math/rand/v2"
	"strings"

	"golang.org/x/mod/module"

	"verif/harness/gen"
	"verif/harness/mon"
	"verif/harness/ref/refpath"
	"verif/harness/ref/refsemver"
)

func init() { Registry["C06"] = runC06 }

var c06Kinds = [3]refpath.Kind{refpath.Module, refpath.Import, refpath.File}

func c06OK(k refpath.Kind) func(string) bool {
	return func(e string) bool { return refpath.ElemValid(e, k) }
}

// Write-ahead records are batched: the inputs of c06ChunkSize consecutive generated cases are drawn
// first and written as one record under a chunk id, then the cases run. Replaying the chunk id
// re-runs the whole chunk (that is what the driver does with the record of a crashed or hung batch);
// replaying a case id runs that case only. Enumerated cases (chunk id "") write their own record.
const c06ChunkSize = 64

type c06Chunk struct {
	c  *mon.Ctx
	id string
}

func (k c06Chunk) want(id string) bool {
	return k.c.Want(id) || k.id != "" && k.c.ReplayCase == k.id
}

func (k c06Chunk) wal(id string, text string) {
	if k.id == "" {
		k.c.WAL(id, []byte(text))
	}
}

type c06Case struct {
	id, wal string
	run     func(k c06Chunk)
}

// c06RunChunked draws and runs n cases; all PRNG use of case i must happen inside draw(i), and
// draw must not depend on the outcome of running earlier cases.
func c06RunChunked(c *mon.Ctx, prefix string, n int, draw func(i int) c06Case) {
	for i0 := 0; i0 < n; i0 += c06ChunkSize {
		k := c06Chunk{c, fmt.Sprintf("chunk:%s%d", prefix, i0)}
		var cases []c06Case
		var wal strings.Builder
		any := false
		for i := i0; i < n && i < i0+c06ChunkSize; i++ {
			cs := draw(i)
			cases = append(cases, cs)
			wal.WriteString(cs.id + "\t" + cs.wal + "\n")
			any = any || k.want(cs.id)
		}
		if !any {
			continue
		}
		c.WAL(k.id, []byte(wal.String()))
		for _, cs := range cases {
			cs.run(k)
		}
	}
}

// c06SuffixForm is the postcondition the statement puts on the suffix of a valid module path:
// empty, "/vN" with N >= 2, or gopkg.in's ".vN[-unstable]" (which gopkg.in paths must have).
func c06SuffixForm(p, maj string) bool {
	dec := func(s string) bool {
		if s == "" || len(s) > 1 && s[0] == '0' {
			return false
		}
		for i := 0; i < len(s); i++ {
			if s[i] < '0' || s[i] > '9' {
				return false
			}
		}
		return true
	}
	if strings.HasPrefix(p, "gopkg.in/") {
		m := strings.TrimSuffix(maj, "-unstable")
		return strings.HasPrefix(m, ".v") && dec(m[2:])
	}
	if maj == "" {
		return true
	}
	if !strings.HasPrefix(maj, "/v") || !dec(maj[2:]) {
		return false
	}
	n, _ := new(big.Int).SetString(maj[2:], 10)
	return n.Cmp(big.NewInt(2)) >= 0
}

func c06Letters(sts [3]refpath.Status) string {
	b := make([]byte, 3)
	for i, s := range sts {
		b[i] = "ivu"[s]
	}
	return string(b)
}

// c06Path observes the three validity checks, their inclusions and SplitPathVersion on one string.
func c06Path(c *mon.Ctx, ck c06Chunk, id, g, p string) (sts [3]refpath.Status) {
	for i, k := range c06Kinds {
		sts[i] = refpath.Check(p, k).Status()
	}
	if !ck.want(id) {
		return
	}
	ck.wal(id, p)
	c.Guard(id, func() any { return mon.QS(p) }, func() {
		errs := [3]error{module.CheckPath(p), module.CheckImportPath(p), module.CheckFilePath(p)}
		for i, k := range c06Kinds {
			vd := refpath.Check(p, k)
			st := vd.Status()
			got := errs[i] == nil
			c.Eval(1)
			c.Class("gen:" + g + ":" + k.String() + ":" + st.String())
			switch st {
			case refpath.Unspecified:
				for _, o := range vd.Open {
					c.Class(fmt.Sprintf("unspecified:%s:%s:code-accepts=%t", k, o, got))
				}
			case refpath.Valid:
				c.Sample("valid-"+k.String()+"-path", 2, mon.QS(p))
				if !got {
					c.Violation("rejects-valid-"+k.String()+"-path", id, map[string]any{"path": mon.QS(p), "error": errs[i].Error()})
				}
			case refpath.Invalid:
				if len(vd.Hard) == 1 {
					c.Class(fmt.Sprintf("reject-alone:%s:%s", vd.Hard[0], k))
					c.Sample("rejected-"+k.String()+"-path", 3, map[string]any{"path": mon.QS(p), "clause": vd.Hard[0]})
				}
				if got {
					c.Violation("accepts-invalid-"+k.String()+"-path", id, map[string]any{"path": mon.QS(p), "clauses_broken": vd.Hard})
				}
			}
		}
		// the same three questions once more, loosest first: a verdict is about the string, not about what was
		// asked just before
		again := [3]error{2: module.CheckFilePath(p), 1: module.CheckImportPath(p), 0: module.CheckPath(p)}
		for i, k := range c06Kinds {
			if (again[i] == nil) != (errs[i] == nil) {
				c.Violation("verdict-depends-on-the-order-of-the-checks", id, map[string]any{"path": mon.QS(p), "kind": k.String(),
					"first": fmt.Sprint(errs[i]), "after_the_looser_checks": fmt.Sprint(again[i])})
			}
		}
		gm, gi, gf := errs[0] == nil, errs[1] == nil, errs[2] == nil
		c.Eval(1)
		if gm && !gi {
			c.Violation("module-path-not-import-path", id, map[string]any{"path": mon.QS(p), "import_error": errs[1].Error()})
		}
		if gi && !gf {
			c.Violation("import-path-not-file-path", id, map[string]any{"path": mon.QS(p), "file_error": errs[2].Error()})
		}

		pre, maj, ok := module.SplitPathVersion(p)
		s := refpath.Split(p)
		c.Eval(1)
		c.Class("split:" + s.Form)
		det := func() map[string]any {
			return map[string]any{"path": mon.QS(p), "got": fmt.Sprintf("(%q,%q,%t)", pre, maj, ok), "want": fmt.Sprintf("(%q,%q,%t)", s.Prefix, s.Major, s.OK)}
		}
		if s.Open {
			c.Class(fmt.Sprintf("unspecified:split:%s:code-ok=%t", refpath.OpenGopkgV0Unstable, ok))
		} else if ok != s.OK {
			c.Violation("split-ok", id, det())
		} else if ok && (pre != s.Prefix || maj != s.Major) {
			c.Violation("split-parts", id, det())
		}
		if ok && pre+maj != p {
			c.Violation("split-concat", id, det())
		}
		if gm {
			// postcondition of the statement on every path accepted as a module path
			c.Eval(1)
			c.Class("valid-module-suffix:" + s.Form)
			if !ok || !c06SuffixForm(p, maj) {
				c.Violation("split-suffix-form-on-accepted-module-path", id, det())
			} else if got, want := module.PathMajorPrefix(maj), refpath.MajorPrefix(maj); got != want {
				c.Violation("pathmajorprefix", id, map[string]any{"pathMajor": maj, "got": got, "want": want})
			}
		}
	})
	return sts
}

// c06PairKind names the reason a (path, version) pair is accepted or rejected (class accounting).
func c06PairKind(p, vs string) string {
	ps := refpath.Check(p, refpath.Module).Status()
	v := refsemver.Parse(vs)
	switch {
	case ps == refpath.Invalid && !v.OK:
		return "path-invalid+version-invalid"
	case ps == refpath.Invalid:
		return "path-invalid"
	case !v.OK:
		return "version-invalid"
	}
	s := refpath.Split(p)
	k := s.Form
	m := refpath.MatchMajor(v, vs, s.Major)
	if ps == refpath.Unspecified {
		return fmt.Sprintf("path-unspecified:match=%t", m)
	}
	switch {
	case s.Major == "" && v.Build == "+incompatible" && v.MajS != "0" && v.MajS != "1":
		return k + ":incompatible-exception"
	case strings.HasPrefix(s.Major, ".v1") && refpath.MajorPrefix(s.Major) == "v1" && strings.HasPrefix(vs, "v0.0.0-"):
		return k + ":gopkg-v1-pseudo-exception"
	case v.Build == "+incompatible":
		return fmt.Sprintf("%s:with-incompatible:match=%t", k, m)
	}
	short := strings.Count(strings.SplitN(strings.SplitN(vs, "-", 2)[0], "+", 2)[0], ".") < 2
	return fmt.Sprintf("%s:match=%t:short=%t", k, m, short)
}

func c06Pair(c *mon.Ctx, ck c06Chunk, id, p, vs string) {
	if !ck.want(id) {
		return
	}
	ck.wal(id, p+"\n"+vs)
	c.Guard(id, func() any { return []string{mon.QS(p), mon.QS(vs)} }, func() {
		err := module.Check(p, vs)
		want := refpath.CheckPair(p, vs)
		c.Eval(1)
		c.Class("check:" + c06PairKind(p, vs) + ":" + want.String())
		det := func() map[string]any {
			d := map[string]any{"path": mon.QS(p), "version": mon.QS(vs), "model": want.String(), "kind": c06PairKind(p, vs)}
			if err != nil {
				d["error"] = err.Error()
			}
			return d
		}
		switch {
		case want == refpath.Valid && err != nil:
			c.Violation("check-rejects-valid-pair", id, det())
		case want == refpath.Invalid && err == nil:
			c.Violation("check-accepts-invalid-pair", id, det())
		case want == refpath.Valid:
			c.Sample("valid-pair", 3, p+"@"+vs)
		}
	})
}

// c06VersionFor draws a version related to the major suffix of a path.
func c06VersionFor(r *rand.Rand, major string) string {
	n := strings.TrimSuffix(strings.TrimPrefix(strings.TrimPrefix(major, "/v"), ".v"), "-unstable")
	if n == "" {
		n = gen.Pick(r, []string{"0", "1", "2", "3", "17"})
	}
	maj := n
	switch r.IntN(8) {
	case 0: // neighbour major
		b, ok := new(big.Int).SetString(n, 10)
		if ok {
			d := int64(1)
			if r.IntN(2) == 0 && b.Sign() > 0 {
				d = -1
			}
			maj = b.Add(b, big.NewInt(d)).String()
		}
	case 1:
		maj = gen.Pick(r, []string{"0", "1", "2", "10", "01", n + "0", "0" + n})
	}
	switch r.IntN(12) {
	case 0:
		return "v" + maj
	case 1:
		return "v" + maj + "." + gen.Pick(r, []string{"0", "4", "12"})
	case 2:
		return gen.Version(r)
	case 3:
		return gen.MutateString(r, "v"+maj+".2.3")
	case 4:
		return "v0.0.0-" + gen.Pick(r, []string{"20161208181325-20d25e280405", "0", "pre", "", "20200101000000-abcdef123456+incompatible"})
	}
	v := "v" + maj + "." + gen.Pick(r, []string{"0", "1", "22"}) + "." + gen.Pick(r, []string{"0", "3", "100"})
	if r.IntN(3) == 0 {
		v += "-" + gen.Pick(r, []string{"pre", "0", "rc.1", "0.20200101000000-abcdef123456", "alpha-1"})
	}
	if r.IntN(3) == 0 {
		v += "+" + gen.Pick(r, []string{"incompatible", "incompatible", "incompatible", "meta", "incompatible.1", "Incompatible", "incompatibl"})
	}
	return v
}

// c06PathMajor observes CheckPathMajor / MatchPathMajor on a valid version and a well-formed suffix.
func c06PathMajor(c *mon.Ctx, ck c06Chunk, id, vs, pm string) {
	if !ck.want(id) {
		return
	}
	ck.wal(id, vs+"\n"+pm)
	c.Guard(id, func() any { return []string{mon.QS(vs), mon.QS(pm)} }, func() {
		err := module.CheckPathMajor(vs, pm)
		c.Eval(1)
		if m := module.MatchPathMajor(vs, pm); m != (err == nil) {
			c.Violation("matchpathmajor-differs-from-checkpathmajor", id, map[string]any{"v": mon.QS(vs), "pathMajor": mon.QS(pm), "match": m, "check_nil": err == nil})
		}
		v := refsemver.Parse(vs)
		if !v.OK {
			c.Class("pathmajor:invalid-version:skipped")
			return
		}
		want := refpath.MatchMajor(v, vs, pm)
		form := "none"
		switch {
		case strings.HasSuffix(pm, "-unstable"):
			form = ".vN-unstable"
		case strings.HasPrefix(pm, "."):
			form = ".vN"
		case strings.HasPrefix(pm, "/"):
			form = "/vN"
		}
		c.Class(fmt.Sprintf("pathmajor:%s:incompatible=%t:pseudo0=%t:match=%t", form, v.Build == "+incompatible", strings.HasPrefix(vs, "v0.0.0-"), want))
		if want != (err == nil) {
			c.Violation("checkpathmajor", id, map[string]any{"v": vs, "pathMajor": pm, "got_nil": err == nil, "want_match": want})
		}
	})
}

func c06Match(c *mon.Ctx, ck c06Chunk, id, globs, target string) {
	if !ck.want(id) {
		return
	}
	ck.wal(id, globs+"\n"+target)
	c.Guard(id, func() any { return []string{mon.QS(globs), mon.QS(target)} }, func() {
		got := module.MatchPrefixPatterns(globs, target)
		m := refpath.MatchPrefix(globs, target)
		want := m.Match
		c.Eval(1)
		det := map[string]any{"globs": mon.QS(globs), "target": mon.QS(target), "got": got, "want": want}
		if !m.Specified {
			c.Class(fmt.Sprintf("unspecified:match:multiple-trailing-slashes:code=%t", got))
			return
		}
		if m.Match != m.SameCount {
			// outside the generated domain (known finding matchprefix-slash-in-class): the only matching
			// prefixes have another number of elements than the pattern has '/'-separated pieces
			c.Class(fmt.Sprintf("match:excluded:bracket-or-escape-spans-slash:code=%t", got))
			return
		}
		feat := ""
		for _, g := range strings.Split(globs, ",") {
			switch {
			case g == "" || g == "/":
				feat = "+empty-item"
			case strings.HasSuffix(g, "/"):
				feat = "+trailing-slash"
			}
		}
		depth := "none"
		if want {
			depth = "full"
			if refpath.MatchPrefix(globs, target+"/zz").Match {
				// still matches with one more element: the match is on a proper-prefix basis
				depth = "prefix"
			}
			if !strings.Contains(target, "/") {
				depth = "single-element"
			}
		}
		c.Class(fmt.Sprintf("match:%t:%s%s", want, depth, feat))
		if got != want {
			c.Violation("matchprefix", id, det)
		} else if want {
			c.Sample("glob-match", 3, map[string]any{"globs": mon.QS(globs), "target": mon.QS(target)})
		}
	})
}

// c06Chars: every ASCII byte that is not a letter or digit, and a set of non-ASCII characters.
func c06Chars() []string {
	var l []string
	for b := 0; b < 0x80; b++ {
		ch := byte(b)
		if ch >= '0' && ch <= '9' || ch >= 'a' && ch <= 'z' || ch >= 'A' && ch <= 'Z' {
			continue
		}
		l = append(l, string([]byte{ch}))
	}
	return append(l, "é", "世", "ß", "\u03a9", "\u01c5", "\u212a", "\u0301", "\u0663", "\u00b9", "\uff11", "\ufffd", "\u00a0", "\u2028",
		"\xff", "\xc0\x80", "\xed\xa0\x80", "\xe4\xb8")
}

func c06CharLabel(ch string) string {
	if len(ch) == 1 && (ch[0] < 0x20 || ch[0] == 0x7f) && ch != "\x00" && ch != "\n" && ch != "\t" {
		return "ctrl"
	}
	return fmt.Sprintf("%+q", ch)
}

var c06Majors = []string{"/v2", "/v3", "/v10", "/v100", "/v18446744073709551616", "/v1", "/v0", "/v00", "/v02", "/v010", "/v2.0", "/v1.2", "/v1.0.0", "/v.2", "/v2.", "/v.",
	"/v", "/vx", "/v2x", "/vv2", "/V2", "/v-2", "/v+2", "/v2/x", "/av2", "/v\uff12", "v2", ".v2", "/v2/v3", "/v1/v2", "/v2/v1", "/2", "/v2~1", "/v\u0663"}

var c06GopkgSuffixes = []string{".v0", ".v1", ".v2", ".v3", ".v10", ".v18446744073709551616", ".v1-unstable", ".v2-unstable", ".v10-unstable", ".v0-unstable",
	".v-unstable", ".v", "", ".v01", ".v00", ".v02-unstable", ".v1-unstable-unstable", ".v1-Unstable", ".V1", ".v1-", ".v1-unstabl", ".vx", ".v1x", ".v1.", ".v1.0",
	"/v2", ".v1/v2", ".v2.v3", "-unstable", ".v1-unstable.v2", "v1", ".v1/x", ".v+1", ".v-1", ".v\uff11", "..v1"}

func runC06(c *mon.Ctx) {
	if strings.HasPrefix(c.ReplayCase, coldChildPrefix) {
		coldStartChild(c)
		return
	}
	coldStart(c, "C06")
	r := c.Rng
	okMod, okImp, okFile := c06OK(refpath.Module), c06OK(refpath.Import), c06OK(refpath.File)
	modElem := func() string { return gen.Elem(r, gen.ModuleElemAlphabet, 8, okMod) }
	// base: a valid module path without major suffix and with at least two elements
	base := func() string {
		p := gen.Domain(r, okMod)
		if p == "gopkg.in" {
			p = "example.com"
		}
		for i, k := 0, 1+r.IntN(3); i < k; i++ {
			e := modElem()
			if len(e) > 1 && e[0] == 'v' && strings.Trim(e[1:], "0123456789.") == "" {
				e = "w" + e
			}
			p += "/" + e
		}
		return p
	}
	// replaceElem puts e at a random non-first position of a valid path (or makes it the only further element)
	withElem := func(e string) string {
		parts := strings.Split(base(), "/")
		i := 1 + r.IntN(len(parts))
		if i == len(parts) {
			parts = append(parts, e)
		} else {
			parts[i] = e
		}
		return strings.Join(parts, "/")
	}

	// ---- designated regression input of known finding matchprefix-slash-in-class (DESIGN §6.10) ----
	if c.Batch == 0 && c.Want("matchprefix-slash-in-class") {
		globs, target := "[/a]", "a"
		got := module.MatchPrefixPatterns(globs, target)
		want := refpath.MatchPrefix(globs, target).Match
		c.Eval(1)
		c.Class("finding-input:matchprefix-slash-in-class")
		c.Finding("matchprefix-slash-in-class", got != want, map[string]any{"globs": globs, "target": target,
			"MatchPrefixPatterns": got, "path.Match(globs, target)": want,
			"note": "the '/' inside the bracket expression is counted as an element separator, so the one-element target is never tried"})
	}

	// ---- enumerations (global lists, dealt round-robin to the batches) -----------------------------
	n := 0
	mine := func() bool { n++; return c.Mine(n) }
	each := c06Chunk{c: c} // enumerated cases write their own write-ahead record

	// every non-alphanumeric ASCII byte and a set of non-ASCII characters, at four places
	for _, ch := range c06Chars() {
		for pos, mk := range []func(string) string{
			func(ch string) string { return "example.com/ab" + ch + "cd/x" },
			func(ch string) string { return "example.com/x/ab" + ch },
			func(ch string) string { return "exam" + ch + "ple.com/x" },
			func(ch string) string { return "example.com/" + ch + "ab" },
		} {
			if !mine() {
				continue
			}
			p := mk(ch)
			sts := c06Path(c, each, fmt.Sprintf("char:%q:%d", ch, pos), "allowed-chars", p)
			if pos == 0 {
				c.Class("char:" + c06CharLabel(ch) + ":" + c06Letters(sts))
			}
		}
	}
	// reserved names and near misses x every casing x suffix x position
	for _, stem := range gen.ReservedLike {
		for _, cv := range gen.CaseFamily(stem, 5) {
			for _, suf := range []string{"", ".txt", ".a.b", ".", "..x", "~1", ".~1", "x", " ", "+"} {
				for pos := 0; pos < 3; pos++ {
					if !mine() {
						continue
					}
					e := cv + suf
					var p string
					switch pos {
					case 0:
						p = strings.ToLower(e) + ".com/x" // as the first element
						if r.IntN(2) == 0 {
							p = e + ".com/x"
						}
					case 1:
						p = "example.com/" + e + "/x"
					default:
						p = "example.com/x/" + e
					}
					c06Path(c, each, fmt.Sprintf("reserved:%s:%q:%d", cv, suf, pos), "windows-reserved-name", p)
				}
			}
		}
	}
	for _, b := range []string{"example.com/x", "example.com", "x.y/A/b.c", "gopkg.in", "gopkg.in.x/y", "example.com/gopkg.in/x", "v2.x", ""} {
		for _, m := range c06Majors {
			if mine() {
				c06Path(c, each, "major:"+b+m, "major-suffix", b+m)
			}
		}
	}
	for _, b := range []string{"gopkg.in/yaml", "gopkg.in/user/x", "gopkg.in/", "gopkg.in/A-b_c.d", "gopkg.in/x/y/z"} {
		for _, s := range c06GopkgSuffixes {
			if mine() {
				c06Path(c, each, "gopkg:"+b+s, "gopkg.in-suffix", b+s)
				c.Class("gopkg-suffix:" + s + ":" + refpath.Check(b+s, refpath.Module).Status().String())
			}
		}
	}
	// CheckPathMajor on a grid
	for _, vs := range []string{"v0.0.0", "v0.1.2", "v1.2.3", "v1", "v2", "v2.0", "v2.0.0", "v2.0.0+incompatible", "v2.0.0+incompatible.1", "v2.0.0+meta", "v1.0.0+incompatible", "v3.1.0-pre",
		"v0.0.0-20161208181325-20d25e280405", "v0.0.0-0", "v0.0.0+incompatible", "v10.1.1", "v17.0.0+incompatible", "v18446744073709551616.0.0", "v2.0.0-0.20200101000000-abcdef123456"} {
		for _, pm := range []string{"", "/v2", "/v3", "/v10", "/v17", "/v18446744073709551616", ".v0", ".v1", ".v2", ".v3", ".v10", ".v1-unstable", ".v2-unstable", ".v3-unstable"} {
			if mine() {
				c06PathMajor(c, each, "pm:"+vs+":"+pm, vs, pm)
			}
		}
	}

	// ---- clause-targeted random cases --------------------------------------------------------------
	type genf struct {
		name string
		f    func() string
	}
	gens := []genf{
		{"valid-module", func() string { return gen.ModulePath(r, okMod) }},
		{"valid-import", func() string { return gen.ImportPath(r, okImp) }},
		{"valid-file", func() string { return gen.FilePath(r, okFile) }},
		{"elements-nonempty", func() string {
			b := base()
			switch r.IntN(8) {
			case 0:
				return ""
			case 1:
				return "/" + b
			case 2:
				return b + "/"
			case 3:
				i := strings.IndexByte(b, '/')
				return b[:i] + "/" + b[i:]
			case 4:
				return gen.Pick(r, []string{"/", "//", "a.b//", "a.b/./c", "a.b/ /c"})
			case 5:
				return strings.Repeat(b+"/", 1+r.IntN(3)) + "x"
			}
			return b
		}},
		{"allowed-chars", func() string {
			b := base()
			ch := gen.Pick(r, c06Chars())
			if r.IntN(6) == 0 {
				ch = gen.Pick(r, []string{"+", "!", " ", "@", "é", "世"})
			}
			return gen.InsertAt(r, b, ch, strings.IndexByte(b, '/')+1)
		}},
		{"trailing-dot", func() string {
			e := modElem()
			switch r.IntN(5) {
			case 0:
				return withElem(e + ".")
			case 1:
				return withElem(e+".") + "/" + modElem()
			case 2:
				return withElem(e + "." + modElem())
			case 3:
				return gen.Domain(r, okMod) + "./" + e
			}
			return withElem(e)
		}},
		{"two-dots-in-a-row", func() string {
			e := modElem()
			switch r.IntN(8) {
			case 0:
				return withElem(e + ".." + modElem())
			case 1:
				return withElem(gen.Pick(r, []string{".", "..", "...", "...."}))
			case 2:
				return withElem(".." + e)
			case 3:
				return withElem(e + "..")
			case 4:
				return "x..y/" + e
			case 5:
				return withElem(e + "..." + modElem())
			}
			return withElem(e + "." + modElem() + "." + modElem())
		}},
		{"element-leading-dot", func() string {
			e := modElem()
			switch r.IntN(4) {
			case 0:
				return withElem("." + e)
			case 1:
				return "." + base()
			case 2:
				return withElem(e + ".x")
			}
			return withElem(gen.Pick(r, []string{".git", ".a.b", ".v2", "._", ".~", ".-"}))
		}},
		{"windows-reserved-name", func() string {
			e := gen.CaseMix(r, gen.Pick(r, gen.ReservedLike), 0.5)
			switch r.IntN(6) {
			case 0:
				e += "." + modElem()
			case 1:
				e = modElem() + "." + e // not the part before the first dot
			case 2:
				e += gen.Pick(r, []string{"", ".", "..", "~1", "-", "_", "x"})
			case 3:
				e = gen.Pick(r, []string{"", "x", "-", "_"}) + e
			}
			if r.IntN(5) == 0 {
				return strings.ToLower(e) + ".io/" + modElem()
			}
			return withElem(e)
		}},
		{"windows-short-name", func() string {
			stem := gen.Pick(r, []string{"", "a", "PROGRA", "x-y", "a~1", "a~b", "1", "~"})
			d := gen.Pick(r, []string{"1", "0", "12", "09", "123456", "", "1a", "a1", "x", "\uff11"})
			e := stem + "~" + d
			switch r.IntN(7) {
			case 0:
				e += "." + modElem() // short-name in the part before the first dot
			case 1:
				e = modElem() + "." + e // after the first dot: not a short-name position
				if okMod(e) == false && r.IntN(2) == 0 {
					e = "a.b~1"
				}
			case 2:
				e += "~"
			case 3:
				e = stem + d + "~"
			}
			return withElem(e)
		}},
		{"first-element", func() string {
			rest := "/" + modElem()
			if r.IntN(4) == 0 {
				rest = ""
			}
			d := gen.Domain(r, okMod)
			switch r.IntN(12) {
			case 0:
				return gen.CaseMix(r, d, 0.3) + rest
			case 1:
				return gen.InsertAt(r, d, gen.Pick(r, []string{"_", "~", "+", "A", "Z", "é", "!"}), 0) + rest
			case 2:
				return strings.ReplaceAll(d, ".", "") + rest // no dot
			case 3:
				return gen.Pick(r, []string{"localhost", "com", "x", "a-b", "0", "go"}) + rest
			case 4:
				return "-" + d + rest
			case 5:
				return d + "-" + rest
			case 6:
				return "." + d + rest
			case 7:
				return gen.Pick(r, []string{"1.2", "0.0", "a.0", "x--y.z", "a.b-", "1-.2"}) + rest
			case 8:
				return gen.Pick(r, []string{"con.com", "nul.x", "a~1.com", "aux.a.b", "x.con"}) + rest
			}
			return d + rest
		}},
		{"major-suffix", func() string {
			b := base()
			if r.IntN(5) == 0 {
				return b + "/v" + gen.MajorNumber(r)
			}
			if r.IntN(6) == 0 {
				return b + "/v" + gen.Pick(r, []string{"0", "1", "01", "1.0", "2.0", ".2", "2.", "", "0" + gen.Digits(r, 2), gen.Digits(r, 1) + "." + gen.Digits(r, 1)})
			}
			return b + gen.Pick(r, c06Majors)
		}},
		{"gopkg.in-suffix", func() string {
			p := "gopkg.in/"
			if r.IntN(2) == 0 {
				p += modElem() + "/"
			}
			p += modElem()
			if r.IntN(3) == 0 {
				n := gen.Pick(r, []string{"0", "1", "2", "7", "10", "01", "00", "", gen.MajorNumber(r)})
				return p + ".v" + n + gen.Pick(r, []string{"", "", "-unstable"})
			}
			return p + gen.Pick(r, c06GopkgSuffixes)
		}},
		{"leading-dash", func() string {
			switch r.IntN(5) {
			case 0:
				return "-" + base()
			case 1:
				return "-" + gen.ImportPath(r, okImp)
			case 2:
				return "-" + gen.FilePath(r, okFile)
			case 3:
				return withElem("-" + modElem())
			}
			return gen.Pick(r, []string{"-", "-/x", "--", "-.x/y", "x.y/-", "-x.y/z"})
		}},
		{"mutated-valid", func() string {
			switch r.IntN(3) {
			case 0:
				return gen.MutateString(r, gen.ModulePath(r, okMod))
			case 1:
				return gen.MutateString(r, gen.ImportPath(r, okImp))
			}
			return gen.MutateString(r, gen.FilePath(r, okFile))
		}},
		{"soup", func() string { return gen.PathSoup(r) }},
	}

	nPath := c.Share(c.Scale(1_600_000, 100_000_000))
	pool := make([]string, 0, 2048)
	c06RunChunked(c, "p", nPath, func(i int) c06Case {
		g := gens[i%len(gens)]
		if r.IntN(4) == 0 {
			g = gens[len(gens)-1-r.IntN(2)]
		}
		p := g.f()
		if refpath.Check(p, refpath.Module).Status() != refpath.Invalid || r.IntN(6) == 0 {
			if len(pool) < cap(pool) {
				pool = append(pool, p)
			} else {
				pool[r.IntN(len(pool))] = p
			}
		}
		id := fmt.Sprintf("p%d", i)
		return c06Case{id, mon.QS(p), func(k c06Chunk) { c06Path(c, k, id, g.name, p) }}
	})
	if len(pool) == 0 {
		pool = append(pool, "example.com/x")
	}

	// ---- path/version pairs ------------------------------------------------------------------------
	c06RunChunked(c, "c", c.Share(c.Scale(480_000, 20_000_000)), func(i int) c06Case {
		p := pool[r.IntN(len(pool))]
		switch r.IntN(8) {
		case 0:
			p = gen.ModulePath(r, okMod)
		case 1:
			p = base() + gen.Pick(r, []string{"", "/v2", "/v3", "/v10", "/v1", "/v2.0"})
		case 2:
			p = "gopkg.in/" + modElem() + gen.Pick(r, []string{".v0", ".v1", ".v2", ".v3", ".v1-unstable", ".v2-unstable", ".v0-unstable", ".v-unstable", ""})
		}
		vs := c06VersionFor(r, refpath.Split(p).Major)
		id := fmt.Sprintf("c%d", i)
		return c06Case{id, mon.QS(p) + " " + mon.QS(vs), func(k c06Chunk) { c06Pair(c, k, id, p, vs) }}
	})
	c06RunChunked(c, "m", c.Share(c.Scale(160_000, 5_000_000)), func(i int) c06Case {
		num := gen.Pick(r, []string{"0", "1", "2", "3", "10", gen.MajorNumber(r)})
		pm := gen.Pick(r, []string{"", "/v", ".v", ".v"}) // "" or a prefix to complete
		switch pm {
		case "/v":
			if num == "0" || num == "1" {
				num = "2"
			}
			pm += num
		case ".v":
			pm += num
			if r.IntN(3) == 0 && num != "0" {
				pm += "-unstable"
			}
		}
		vs := c06VersionFor(r, pm)
		if r.IntN(2) == 0 {
			vs = gen.ValidVersion(r, true)
		}
		id := fmt.Sprintf("m%d", i)
		return c06Case{id, mon.QS(vs) + " " + mon.QS(pm), func(k c06Chunk) { c06PathMajor(c, k, id, vs, pm) }}
	})

	// ---- MatchPrefixPatterns -----------------------------------------------------------------------
	c06RunChunked(c, "g", c.Share(c.Scale(480_000, 20_000_000)), func(i int) c06Case {
		target := gen.GlobTarget(r)
		if r.IntN(10) == 0 {
			target = pool[r.IntN(len(pool))]
		}
		globs := gen.GlobList(r, target)
		id := fmt.Sprintf("g%d", i)
		return c06Case{id, mon.QS(globs) + " " + mon.QS(target), func(k c06Chunk) { c06Match(c, k, id, globs, target) }}
	})
}
