package props

import (
	"bytes"
	"fmt"
	"math/rand/v2"
	"strings"

	"golang.org/x/mod/modfile"

	"verif/harness/gen"
	"verif/harness/mon"
	"verif/harness/ref/refsemver"
)

// C02 — formatting a go.mod / go.work file preserves its meaning and is idempotent
// (DESIGN §5.2).
//
// Syntax layer, for every input the syntax-only parser (modfile.VerifParse) accepts:
//
//	flat1 = flatten(tree)                 taken BEFORE Format runs (a printer may touch the tree)
//	out   = Format(tree)                  must be accepted again
//	flatten(parse(out)) == flat1          statements, tokens and TrimSpace'd comment texts in print order
//	Format(parse(out))  == out            byte idempotence
//
// Directive layer, for every file in the domain of the statement (paths non-empty and not a
// lone bracket/comma, versions valid) that strict Parse / ParseWork accepts, with fixer nil
// and with a canonicalising fixer: directive values of Parse(Format(Parse(in))) equal those
// of Parse(in); the formatted text re-parses to the tokens of the (re-quoted) tree;
// File.Format agrees with Format(File.Syntax).

func init() { Registry["C02"] = runC02 }

// c02Held is the result of the previous Format call, kept (with a private copy) across the next one:
// what Format returned belongs to the caller and must not change when Format is called again.
var c02Held struct {
	out, cp []byte
	id      string
}

func c02Hold(c *mon.Ctx, id string, out []byte) {
	if c02Held.out != nil && !bytes.Equal(c02Held.out, c02Held.cp) {
		c.Violation("earlier-format-result-changed-by-a-later-call", id, map[string]any{"earlier-case": c02Held.id,
			"was": c02Trunc(c02Held.cp), "is-now": c02Trunc(c02Held.out)})
	}
	c02Held.out, c02Held.cp, c02Held.id = out, append([]byte(nil), out...), id
}

// c02Flatten lists, in print order, the statement kinds, tokens and comment texts of a
// syntax tree. It is attachment-agnostic on purpose: `x ( ) // c` hands the comment to the
// block, the formatted `x (\n) // c` hands it to the `)`, both print it in the same place.
func c02Flatten(f *modfile.FileSyntax) []string {
	var out []string
	com := func(cs []modfile.Comment) {
		for _, c := range cs {
			out = append(out, "//"+strings.TrimSpace(c.Token)) // "" (blank-line placeholder) becomes "//"
		}
	}
	toks := func(t []string) {
		for _, s := range t {
			out = append(out, "t:"+s)
		}
	}
	com(f.Before)
	for _, st := range f.Stmt {
		switch x := st.(type) {
		case *modfile.CommentBlock:
			out = append(out, "COMMENTBLOCK")
			com(x.Before)
			com(x.Suffix)
			com(x.After)
		case *modfile.Line:
			com(x.Before)
			out = append(out, "LINE")
			toks(x.Token)
			com(x.Suffix)
			com(x.After)
		case *modfile.LineBlock:
			com(x.Before)
			out = append(out, "BLOCK")
			toks(x.Token)
			com(x.LParen.Before)
			out = append(out, "(")
			com(x.LParen.Suffix)
			for _, l := range x.Line {
				com(l.Before)
				out = append(out, "line")
				toks(l.Token)
				com(l.Suffix)
			}
			com(x.RParen.Before)
			out = append(out, ")")
			com(x.RParen.Suffix)
			com(x.Suffix)
			com(x.After)
		default:
			out = append(out, fmt.Sprintf("?%T", st))
		}
	}
	return out
}

func c02FirstDiff(a, b []string) map[string]any {
	i := 0
	for i < len(a) && i < len(b) && a[i] == b[i] {
		i++
	}
	get := func(s []string) string {
		lo, hi := i-2, i+3
		if lo < 0 {
			lo = 0
		}
		if hi > len(s) {
			hi = len(s)
		}
		if lo > hi {
			lo = hi
		}
		return fmt.Sprintf("%q", s[lo:hi])
	}
	return map[string]any{"index": i, "len_before": len(a), "len_after": len(b), "before_around": get(a), "after_around": get(b)}
}

func c02Equal(a, b []string) bool {
	if len(a) != len(b) {
		return false
	}
	for i := range a {
		if a[i] != b[i] {
			return false
		}
	}
	return true
}

func c02Trunc(b []byte) string {
	if len(b) > 3000 {
		return mon.Q(b[:1500]) + " …[" + fmt.Sprint(len(b)) + " bytes]… " + mon.Q(b[len(b)-1000:])
	}
	return mon.Q(b)
}

func c02HasText(cs []modfile.Comment) (text, blank bool) {
	for _, c := range cs {
		if c.Token == "" {
			blank = true
		} else {
			text = true
		}
	}
	return
}

// c02Observe records which comment sites and tree shapes an accepted input exercises.
func c02Observe(c *mon.Ctx, f *modfile.FileSyntax, in []byte) {
	site := func(name string, cs []modfile.Comment) {
		t, b := c02HasText(cs)
		if t {
			c.Class("site:" + name)
		}
		if b {
			c.Class("site:" + name + ":blank-line")
		}
	}
	if len(f.Before) > 0 {
		c.Class("tree:file.Before")
	}
	if len(f.After) > 0 {
		c.Class("tree:file.After")
	}
	endLine := 0 // last line of the previous statement
	prevStmt := false
	for i, st := range f.Stmt {
		switch x := st.(type) {
		case *modfile.CommentBlock:
			c.Class("shape:comment-block")
			switch {
			case i == 0:
				c.Class("site:file-before")
			case i == len(f.Stmt)-1:
				c.Class("site:file-after")
			}
			if prevStmt && x.Start.Line == endLine+1 {
				c.Class("site:stmt-after")
			}
			prevStmt = false
		case *modfile.Line:
			if i == 0 && len(x.Before) > 0 {
				c.Class("site:file-before")
			}
			site("stmt-before", x.Before)
			site("stmt-suffix", x.Suffix)
			if len(x.After) > 0 {
				c.Class("tree:stmt.After")
			}
			for _, t := range x.Token {
				if t == "(" {
					c.Class("shape:midline-paren")
				}
			}
			c02TokShapes(c, x.Token)
			endLine, prevStmt = x.End.Line, true
		case *modfile.LineBlock:
			if i == 0 && len(x.Before) > 0 {
				c.Class("site:file-before")
			}
			site("stmt-before", x.Before)
			site("stmt-suffix", x.Suffix) // only `x ( ) // c`
			site("lparen-suffix", x.LParen.Suffix)
			site("rparen-before", x.RParen.Before)
			site("rparen-suffix", x.RParen.Suffix)
			if len(x.After) > 0 || len(x.LParen.Before) > 0 {
				c.Class("tree:block.After-or-LParen.Before")
			}
			if len(x.Line) == 0 {
				if x.LParen.Pos.Line == x.RParen.Pos.Line {
					c.Class("shape:empty-block-one-line")
				} else {
					c.Class("shape:empty-block")
				}
			}
			if len(x.Token) > 1 {
				c.Class("shape:block-header-many-tokens")
			}
			for _, l := range x.Line {
				site("line-before", l.Before)
				site("line-suffix", l.Suffix)
				if len(l.Token) > 0 && l.Token[len(l.Token)-1] == "(" {
					c.Class("shape:nested-looking-block")
				}
				c02TokShapes(c, l.Token)
			}
			endLine, prevStmt = x.RParen.Pos.Line, true
		}
	}
	if bytes.Contains(in, []byte("\r\n")) {
		c.Class("shape:crlf")
	}
	if n := len(in); n > 0 && in[n-1] != '\n' {
		c.Class("shape:no-final-newline")
	}
}

func c02TokShapes(c *mon.Ctx, toks []string) {
	for _, t := range toks {
		switch {
		case t == "":
		case t[0] == '"':
			if strings.Contains(t, `\`) {
				c.Class("tok:string-with-escape")
			} else {
				c.Class("tok:string")
			}
		case t[0] == '`':
			c.Class("tok:raw-string")
		case len(t) == 1 && strings.Contains("[]{},", t):
			c.Class("tok:bracket-or-comma")
		}
	}
}

// c02Syntax is the syntax-layer monitor. It reports whether the input was accepted.
func c02Syntax(c *mon.Ctx, id, origin string, in []byte) (accepted bool) {
	modfileWAL(c, id, in)
	c.Guard(id, func() any { return c02Trunc(in) }, func() {
		f, err := modfile.VerifParse("go.mod", in)
		c.Eval(1)
		if err != nil {
			c.Class("syntax:" + origin + ":rejected")
			return
		}
		accepted = true
		c.Class("syntax:" + origin + ":accepted")
		flat1 := c02Flatten(f) // before Format
		c02Observe(c, f, in)
		out := modfile.Format(f)
		c02Hold(c, id, out)
		f2, err := modfile.VerifParse("go.mod", out)
		if err != nil {
			c.Violation("format-output-rejected", id, map[string]any{"in": c02Trunc(in), "out": c02Trunc(out), "err": err.Error()})
			return
		}
		flat2 := c02Flatten(f2)
		if !c02Equal(flat1, flat2) {
			c.Violation("flatten-differs", id, map[string]any{"in": c02Trunc(in), "out": c02Trunc(out), "diff": c02FirstDiff(flat1, flat2)})
			return
		}
		out2 := modfile.Format(f2)
		if !bytes.Equal(out, out2) {
			c.Violation("not-idempotent", id, map[string]any{"in": c02Trunc(in), "out": c02Trunc(out), "out2": c02Trunc(out2)})
			return
		}
		if len(in) < 200 {
			c.Sample("syntax-"+origin, 1, map[string]any{"in": mon.Q(in), "out": mon.Q(out), "events": len(flat1)})
		}
	})
	return accepted
}

// c02Fixer canonicalises valid versions (own grammar) and rejects everything else.
func c02Fixer(path, v string) (string, error) {
	p := refsemver.Parse(v)
	if !p.OK {
		return "", fmt.Errorf("version %q is not a semantic version", v)
	}
	if p.Build == "+incompatible" {
		return p.Canonical + "+incompatible", nil
	}
	return p.Canonical, nil
}

// c02Values: the directive values of a parsed go.mod as plain strings, plus whether the
// file is inside the domain of the statement.
func c02ModValues(f *modfile.File) (vals []string, inDomain bool) {
	inDomain = true
	path := func(p string) string {
		if p == "" || (len(p) == 1 && strings.Contains("()[]{},", p)) {
			inDomain = false
		}
		return p
	}
	vers := func(v string) string {
		if !refsemver.Parse(v).OK {
			inDomain = false
		}
		return v
	}
	if f.Module != nil {
		vals = append(vals, fmt.Sprintf("module %q %q deprecated=%q", path(f.Module.Mod.Path), f.Module.Mod.Version, f.Module.Deprecated))
	}
	if f.Go != nil {
		vals = append(vals, fmt.Sprintf("go %q", f.Go.Version))
	}
	if f.Toolchain != nil {
		vals = append(vals, fmt.Sprintf("toolchain %q", f.Toolchain.Name))
	}
	for _, g := range f.Godebug {
		vals = append(vals, fmt.Sprintf("godebug %q=%q", g.Key, g.Value))
	}
	for _, r := range f.Require {
		vals = append(vals, fmt.Sprintf("require %q %q indirect=%t", path(r.Mod.Path), vers(r.Mod.Version), r.Indirect))
	}
	for _, r := range f.Exclude {
		vals = append(vals, fmt.Sprintf("exclude %q %q", path(r.Mod.Path), vers(r.Mod.Version)))
	}
	vals = append(vals, c02ReplaceValues(f.Replace, &inDomain)...)
	for _, r := range f.Retract {
		vals = append(vals, fmt.Sprintf("retract %q %q rationale=%q", vers(r.Low), vers(r.High), r.Rationale))
	}
	for _, t := range f.Tool {
		vals = append(vals, fmt.Sprintf("tool %q", path(t.Path)))
	}
	return vals, inDomain
}

func c02ReplaceValues(rs []*modfile.Replace, inDomain *bool) (vals []string) {
	path := func(p string) string {
		if p == "" || (len(p) == 1 && strings.Contains("()[]{},", p)) {
			*inDomain = false
		}
		return p
	}
	vers := func(v string) string {
		if v != "" && !refsemver.Parse(v).OK {
			*inDomain = false
		}
		return v
	}
	for _, r := range rs {
		vals = append(vals, fmt.Sprintf("replace %q %q => %q %q", path(r.Old.Path), vers(r.Old.Version), path(r.New.Path), vers(r.New.Version)))
	}
	return vals
}

func c02WorkValues(f *modfile.WorkFile) (vals []string, inDomain bool) {
	inDomain = true
	if f.Go != nil {
		vals = append(vals, fmt.Sprintf("go %q", f.Go.Version))
	}
	if f.Toolchain != nil {
		vals = append(vals, fmt.Sprintf("toolchain %q", f.Toolchain.Name))
	}
	for _, g := range f.Godebug {
		vals = append(vals, fmt.Sprintf("godebug %q=%q", g.Key, g.Value))
	}
	for _, u := range f.Use {
		if u.Path == "" || (len(u.Path) == 1 && strings.Contains("()[]{},", u.Path)) {
			inDomain = false
		}
		vals = append(vals, fmt.Sprintf("use %q module=%q", u.Path, u.ModulePath))
	}
	vals = append(vals, c02ReplaceValues(f.Replace, &inDomain)...)
	return vals, inDomain
}

// c02Parsed abstracts over File and WorkFile.
type c02Parsed struct {
	vals     []string
	inDomain bool
	syntax   *modfile.FileSyntax
	format   func() ([]byte, error)
}

func c02Parse(work bool, data []byte, fix modfile.VersionFixer) (*c02Parsed, error) {
	if work {
		f, err := modfile.ParseWork("go.work", data, fix)
		if err != nil {
			return nil, err
		}
		if f == nil {
			return nil, fmt.Errorf("nil result and nil error")
		}
		p := &c02Parsed{syntax: f.Syntax, format: func() ([]byte, error) { return modfile.Format(f.Syntax), nil }}
		p.vals, p.inDomain = c02WorkValues(f)
		return p, nil
	}
	f, err := modfile.Parse("go.mod", data, fix)
	if err != nil {
		return nil, err
	}
	if f == nil {
		return nil, fmt.Errorf("nil result and nil error")
	}
	p := &c02Parsed{syntax: f.Syntax, format: f.Format}
	p.vals, p.inDomain = c02ModValues(f)
	return p, nil
}

// c02Directive is the directive-layer monitor. mustAccept says that the text is an
// unmutated product of the well-formed generator, so a rejection means lost reach.
func c02Directive(c *mon.Ctx, id, kind string, work bool, in []byte, fixed bool, mustAccept bool, rejected *int) {
	var fix modfile.VersionFixer
	mode := "nofix"
	if fixed {
		fix, mode = c02Fixer, "fixer"
	}
	cls := "file:" + kind + ":" + mode
	modfileWAL(c, id, in)
	c.Guard(id, func() any { return c02Trunc(in) }, func() {
		p1, err := c02Parse(work, in, fix)
		c.Eval(1)
		if err != nil {
			c.Class(cls + ":rejected")
			if mustAccept {
				*rejected++
				c.Sample("a-well-formed-file-rejected", 3, map[string]any{"in": c02Trunc(in), "err": err.Error(), "mode": mode})
			}
			return
		}
		if !p1.inDomain {
			// e.g. a path that is a lone bracket: outside the statement, nothing is claimed
			c.Class(cls + ":accepted-outside-domain")
			return
		}
		c.Class(cls + ":accepted")
		vals1 := append([]string(nil), p1.vals...)
		flat1 := c02Flatten(p1.syntax) // tree as re-quoted by the directive layer, before Format
		out, ferr := p1.format()
		if ferr != nil {
			c.Violation("file-format-error", id, map[string]any{"in": c02Trunc(in), "err": ferr.Error()})
			return
		}
		c02Hold(c, id, out)
		if outB := modfile.Format(p1.syntax); !bytes.Equal(out, outB) {
			c.Violation("File.Format-vs-Format", id, map[string]any{"in": c02Trunc(in), "File.Format": c02Trunc(out), "Format(Syntax)": c02Trunc(outB)})
			return
		}
		p2, err := c02Parse(work, out, fix)
		if err != nil {
			c.Violation("formatted-file-rejected", id, map[string]any{"in": c02Trunc(in), "out": c02Trunc(out), "err": err.Error(), "mode": mode})
			return
		}
		if !c02Equal(vals1, p2.vals) {
			c.Violation("directive-values-differ", id, map[string]any{"in": c02Trunc(in), "out": c02Trunc(out), "mode": mode, "diff": c02FirstDiff(vals1, p2.vals)})
			return
		}
		s2, err := modfile.VerifParse("x", out)
		if err != nil {
			c.Violation("format-output-rejected", id, map[string]any{"in": c02Trunc(in), "out": c02Trunc(out), "err": err.Error()})
			return
		}
		if flat2 := c02Flatten(s2); !c02Equal(flat1, flat2) {
			c.Violation("file-flatten-differs", id, map[string]any{"in": c02Trunc(in), "out": c02Trunc(out), "mode": mode, "diff": c02FirstDiff(flat1, flat2)})
			return
		}
		if out2 := modfile.Format(p2.syntax); !bytes.Equal(out, out2) {
			c.Violation("file-not-idempotent", id, map[string]any{"in": c02Trunc(in), "out": c02Trunc(out), "out2": c02Trunc(out2), "mode": mode})
			return
		}
		for _, v := range vals1 {
			c.Class("value:" + strings.SplitN(v, " ", 2)[0])
			if strings.Contains(v, "indirect=true") {
				c.Class("value:require-indirect")
			}
			if strings.HasPrefix(v, "retract") && !strings.HasSuffix(v, `rationale=""`) {
				c.Class("value:retract-rationale")
			}
			if strings.HasPrefix(v, "module") && !strings.HasSuffix(v, `deprecated=""`) {
				c.Class("value:module-deprecated")
			}
		}
		if !bytes.Equal(in, out) {
			c.Class(cls + ":format-changed-text")
		}
		if len(in) < 400 {
			c.Sample("file-"+strings.SplitN(kind, "-", 2)[0], 2, map[string]any{"kind": kind, "mode": mode, "in": mon.Q(in), "out": mon.Q(out), "values": vals1})
		}
	})
}

func c02Doc(r *rand.Rand) (*gen.ModDoc, string) {
	o := gen.ModOpts{NonCanonical: r.IntN(3) == 0, ExoticModule: r.IntN(4) == 0, NoComments: r.IntN(8) == 0, Plain: r.IntN(12) == 0}
	if r.IntN(10) < 3 {
		return gen.GoWork(r, o), "go.work"
	}
	return gen.GoMod(r, o), "go.mod"
}

func runC02(c *mon.Ctx) {
	r := c.Rng
	nSyn := c.Share(c.Scale(400_000, 20_000_000))
	nDoc := c.Share(c.Scale(50_000, 2_000_000))
	names, corpus := gen.ModTestdata()
	if len(corpus) == 0 {
		c.Count("testdata-corpus-absent", 1)
	}

	// the fixtures themselves, once
	if c.Batch == 0 {
		for i, b := range corpus {
			id := "corpus:" + names[i]
			if c.Want(id) {
				c02Syntax(c, id, "testdata", b)
				work := strings.HasPrefix(names[i], "work/")
				var rej int
				c02Directive(c, id+":nofix", "testdata", work, b, false, false, &rej)
				c02Directive(c, id+":fixer", "testdata", work, b, true, false, &rej)
			}
		}
	}

	// ---- syntax layer -----------------------------------------------------------------
	for i := 0; i < nSyn; i++ {
		id := fmt.Sprintf("syn%d", i)
		var in []byte
		origin := ""
		switch k := r.IntN(20); {
		case k < 8:
			origin = "soup"
			in = gen.ModTokenSoup(r)
		case k < 15:
			origin = "structure"
			s := gen.ModStructure(r)
			in = s.Text
			if c.Want(id) {
				for site, n := range s.Placed {
					if n > 0 {
						c.Count("placed:"+gen.ModSiteNames[site], n)
					}
				}
			}
		case k < 17 && len(corpus) > 0:
			origin = "testdata-mutated"
			in = corpus[r.IntN(len(corpus))]
			for m := 1 + r.IntN(3); m > 0; m-- {
				if r.IntN(2) == 0 {
					in = gen.ModMutateBytes(r, in)
				} else {
					in = gen.ModMutateTokens(r, in)
				}
			}
		case k < 19:
			origin = "file-mutated"
			d, _ := c02Doc(r)
			in = d.Bytes()
			for m := 1 + r.IntN(3); m > 0; m-- {
				if r.IntN(2) == 0 {
					in = gen.ModMutateBytes(r, in)
				} else {
					in = gen.ModMutateTokens(r, in)
				}
			}
		default:
			origin = "spliced"
			a := gen.ModStructure(r).Text
			b := gen.ModStructure(r).Text
			in = gen.ModSplice(r, a, b)
		}
		if !c.Want(id) {
			continue
		}
		c02Syntax(c, id, origin, in)
	}

	// ---- directive layer ----------------------------------------------------------------
	rejected := 0
	for i := 0; i < nDoc; i++ {
		id := fmt.Sprintf("doc%d", i)
		d, kind := c02Doc(r)
		in := d.Bytes()
		fixed := r.IntN(2) == 0
		mutated := r.IntN(3) == 0
		if mutated {
			for m := 1 + r.IntN(2); m > 0; m-- {
				if r.IntN(2) == 0 {
					in = gen.ModMutateBytes(r, in)
				} else {
					in = gen.ModMutateTokens(r, in)
				}
			}
			kind += "-mutated"
		}
		if !c.Want(id) {
			continue
		}
		if d.NonCanonical {
			kind += "-noncanonical"
		}
		// A non-canonical version without a fixer is documented as an error but accepted by
		// the code; the statement only speaks about files that are accepted, so both outcomes
		// are fine there.
		mustAccept := !mutated && (fixed || !d.NonCanonical)
		c02Syntax(c, id, "file", in)
		c02Directive(c, id, kind, d.Work, in, fixed, mustAccept, &rejected)
	}
	if rejected > 0 {
		c.Inconclusive(fmt.Sprintf("the strict parser rejected %d unmutated well-formed generated files in batch %d (generator or parser lost reach; see samples a-well-formed-file-rejected)", rejected, c.Batch))
	}
}
