package props

// C05 — a created module zip extracts to exactly the valid files (DESIGN.md §5.5).
//
// Monitored pipeline per generated list: CheckFiles, Create, own archive
// reader + own restriction checker, CheckZip, Unzip into a sandbox, tree
// comparison, snapshot of everything around the target directory.

import (
	"bytes"
	"encoding/json"
	"errors"
	"fmt"
	"io"
	"io/fs"
	"os"
	"strings"

	"golang.org/x/mod/module"
	mzip "golang.org/x/mod/zip"

	"verif/harness/fsbox"
	"verif/harness/gen"
	"verif/harness/mon"
	"verif/harness/ref/refzip"
)

func init() { Registry["C05"] = runC05 }

type c05Case struct {
	id     string
	family string // honest | bad-module | lying-longer | lying-shorter | declared-only | big
	theme  string
	mod    gen.ZModule
	files  []*gen.ZFile
}

func c05Witness(cs *c05Case) map[string]any {
	return map[string]any{"family": cs.family, "theme": cs.theme, "module": mon.QS(cs.mod.Path), "version": mon.QS(cs.mod.Version),
		"files": zipcDescribe(cs.files)}
}

func runC05(c *mon.Ctx) {
	r := c.Rng
	base, err := fsbox.Base(fmt.Sprintf("c05-b%d-", c.Batch))
	if err != nil {
		c.Inconclusive("cannot create sandbox base: " + err.Error())
		return
	}
	defer os.RemoveAll(base)

	opts := gen.ZOpts{MaxFiles: c.Scale(12, 40), MaxData: c.Scale(64, 256), Modes: true}
	n := c.Share(c.Scale(18_000, 300_000))
	for i := 0; i < n; i++ {
		cs := &c05Case{id: fmt.Sprintf("l%d", i), family: "honest", mod: gen.ZGoodModule(r)}
		o := opts
		switch t := r.IntN(100); {
		case t < 68:
		case t < 78:
			cs.family = "bad-module"
			cs.mod = gen.ZBadModule(r)
		case t < 85:
			cs.family = "lying-longer"
		case t < 90:
			cs.family = "lying-shorter"
		default:
			cs.family = "declared-only"
			o.FakeSize = true
		}
		cs.files, cs.theme = gen.ZList(r, o)
		switch cs.family {
		case "lying-longer", "lying-shorter":
			// the content served by Open is longer / shorter than Lstat says
			k := 1 + r.IntN(3)
			for ; k > 0; k-- {
				f := cs.files[r.IntN(len(cs.files))]
				d := int64(gen.Pick(r, []int{1, 1, 2, 5, 17}))
				if cs.family == "lying-longer" {
					if f.Sz >= d && r.IntN(2) == 0 {
						f.Sz -= d
					} else {
						f.Data = append(append([]byte(nil), f.Data...), bytes.Repeat([]byte{'+'}, int(d))...)
					}
				} else {
					f.Sz += d
				}
			}
		}
		if !c.Want(cs.id) {
			continue
		}
		c05Run(c, cs, base)
	}

	// Sizes at the documented per-file limits with honest (streamed, never held in memory) content.
	for k := 0; k < 4; k++ {
		id := fmt.Sprintf("big%d", k)
		if !c.Mine(k) || !c.Want(id) {
			continue
		}
		name := []string{"go.mod", "LICENSE"}[k%2]
		sz := int64(refzip.MaxGoMod)
		if k >= 2 {
			sz++
		}
		cs := &c05Case{id: id, family: "big", theme: "at-limit", mod: gen.ZModule{Path: "example.com/m", Version: "v1.0.0", Intent: "plain"},
			files: []*gen.ZFile{{P: name, M: 0o644, Sz: sz, Zeros: sz}, {P: "a.go", M: 0o644, Sz: 3, Data: []byte("abc")}}}
		c05Run(c, cs, base)
	}

	// A LICENSE below the root is an ordinary file: the per-file limit is for the root LICENSE only.
	if id := "big-license-in-subdirectory"; c.Mine(9) && c.Want(id) {
		sz := int64(refzip.MaxGoMod) + 1
		cs := &c05Case{id: id, family: "big", theme: "limit-does-not-apply-below-root", mod: gen.ZModule{Path: "example.com/m", Version: "v1.0.0", Intent: "plain"},
			files: []*gen.ZFile{{P: "third_party/dep/LICENSE", M: 0o644, Sz: sz, Zeros: sz}, {P: "LICENSE", M: 0o644, Sz: 3, Data: []byte("MIT")}, {P: "a.go", M: 0o644, Sz: 3, Data: []byte("abc")}}}
		c05Run(c, cs, base)
	}

	// A go.mod / LICENSE that grows past the per-file limit after the file check has looked at it: the first
	// Lstat reports a small size, later ones (and the content) the size over the limit. Creation may fail;
	// if it succeeds the archive is judged like any other (it must pass the zip check).
	for k := 0; k < 2; k++ {
		id := fmt.Sprintf("grow%d", k)
		if !c.Mine(7+k) || !c.Want(id) {
			continue
		}
		name := []string{"go.mod", "LICENSE"}[k]
		big := int64(refzip.MaxGoMod) + 1
		cs := &c05Case{id: id, family: "lying-grows-after-check", theme: "over-limit-on-second-look", mod: gen.ZModule{Path: "example.com/m", Version: "v1.0.0", Intent: "plain"},
			files: []*gen.ZFile{{P: name, M: 0o644, Sz: 100, LaterSz: big, Zeros: big}, {P: "a.go", M: 0o644, Sz: 3, Data: []byte("abc")}}}
		c05Run(c, cs, base)
	}

	// Thorough tier, one batch: the total size exactly at MaxZipFile and one byte above (streamed zeros;
	// the archive itself is small, the extraction is skipped for the large one).
	if !c.Quick() {
		for k := 0; k < 2; k++ {
			id := fmt.Sprintf("total%d", k)
			if !c.Mine(4+k) || !c.Want(id) {
				continue
			}
			sz := int64(refzip.MaxZipFile) - 3 + int64(k)
			cs := &c05Case{id: id, family: "big", theme: "total-at-limit", mod: gen.ZModule{Path: "example.com/m", Version: "v1.0.0", Intent: "plain"},
				files: []*gen.ZFile{{P: "zeros.bin", M: 0o644, Sz: sz, Zeros: sz}, {P: "a.go", M: 0o644, Sz: 3, Data: []byte("abc")}}}
			c05Run(c, cs, base)
		}
		// three files that exceed the limit only together (every consecutive pair stays below it)
		if id := "total-three"; c.Mine(6) && c.Want(id) {
			half := int64(refzip.MaxZipFile) / 2
			cs := &c05Case{id: id, family: "big", theme: "total-over-limit-by-three-files", mod: gen.ZModule{Path: "example.com/m", Version: "v1.0.0", Intent: "plain"},
				files: []*gen.ZFile{{P: "a.bin", M: 0o644, Sz: half, Zeros: half}, {P: "b.go", M: 0o644, Sz: 3, Data: []byte("abc")}, {P: "c.bin", M: 0o644, Sz: half, Zeros: half}}}
			c05Run(c, cs, base)
		}
	}

	if ents, err := os.ReadDir(base); err == nil && len(ents) > 0 && c.ReplayCase == "" {
		var names []string
		for _, e := range ents {
			names = append(names, e.Name())
		}
		c.Violation("created-outside-sandbox", "batch-end", map[string]any{"left-in-sandbox-base": names})
	}
}

func c05Run(c *mon.Ctx, cs *c05Case, base string) {
	wit := func() any { return c05Witness(cs) }
	if b, err := json.Marshal(c05Witness(cs)); err == nil {
		c.WAL(cs.id, b)
	}
	mv := module.Version{Path: cs.mod.Path, Version: cs.mod.Version}
	modOK, modWhy, modUnspec := refzip.CheckModule(cs.mod.Path, cs.mod.Version)

	var cf mzip.CheckedFiles
	var cfErr, crErr error
	var buf bytes.Buffer
	if c.Guard(cs.id, wit, func() {
		cf, cfErr = mzip.CheckFiles(zipcFiles(cs.files))
		for _, f := range cs.files {
			f.Lstats = 0 // each of the two calls starts with the file as it was first seen
		}
		crErr = mzip.Create(&buf, mv, zipcFiles(cs.files))
	}) {
		return
	}
	c.Eval(1)
	c.Class("family:" + cs.family + ":create-ok=" + fmt.Sprint(crErr == nil))

	if modUnspec != "" {
		c.Class("unspecified:module:" + modUnspec)
		return
	}
	if !modOK {
		c.Class("module-rejected:" + modWhy)
		if crErr == nil {
			c.Violation("create-accepts-invalid-module", cs.id, map[string]any{"case": wit(), "broken-rule": modWhy, "bytes-written": buf.Len()})
		} else if buf.Len() > 0 {
			c.Class("invalid-module:bytes-written-before-failing")
		}
		return
	}
	c.Class("module:" + cs.mod.Intent)
	c.Class("theme:" + cs.theme + ":create-ok=" + fmt.Sprint(crErr == nil))

	switch cs.family {
	case "honest", "big":
		// files whose content has the size they report: creation succeeds exactly when the file check reports no error
		if (crErr == nil) != (cfErr == nil) {
			c.Violation("create-vs-checkfiles", cs.id, map[string]any{"case": wit(), "create": zipcErrStr(crErr), "checkfiles": zipcErrStr(cfErr)})
			return
		}
		if crErr != nil {
			kind := "invalid-files"
			if cf.SizeError != nil {
				kind = "size-error"
			}
			c.Class("create-fails:" + kind)
		}
	default:
		// sizes lie: Create may fail for that reason alone, but never succeed when the file check fails
		if crErr == nil && cfErr != nil {
			c.Violation("create-succeeds-though-checkfiles-fails", cs.id, map[string]any{"case": wit(), "checkfiles": zipcErrStr(cfErr)})
			return
		}
		if cfErr == nil {
			c.Class("lying:" + cs.family + ":checkfiles-ok:create-ok=" + fmt.Sprint(crErr == nil))
		}
	}
	if crErr != nil {
		return
	}
	c.Sample("created", 3, wit())
	c05Pipeline(c, cs, mv, cf, buf.Bytes(), base)
	if cs.family == "honest" && buf.Len() > 0 && buf.Len() < 1<<20 {
		c05FailingWriter(c, cs, mv, buf.Len())
		c05FailingReader(c, cs, mv, cf)
	}
}

var c05ReadErrs = []error{errors.New("injected read fault"), io.ErrUnexpectedEOF, io.ErrClosedPipe, io.ErrNoProgress, fs.ErrClosed, io.ErrShortBuffer}

// c05FailingReader: the same creation again, with the reader of one file that belongs in the archive
// breaking off with an error part-way. Such a file has no content to put in the archive "byte for
// byte"; a creation that reports success has silently shipped a cut-off file.
func c05FailingReader(c *mon.Ctx, cs *c05Case, mv module.Version, cf mzip.CheckedFiles) {
	valid := map[string]bool{}
	for _, p := range cf.Valid {
		valid[p] = true
	}
	h := 0
	for _, ch := range cs.id {
		h = (h*31 + int(ch)) & 0xffffff
	}
	var victim *gen.ZFile
	for i := range cs.files {
		f := cs.files[(i+h)%len(cs.files)]
		if valid[f.P] && f.Zeros == 0 && len(f.Data) > 0 {
			victim = f
			break
		}
	}
	if victim == nil {
		return
	}
	victim.ReadErr = c05ReadErrs[h%len(c05ReadErrs)]
	victim.ReadErrAt = []int{0, 1, len(victim.Data) / 2, len(victim.Data) - 1, len(victim.Data)}[(h/7)%5]
	if (h/35)%3 == 0 {
		// the file cannot even be opened any more (it was there when the list was made)
		victim.OpenErr = []error{fs.ErrNotExist, fs.ErrPermission, &fs.PathError{Op: "open", Path: victim.P, Err: fs.ErrNotExist}, errors.New("injected open fault")}[(h/105)%4]
		victim.ReadErr = victim.OpenErr
	}
	defer func() { victim.ReadErr, victim.ReadErrAt, victim.OpenErr = nil, 0, nil }()
	var buf bytes.Buffer
	var err error
	wit := func() any {
		return map[string]any{"case": c05Witness(cs), "file": mon.QS(victim.P), "reader-fails-after": victim.ReadErrAt, "with": victim.ReadErr.Error()}
	}
	if c.Guard(cs.id, wit, func() { err = mzip.Create(&buf, mv, zipcFiles(cs.files)) }) {
		return
	}
	c.Eval(1)
	if err == nil {
		c.Violation("create-reports-success-though-reading-a-file-failed", cs.id, wit())
		return
	}
	if victim.OpenErr != nil {
		c.Class("failing-open:create-fails")
	} else {
		c.Class("failing-reader:create-fails:" + victim.ReadErr.Error())
	}
}

// c05CutWriter accepts limit bytes and then fails every write.
type c05CutWriter struct {
	limit, got int
}

func (w *c05CutWriter) Write(p []byte) (int, error) {
	if w.got+len(p) > w.limit {
		n := w.limit - w.got
		w.got = w.limit
		return n, errors.New("injected write fault: device full")
	}
	w.got += len(p)
	return len(p), nil
}

// c05FailingWriter: the same creation into a writer that fails at a point derived from the case id.
// The bytes the writer took are then a cut-off archive, which cannot pass the zip check, so a
// creation that reports success there is not one ("whenever creating ... succeeds, the archive passes").
func c05FailingWriter(c *mon.Ctx, cs *c05Case, mv module.Version, size int) {
	h := 0
	for _, ch := range cs.id {
		h = h*31 + int(ch)
	}
	if h < 0 {
		h = -h
	}
	cuts := []int{0, 1, size / 2, size - 1, h % size}
	cut := cuts[h%len(cuts)]
	w := &c05CutWriter{limit: cut}
	var err error
	if c.Guard(cs.id, func() any { return c05Witness(cs) }, func() { err = mzip.Create(w, mv, zipcFiles(cs.files)) }) {
		return
	}
	c.Eval(1)
	if err == nil {
		c.Violation("create-reports-success-though-the-writer-failed", cs.id, map[string]any{"case": c05Witness(cs), "archive-size": size, "writer-failed-after": cut})
		return
	}
	c.Class("failing-writer:create-fails")
}

// c05Pipeline feeds a created archive back through the own reader, CheckZip and Unzip.
func c05Pipeline(c *mon.Ctx, cs *c05Case, mv module.Version, cf mzip.CheckedFiles, zb []byte, base string) {
	wit := func() any { return c05Witness(cs) }
	prefix := cs.mod.Path + "@" + cs.mod.Version + "/"

	// what must come out: the files reported as valid, with the bytes their Open serves
	byPath := map[string]*gen.ZFile{}
	for _, f := range cs.files {
		if _, ok := byPath[f.P]; !ok {
			byPath[f.P] = f
		}
	}
	want := zipcWant{}
	zeroSum := map[int64]string{}
	for _, p := range cf.Valid {
		f := byPath[p]
		if f == nil {
			c.Violation("checkfiles-valid-unknown-path", cs.id, map[string]any{"case": wit(), "path": mon.QS(p)})
			return
		}
		if f.Zeros > 0 {
			if zeroSum[f.Zeros] == "" {
				zeroSum[f.Zeros] = zipcZeroSum(f.Zeros)
			}
			want[p] = zipcWantOf(f.Zeros, zeroSum[f.Zeros])
		} else {
			want[p] = zipcWantOf(int64(len(f.Data)), zipcSum(f.Data))
		}
	}
	if len(want) != len(cf.Valid) {
		c.Violation("checkfiles-valid-repeats-a-path", cs.id, map[string]any{"case": wit(), "valid": zipcQ(cf.Valid)})
		return
	}
	c.Class(fmt.Sprintf("created:valid=%s:dropped=%t", zipcBucket(len(cf.Valid)), len(cf.Valid) < len(cs.files)))

	// 1. own reader + own restriction checker
	ents, err := zipcReadArchive(zb)
	if err != nil {
		c.Violation("created-archive-unreadable", cs.id, map[string]any{"case": wit(), "err": err.Error()})
		return
	}
	c.Eval(1)
	broken, unspec := refzip.CheckArchive(cs.mod.Path, cs.mod.Version, zipcRefEntries(ents))
	for _, u := range unspec {
		c.Class("unspecified:" + u)
	}
	if len(broken) > 0 && len(unspec) == 0 {
		c.Violation("archive-breaks-restriction:"+broken[0].Rule, cs.id, map[string]any{"case": wit(), "broken": fmt.Sprintf("%q", broken)})
		return
	}
	got := zipcWant{}
	for _, e := range ents {
		if e.Err != "" {
			c.Violation("created-archive-entry-unreadable", cs.id, map[string]any{"case": wit(), "entry": mon.QS(e.Name), "err": e.Err})
			return
		}
		if _, dup := got[strings.TrimPrefix(e.Name, prefix)]; dup || !strings.HasPrefix(e.Name, prefix) {
			c.Violation("archive-vs-valid", cs.id, map[string]any{"case": wit(), "entry": mon.QS(e.Name), "problem": "duplicate or unprefixed entry"})
			return
		}
		got[strings.TrimPrefix(e.Name, prefix)] = zipcWantOf(int64(e.Size), e.Sum)
	}
	if len(got) != len(want) {
		c.Violation("archive-vs-valid", cs.id, map[string]any{"case": wit(), "entries": len(got), "valid": zipcQ(cf.Valid)})
		return
	}
	for p, w := range want {
		if got[p] != w {
			c.Violation("archive-vs-valid", cs.id, map[string]any{"case": wit(), "path": mon.QS(p), "in-archive": got[p], "want": w})
			return
		}
	}

	// 2. CheckZip and Unzip in a sandbox
	box, err := fsbox.New(base, cs.id)
	if err != nil {
		c.Inconclusive("sandbox: " + err.Error())
		return
	}
	defer box.Remove()
	if err := os.WriteFile(box.Zip, zb, 0o644); err != nil {
		c.Inconclusive("sandbox: " + err.Error())
		return
	}
	before := fsbox.Snapshot(box.Root, false)
	var total int64
	for _, e := range ents {
		total += int64(e.Size)
	}
	large := total > 64<<20 // never written to disk
	var cz mzip.CheckedFiles
	var czErr, uzErr error
	if c.Guard(cs.id, wit, func() {
		cz, czErr = mzip.CheckZip(mv, box.Zip)
		if !large {
			uzErr = mzip.Unzip(box.Target, mv, box.Zip)
		}
	}) {
		return
	}
	after := fsbox.Snapshot(box.Root, false)
	c.Eval(3)
	if czErr != nil || len(cz.Invalid) > 0 || cz.SizeError != nil {
		c.Violation("checkzip-rejects-created-archive", cs.id, map[string]any{"case": wit(), "err": zipcErrStr(czErr), "invalid": zipcQ(zipcErrPaths(cz.Invalid))})
		return
	}
	var names []string
	for _, e := range ents {
		names = append(names, e.Name)
	}
	if !zipcEqual(zipcSorted(cz.Valid), zipcSorted(names)) {
		c.Violation("checkzip-valid-differs-from-entries", cs.id, map[string]any{"case": wit(), "valid": zipcQ(cz.Valid), "entries": zipcQ(names)})
		return
	}
	if large {
		c.Class("pipeline-ok:extraction-skipped-for-large-archive")
		return
	}
	if uzErr != nil {
		c.Violation("unzip-fails-on-created-archive", cs.id, map[string]any{"case": wit(), "err": zipcErrStr(uzErr)})
		return
	}
	if out := fsbox.Outside(before, after, "l1/l2/target"); len(out) > 0 {
		c.Violation("created-outside-target", cs.id, map[string]any{"case": wit(), "changes": fmt.Sprintf("%q", out)})
		return
	}
	if d := zipcTreeDiff(after.Under("l1/l2/target"), want, nil); d != "" {
		c.Violation("extracted-tree-differs-from-valid-files", cs.id, map[string]any{"case": wit(), "diff": d, "valid": zipcQ(cf.Valid)})
		return
	}
	c.Class("pipeline-ok")
	c.Count("files-extracted", len(want))
}
