package props

// C08 — go.mod and go.work edit operations do what a simple set/map model says.
//
// Workload: generated starting files (gen/editgen.go) × sessions of 1…12
// documented edit operations with valid arguments from a small universe,
// Cleanup before every bulk set and at the end. Oracle: ref/refmodfile run in
// lockstep; after the session the formatted file must parse strictly, its
// directive multiset must equal the model's, and every starting-file line that
// no operation targeted and that the documented de-duplication did not remove
// must still carry its own tagged leading and end-of-line comments.

import (
	"fmt"
	"strings"

	"verif/harness/gen"
	"verif/harness/mon"
	"verif/harness/ref/refmodfile"
)

func init() { Registry["C08"] = runC08 }

func runC08(c *mon.Ctx) {
	nMod := c.Share(c.Scale(120_000, 2_200_000))
	nWork := c.Share(c.Scale(48_000, 800_000))
	for i := 0; i < nMod; i++ {
		c08Session(c, false, fmt.Sprintf("m%d", i))
	}
	for i := 0; i < nWork; i++ {
		c08Session(c, true, fmt.Sprintf("w%d", i))
	}
}

// c08Key is the collection key an operation addresses (for the
// drop-then-add-without-Cleanup observation).
func c08Key(op ceditOp) (key string, add, drop, flush bool) {
	switch op.Kind {
	case "AddRequire", "AddNewRequire":
		return "require " + op.S[0], true, false, false
	case "DropRequire":
		return "require " + op.S[0], false, true, false
	case "AddExclude":
		return "exclude " + op.S[0] + " " + op.S[1], true, false, false
	case "DropExclude":
		return "exclude " + op.S[0] + " " + op.S[1], false, true, false
	case "AddReplace":
		return "replace " + op.S[0] + " " + op.S[1], true, false, false
	case "DropReplace":
		return "replace " + op.S[0] + " " + op.S[1], false, true, false
	case "AddRetract":
		return "retract " + op.S[0] + " " + op.S[1], true, false, false
	case "DropRetract":
		return "retract " + op.S[0] + " " + op.S[1], false, true, false
	case "AddTool":
		return "tool " + op.S[0], true, false, false
	case "DropTool":
		return "tool " + op.S[0], false, true, false
	case "AddGodebug":
		return "godebug " + op.S[0], true, false, false
	case "DropGodebug":
		return "godebug " + op.S[0], false, true, false
	case "AddUse":
		return "use " + op.S[0], true, false, false
	case "DropUse":
		return "use " + op.S[0], false, true, false
	case "AddGoStmt":
		return "go", true, false, false
	case "DropGoStmt":
		return "go", false, true, false
	case "AddToolchainStmt":
		return "toolchain", true, false, false
	case "DropToolchainStmt":
		return "toolchain", false, true, false
	case "Cleanup", "SetRequire", "SetRequireSeparateIndirect", "SetUse":
		return "", false, false, true
	}
	return "", false, false, false
}

func c08Session(c *mon.Ctx, work bool, id string) {
	r := c.Rng
	// All random choices of the session are drawn before the replay filter.
	ef := gen.EditGenFile(r, gen.EditOpts{Work: work})
	ops := ceditGenOps(r, work, 1+r.IntN(12))
	if !c.Want(id) {
		return
	}
	kind := "mod"
	if work {
		kind = "work"
	}
	run := &ceditRun{File: ef, Ops: ops}
	c.WAL(id, []byte(ef.Text+"\n--ops--\n"+strings.Join(ceditOpStrings(ops), "\n")))
	if c.Guard(id, func() any { return run.witness() }, func() { ceditExec(run) }) {
		return
	}
	if run.StartErr != nil {
		c.Inconclusive(fmt.Sprintf("generated starting file does not parse (%s): %v\n%s", id, run.StartErr, ef.Text))
		return
	}
	c.Eval(1)
	c.Count("sessions:"+kind, 1)
	c.Count("operations", len(ops))
	for _, s := range ceditFileShape(ef) {
		c.Class(s)
	}
	c.Class(fmt.Sprintf("session:%s:len=%d", kind, len(ops)))
	pending := map[string]bool{}
	for i, op := range ops {
		c.Class("op:" + kind + ":" + op.Kind + ":" + run.Effects[i])
		for _, d := range run.Dedups[i] {
			c.Class("dedup:" + kind + ":" + op.Kind + ":" + d)
			c.Class("dedup:" + d)
		}
		key, add, drop, flush := c08Key(op)
		switch {
		case flush:
			pending = map[string]bool{}
		case drop && run.Effects[i] != "none" && run.Effects[i] != "absent":
			pending[key] = true
		case add && pending[key]:
			c.Class("seq:" + kind + ":drop-then-add-before-cleanup:" + strings.Fields(key)[0])
			delete(pending, key)
		}
	}
	if len(run.Errs) > 0 {
		c.Violation("op-rejected-valid-argument", id, run.witness())
		return
	}
	if run.ReparseErr != nil {
		w := run.witness()
		w["error"] = run.ReparseErr.Error()
		c.Violation("reparse", id, w)
		return
	}
	want := run.Model.Directives()
	var got []string
	if work {
		got = ceditDirsWork(run.Work2)
	} else {
		got = ceditDirsMod(run.Mod2, false)
	}
	if d := refmodfile.DiffMultiset(want, got); len(d) > 0 {
		w := run.witness()
		w["model_minus_file"] = d
		w["model"] = want
		w["file"] = got
		c.Violation("directives-differ-from-model:"+strings.Fields(d[0][1:])[0], id, w)
		return
	}
	c.Sample("session:"+kind, 2, map[string]any{"start": ef.Text, "ops": ceditOpStrings(ops), "out": string(run.Out)})

	// Comment survival of the lines no operation targeted.
	var idx map[string]*ceditTagLoc
	var dirs = ceditLineDirs(run.Mod2, run.Work2)
	if work {
		idx = ceditTagIndex(run.Work2.Syntax)
	} else {
		idx = ceditTagIndex(run.Mod2.Syntax)
	}
	byUID := ceditLinesByUID(ef)
	check := func(verb string, uid int, touched bool, want string) {
		if uid == 0 {
			return
		}
		el := byUID[uid]
		if !el.TagB && !el.TagS {
			return
		}
		res := ceditTagCheck(idx, dirs, el, want)
		if touched {
			// Lines an operation rewrote or a bulk setter kept are outside this
			// property's comment clause (C16 covers the bulk setters): observe only.
			if res == "" {
				c.Class("tags:targeted-line:" + verb + ":kept")
			} else {
				c.Class("tags:targeted-line:" + verb + ":changed")
			}
			return
		}
		c.Eval(1)
		form := "line"
		if el.InBlock {
			form = "block"
		}
		c.Class("tags:untouched:" + kind + ":" + verb + ":" + form + ":" + ceditTagKind(el))
		if res != "" {
			w := run.witness()
			w["line"] = want
			w["uid"] = uid
			w["problem"] = res
			c.Violation("comment-lost:"+verb, id, w)
		}
	}
	m := run.Model
	for _, s := range []struct {
		verb string
		st   refmodfile.Stmt
		want string
	}{{"module", m.Module, refmodfile.FmtModule(m.Module.Val)}, {"go", m.Go, refmodfile.FmtGo(m.Go.Val)}, {"toolchain", m.Toolchain, refmodfile.FmtToolchain(m.Toolchain.Val)}} {
		if s.st.Present {
			check(s.verb, s.st.UID, s.st.Touched, s.want)
		}
	}
	for _, q := range m.Req {
		check("require", q.UID, q.Touched, refmodfile.FmtRequire(q.Path, q.Vers, q.Indirect))
	}
	for _, q := range m.Exc {
		check("exclude", q.UID, false, refmodfile.FmtExclude(q.Path, q.Vers))
	}
	for _, q := range m.Rep {
		check("replace", q.UID, q.Touched, refmodfile.FmtReplace(q.OldPath, q.OldVers, q.NewPath, q.NewVers))
	}
	for _, q := range m.Ret {
		check("retract", q.UID, false, refmodfile.FmtRetract(q.Low, q.High))
	}
	for _, q := range m.Tool {
		check("tool", q.UID, false, refmodfile.FmtTool(q.Path))
	}
	for _, q := range m.Gdb {
		check("godebug", q.UID, q.Touched, refmodfile.FmtGodebug(q.Key, q.Value))
	}
	for _, q := range m.Use {
		check("use", q.UID, q.Touched, refmodfile.FmtUse(q.Path))
	}
}
