package props

// C17 — which files belong in a module zip is a fixed function of the tree (DESIGN.md §5.17).
//
// Part A: generated lists with fake Lstat results. CheckFiles is compared
// with the sequential reference classifier (ref/refzip) in nine orders of
// every list, and the order-independent facts are compared across the orders.
// Part B: trees of regular files and directories materialised in a sandbox:
// CheckDir vs CheckFiles, CreateFromDir vs Create(list).

import (
	"bytes"
	"encoding/json"
	"fmt"
	"io"
	"io/fs"
	"math/rand/v2"
	"os"
	"path/filepath"
	"sort"
	"strings"

	"golang.org/x/mod/module"
	mzip "golang.org/x/mod/zip"

	"verif/harness/fsbox"
	"verif/harness/gen"
	"verif/harness/mon"
	"verif/harness/ref/refzip"
)

func init() { Registry["C17"] = runC17 }

func runC17(c *mon.Ctx) {
	r := c.Rng
	// Part A: lists.
	opts := gen.ZOpts{MaxFiles: c.Scale(10, 24), MaxData: 8, Modes: true, FakeSize: true}
	n := c.Share(c.Scale(30_000, 500_000))
	for i := 0; i < n; i++ {
		id := fmt.Sprintf("l%d", i)
		files, theme := gen.ZList(r, opts)
		perms := c17Orders(r, len(files))
		if !c.Want(id) {
			continue
		}
		c17List(c, id, files, theme, perms)
	}

	// Part A': a root go.mod whose real content is exactly at (and one byte below) the documented size limit,
	// declares go 1.24 behind megabytes of comment, and comes with the files the two vendoring variants treat
	// differently: at the limit the file is still valid and its go version still counts.
	// One byte over the limit the go.mod itself is refused; the other files are still judged by the go version
	// it declares (a refused file is not a missing file).
	for k, sz := range []int{refzip.MaxGoMod - 1, refzip.MaxGoMod, refzip.MaxGoMod + 1} {
		id := fmt.Sprintf("gomod-at-limit%d", k)
		if !c.Mine(k) || !c.Want(id) {
			continue
		}
		head := "module example.com/m\n\n// padding follows\n"
		tail := "\ngo 1.24\n"
		pad := bytes.Repeat([]byte("// 0123456789 abcdefghijklmnopqrstuvwxyz ABCDEFGHIJKLMNOPQRSTUVWXYZ padding\n"), sz/70+1)
		data := append([]byte(head), pad[:sz-len(head)-len(tail)-1]...)
		data = append(append(data, '\n'), tail...)
		files := []*gen.ZFile{
			{P: "go.mod", M: 0o644, Sz: int64(len(data)), Data: data, GoVersion: "1.24", GoModKind: []string{"below-size-limit", "at-size-limit", "over-size-limit"}[k], Tag: "root-go.mod"},
			{P: "a.go", M: 0o644, Sz: 3, Data: []byte("abc")},
			{P: "vendor/modules.txt", M: 0o644, Sz: 1, Data: []byte("x")},
			{P: "pkg/vendor/vendor.go", M: 0o644, Sz: 1, Data: []byte("y")},
			{P: "vendor/x/y.go", M: 0o644, Sz: 1, Data: []byte("z")},
		}
		if len(data) != sz {
			c.Inconclusive(fmt.Sprintf("harness: go.mod padding gives %d bytes, wanted %d", len(data), sz))
			continue
		}
		c17List(c, id, files, "gomod-at-size-limit", [][]int{{0, 1, 2, 3, 4}, {4, 3, 2, 1, 0}})
	}

	// Part B: trees.
	base, err := fsbox.Base(fmt.Sprintf("c17-b%d-", c.Batch))
	if err != nil {
		c.Inconclusive("cannot create sandbox base: " + err.Error())
		return
	}
	defer os.RemoveAll(base)
	// a tree over the total size limit (one sparse file): the directory check and the list check must both
	// say so, and both ways of creating must fail
	for k, sz := range []int64{refzip.MaxZipFile + 1, refzip.MaxZipFile - 2} {
		id := fmt.Sprintf("tree-at-total-limit%d", k)
		if !c.Mine(3+k) || !c.Want(id) {
			continue
		}
		files := []*gen.ZFile{{P: "go.mod", M: 0o644, Sz: 21, Data: []byte("module example.com/m\n")}, {P: "a.go", M: 0o644, Sz: 1, Data: []byte("x")},
			{P: "big/blob.bin", M: 0o644, Sz: sz, Zeros: sz}}
		if k == 0 {
			c17Tree(c, id, files, "total-size-over-limit", base, 1)
		} else {
			c.Class("tree:total-size-just-below-limit-skipped") // creating would read half a gigabyte
		}
	}
	topts := gen.ZOpts{MaxFiles: c.Scale(10, 24), MaxData: c.Scale(32, 128), Plain: true}
	nt := c.Share(c.Scale(6_000, 100_000))
	for i := 0; i < nt; i++ {
		id := fmt.Sprintf("t%d", i)
		files, theme := gen.ZList(r, topts)
		seed := r.Uint64()
		if !c.Want(id) {
			continue
		}
		c17Tree(c, id, files, theme, base, seed)
	}
}

// c17Orders returns the identity, six PRNG permutations, the sorted order and its reverse
// (the last two are filled in by the caller, which knows the paths): here only index permutations.
func c17Orders(r *rand.Rand, n int) [][]int {
	out := make([][]int, 0, 7)
	id := make([]int, n)
	for i := range id {
		id[i] = i
	}
	out = append(out, id)
	for k := 0; k < 6; k++ {
		out = append(out, r.Perm(n))
	}
	return out
}

type c17Report struct {
	valid            []string // sorted multiset
	omitted, invalid []string // sorted sets
	sizeErr, err     bool
	class            map[string]string // path -> classes it appears in, e.g. "V", "O", "I", "VI"
}

func c17Digest(cf mzip.CheckedFiles, err error) c17Report {
	rep := c17Report{valid: zipcSorted(cf.Valid), omitted: zipcDedup(zipcErrPaths(cf.Omitted)), invalid: zipcDedup(zipcErrPaths(cf.Invalid)),
		sizeErr: cf.SizeError != nil, err: err != nil, class: map[string]string{}}
	seen := map[string]bool{}
	for _, p := range rep.valid {
		if !seen[p] {
			rep.class[p] += "V"
			seen[p] = true
		}
	}
	for _, p := range rep.omitted {
		rep.class[p] += "O"
	}
	for _, p := range rep.invalid {
		rep.class[p] += "I"
	}
	return rep
}

func c17List(c *mon.Ctx, id string, files []*gen.ZFile, theme string, perms [][]int) {
	wit := func() any { return map[string]any{"theme": theme, "files": zipcDescribe(files)} }
	if b, err := json.Marshal(wit()); err == nil {
		c.WAL(id, b)
	}
	// sorted order and its reverse
	idx := make([]int, len(files))
	for i := range idx {
		idx[i] = i
	}
	sort.SliceStable(idx, func(a, b int) bool { return files[idx[a]].P < files[idx[b]].P })
	rev := make([]int, len(idx))
	for i := range idx {
		rev[len(idx)-1-i] = idx[i]
	}
	perms = append(perms, idx, rev)

	distinct := true
	seen := map[string]bool{}
	for _, f := range files {
		if seen[f.P] {
			distinct = false
		}
		seen[f.P] = true
	}

	var first c17Report
	var firstRef refzip.Result
	var group map[string]bool // paths in a collision group (base order)
	for k, perm := range perms {
		order := make([]*gen.ZFile, len(perm))
		for i, j := range perm {
			order[i] = files[j]
		}
		rf := zipcRef(order)
		ref := refzip.Classify(rf)
		var cf mzip.CheckedFiles
		var err error
		w := func() any {
			return map[string]any{"theme": theme, "order": k, "files": zipcDescribe(order)}
		}
		if c.Guard(id, w, func() { cf, err = mzip.CheckFiles(zipcFiles(order)) }) {
			return
		}
		c.Eval(1)
		rep := c17Digest(cf, err)
		if k == 0 {
			first, firstRef = rep, ref
			c17Coverage(c, order, ref, theme)
		}

		// CheckFiles returns an error exactly when the report is not clean.
		if rep.err != (rep.sizeErr || len(rep.invalid) > 0) {
			c.Violation("err-vs-report", id, map[string]any{"case": w(), "err": zipcErrStr(err), "invalid": zipcQ(rep.invalid), "sizeError": rep.sizeErr})
			return
		}
		// every listed file lands in exactly one of the three lists
		if distinct {
			total := len(cf.Valid) + len(cf.Omitted) + len(cf.Invalid)
			bad := total != len(files)
			for _, f := range files {
				if len(rep.class[f.P]) != 1 {
					bad = true
				}
			}
			if bad {
				c.Violation("not-a-partition", id, map[string]any{"case": w(), "valid": zipcQ(cf.Valid), "omitted": zipcQ(zipcErrPaths(cf.Omitted)),
					"invalid": zipcQ(zipcErrPaths(cf.Invalid))})
				return
			}
		}
		if len(ref.Unspecified) > 0 {
			if k == 0 {
				for _, u := range zipcDedup(ref.Unspecified) {
					c.Class("unspecified:" + u)
				}
			}
			// nothing below is defined for this list (in any order)
			return
		}
		// against the reference classifier
		wv, wo, wi := ref.Lists(rf)
		if !zipcEqual(rep.valid, zipcSorted(wv)) || !zipcEqual(rep.omitted, zipcSetKeys(wo)) || !zipcEqual(rep.invalid, zipcSetKeys(wi)) {
			rules := make([]string, len(order))
			for i := range order {
				rules[i] = fmt.Sprintf("%q: %s (%s)", order[i].P, ref.Per[i].Class, ref.Per[i].Rule)
			}
			c.Violation("classification", id, map[string]any{"case": w(), "got-valid": zipcQ(rep.valid), "got-omitted": zipcQ(rep.omitted),
				"got-invalid": zipcQ(rep.invalid), "reference": rules, "go>=1.24": ref.NewVendorRule})
			return
		}
		if ref.SizeErrorUnspecified {
			if k == 0 {
				c.Class("unspecified:size-error-with-oversized-limited-file-or-negative-size")
			}
		} else {
			if rep.sizeErr != ref.SizeError {
				c.Violation("size-error", id, map[string]any{"case": w(), "got": rep.sizeErr, "want": ref.SizeError})
				return
			}
			if rep.err != ref.MustFail() {
				c.Violation("err-vs-reference", id, map[string]any{"case": w(), "err": zipcErrStr(err), "reference-must-fail": ref.MustFail()})
				return
			}
		}

		// order-independent facts, compared between the orders themselves
		if k == 0 {
			group = map[string]bool{}
			for i, in := range refzip.ConflictGroup(rf, ref.Per) {
				if in {
					group[order[i].P] = true
				}
			}
			if len(group) > 0 {
				c.Class("perm:with-collision-group")
			} else {
				c.Class("perm:collision-free")
			}
			continue
		}
		if !firstRef.SizeErrorUnspecified && rep.err != first.err {
			c.Violation("perm-err", id, map[string]any{"case": w(), "err-in-order-0": first.err, "err-now": rep.err})
			return
		}
		for p, cl := range rep.class {
			if !group[p] && first.class[p] != cl {
				c.Violation("perm-class", id, map[string]any{"case": w(), "path": mon.QS(p), "class-in-order-0": first.class[p], "class-now": cl})
				return
			}
		}
		if len(group) > 0 {
			differs := !zipcEqual(rep.invalid, first.invalid)
			if differs {
				c.Class("perm:blame-moves-within-group")
			}
		}
	}
}

// c17Coverage records which rule decided which way, and the go-version / vendor interplay.
func c17Coverage(c *mon.Ctx, files []*gen.ZFile, ref refzip.Result, theme string) {
	c.Class("theme:" + theme)
	gm := "none"
	for _, f := range files {
		if f.P == "go.mod" {
			if f.M.IsRegular() {
				gm = f.GoModKind
				if f.GoVersion != "" {
					gm += ":" + f.GoVersion
				}
			} else {
				gm = "not-regular"
			}
		}
	}
	c.Class("root-go.mod:" + gm)
	for i, f := range files {
		v := ref.Per[i]
		c.Class("rule:" + v.Rule)
		if v.Rule == "collision:fold-collision" {
			ascii := true
			for i := 0; i < len(f.P); i++ {
				ascii = ascii && f.P[i] < 0x80
			}
			c.Class(fmt.Sprintf("fold-collision:ascii-only=%t", ascii))
		}
		if strings.HasPrefix(f.P, "vendor/") || strings.Contains(f.P, "/vendor/") {
			pos := "nested"
			if strings.HasPrefix(f.P, "vendor/") {
				pos = "root"
			}
			if f.P == "vendor/modules.txt" {
				pos = "modules.txt"
			}
			c.Class(fmt.Sprintf("vendor:%s:new-rule=%t:%s", pos, ref.NewVendorRule, v.Rule))
		}
		if strings.Contains(f.Tag, "+fakesize") && (f.P == "go.mod" || zipcBase(f.P) == "LICENSE") && f.M.IsRegular() {
			name := f.P
			if name != "go.mod" && name != "LICENSE" {
				name = "LICENSE-in-subdirectory"
			}
			c.Class(fmt.Sprintf("limit:%s:size-minus-max=%d:%s", name, c17Clamp(f.Sz-refzip.MaxGoMod), v.Rule))
		}
		if v.Rule == "nested-module" {
			c.Class("nested:by-" + strings.SplitN(f.Tag, "+", 2)[0])
		}
	}
	if ref.SizeError {
		c.Class("size-error")
	}
	c.Sample("list", 3, map[string]any{"files": zipcDescribe(files), "theme": theme})
}

func c17Clamp(d int64) int64 {
	if d < -1 {
		return -2
	}
	if d > 1 {
		return 2
	}
	return d
}

// c17OSFile is a file of a materialised tree.
type c17OSFile struct{ dir, p string }

func (f c17OSFile) Path() string { return f.p }
func (f c17OSFile) Lstat() (os.FileInfo, error) {
	return os.Lstat(filepath.Join(f.dir, filepath.FromSlash(f.p)))
}
func (f c17OSFile) Open() (io.ReadCloser, error) {
	return os.Open(filepath.Join(f.dir, filepath.FromSlash(f.p)))
}

var c17VCSDirs = map[string]bool{".git": true, ".hg": true, ".bzr": true, ".svn": true}

func c17Tree(c *mon.Ctx, id string, files []*gen.ZFile, theme string, base string, seed uint64) {
	box, err := fsbox.New(base, id)
	if err != nil {
		c.Inconclusive("sandbox: " + err.Error())
		return
	}
	defer box.Remove()
	dir := filepath.Join(box.Root, "tree")
	if err := os.Mkdir(dir, 0o777); err != nil {
		c.Inconclusive("sandbox: " + err.Error())
		return
	}
	// materialise what the file system takes: regular files and directories only, no VCS directories
	byPath := map[string]*gen.ZFile{}
	for _, f := range files {
		p := f.P
		if p == "" || strings.HasPrefix(p, "/") || strings.ContainsRune(p, 0) || filepath.ToSlash(filepath.Clean(filepath.FromSlash(p))) != p || strings.HasPrefix(p, "../") || p == ".." {
			continue
		}
		elems := strings.Split(p, "/")
		skip := false
		for _, e := range elems[:len(elems)-1] {
			if c17VCSDirs[e] || len(e) > 255 {
				skip = true
			}
		}
		if skip || len(elems[len(elems)-1]) > 255 {
			continue
		}
		full := filepath.Join(dir, filepath.FromSlash(p))
		if os.MkdirAll(filepath.Dir(full), 0o777) != nil {
			continue
		}
		fh, err := os.OpenFile(full, os.O_WRONLY|os.O_CREATE|os.O_EXCL, 0o644)
		if err != nil {
			continue
		}
		if f.Zeros > 0 {
			fh.Truncate(f.Zeros) // a sparse file: its size is all that the checks look at
		} else {
			fh.Write(f.Data)
		}
		fh.Close()
		byPath[p] = f
	}
	// the list of its files, in walk order (own walk)
	var paths []string
	filepath.WalkDir(dir, func(p string, d fs.DirEntry, err error) error {
		if err == nil && d.Type().IsRegular() {
			rel, _ := filepath.Rel(dir, p)
			paths = append(paths, filepath.ToSlash(rel))
		}
		return nil
	})
	if len(paths) != len(byPath) {
		c.Inconclusive(fmt.Sprintf("%s: tree has %d files, %d were written", id, len(paths), len(byPath)))
		return
	}
	list := make([]mzip.File, len(paths))
	rf := make([]refzip.File, len(paths))
	for i, p := range paths {
		list[i] = c17OSFile{dir, p}
		rf[i] = refzip.File{Path: p, Kind: refzip.Regular, Size: int64(len(byPath[p].Data)), GoVersion: byPath[p].GoVersion}
		if byPath[p].Zeros > 0 {
			rf[i].Size = byPath[p].Zeros
		}
	}
	wit := func() any { return map[string]any{"theme": theme, "tree": zipcQ(paths), "files": zipcDescribe(files)} }
	if b, err := json.Marshal(wit()); err == nil {
		c.WAL(id, b)
	}
	ref := refzip.Classify(rf)
	mv := module.Version{Path: "example.com/m", Version: "v1.0.0"}

	var cd, cl mzip.CheckedFiles
	var cdErr, clErr, crdErr, crlErr error
	var zd, zl bytes.Buffer
	if c.Guard(id, wit, func() {
		cd, cdErr = mzip.CheckDir(dir)
		cl, clErr = mzip.CheckFiles(list)
		crdErr = mzip.CreateFromDir(&zd, mv, dir)
		crlErr = mzip.Create(&zl, mv, list)
	}) {
		return
	}
	c.Eval(2)
	strip := func(ps []string) ([]string, bool) {
		out := make([]string, len(ps))
		for i, p := range ps {
			rel, err := filepath.Rel(dir, p)
			if err != nil || rel == ".." || strings.HasPrefix(rel, "../") {
				return nil, false
			}
			out[i] = filepath.ToSlash(rel)
		}
		return zipcSorted(out), true
	}
	dv, ok1 := strip(cd.Valid)
	di, ok2 := strip(zipcErrPaths(cd.Invalid))
	if !ok1 || !ok2 {
		c.Violation("checkdir-path-not-under-dir", id, map[string]any{"case": wit(), "dir": dir, "valid": zipcQ(cd.Valid), "invalid": zipcQ(zipcErrPaths(cd.Invalid))})
		return
	}
	lv, li := zipcSorted(cl.Valid), zipcSorted(zipcErrPaths(cl.Invalid))
	shape := fmt.Sprintf("tree:%s:files=%s:list-err=%t", theme, zipcBucket(len(paths)), clErr != nil)
	c.Class(shape)
	if !zipcEqual(dv, lv) || !zipcEqual(di, li) || (cdErr == nil) != (clErr == nil) {
		c.Violation("checkdir-vs-checkfiles", id, map[string]any{"case": wit(), "dir-valid": zipcQ(dv), "list-valid": zipcQ(lv), "dir-invalid": zipcQ(di),
			"list-invalid": zipcQ(li), "dir-err": zipcErrStr(cdErr), "list-err": zipcErrStr(clErr)})
		return
	}
	// the list check against the reference (same oracle as part A, on real files)
	if len(ref.Unspecified) == 0 {
		wv, _, wi := ref.Lists(rf)
		if !zipcEqual(lv, zipcSorted(wv)) || !zipcEqual(li, zipcSetKeys(wi)) {
			c.Violation("tree-classification", id, map[string]any{"case": wit(), "got-valid": zipcQ(lv), "got-invalid": zipcQ(li), "want-valid": zipcQ(zipcSorted(wv)),
				"want-invalid": zipcQ(zipcSetKeys(wi))})
			return
		}
		omittedDirs := 0
		for _, o := range cd.Omitted {
			if strings.Contains(o.Err.Error(), "directory") {
				omittedDirs++
			}
		}
		if omittedDirs > 0 {
			c.Class("tree:directory-omitted-as-a-whole")
		}
		for i := range rf {
			if ref.Per[i].Class != refzip.Valid {
				c.Class("tree-rule:" + ref.Per[i].Rule)
			}
		}
	} else {
		c.Class("unspecified:tree:" + ref.Unspecified[0])
	}
	// a collision-free tree gives the same sets for any order of the list
	inGroup := false
	for _, in := range refzip.ConflictGroup(rf, ref.Per) {
		inGroup = inGroup || in
	}
	if !inGroup {
		pr := rand.New(rand.NewPCG(seed, 17))
		sh := append([]mzip.File(nil), list...)
		pr.Shuffle(len(sh), func(i, j int) { sh[i], sh[j] = sh[j], sh[i] })
		var cs mzip.CheckedFiles
		var csErr error
		if c.Guard(id, wit, func() { cs, csErr = mzip.CheckFiles(sh) }) {
			return
		}
		c.Eval(1)
		if !zipcEqual(dv, zipcSorted(cs.Valid)) || !zipcEqual(di, zipcSorted(zipcErrPaths(cs.Invalid))) || (csErr == nil) != (cdErr == nil) {
			c.Violation("checkdir-vs-shuffled-checkfiles", id, map[string]any{"case": wit(), "dir-valid": zipcQ(dv), "shuffled-valid": zipcQ(zipcSorted(cs.Valid)),
				"dir-invalid": zipcQ(di), "shuffled-invalid": zipcQ(zipcSorted(zipcErrPaths(cs.Invalid)))})
			return
		}
		c.Class("tree:collision-free-shuffled")
	} else {
		c.Class("tree:with-collision-group")
	}

	// CreateFromDir and Create(list) succeed or fail together and include the same files with the same content
	c.Eval(1)
	if (crdErr == nil) != (crlErr == nil) {
		c.Violation("createfromdir-vs-create", id, map[string]any{"case": wit(), "fromdir": zipcErrStr(crdErr), "create": zipcErrStr(crlErr)})
		return
	}
	c.Class(fmt.Sprintf("tree:create-ok=%t", crdErr == nil))
	if crdErr != nil {
		return
	}
	ed, err1 := zipcReadArchive(zd.Bytes())
	el, err2 := zipcReadArchive(zl.Bytes())
	if err1 != nil || err2 != nil {
		c.Violation("created-archive-unreadable", id, map[string]any{"case": wit(), "fromdir": fmt.Sprint(err1), "create": fmt.Sprint(err2)})
		return
	}
	key := func(es []zipcEntry) []string {
		out := make([]string, len(es))
		for i, e := range es {
			out[i] = fmt.Sprintf("%q size=%d sha256=%s err=%s", e.Name, e.Size, e.Sum, e.Err)
		}
		return zipcSorted(out)
	}
	kd, kl := key(ed), key(el)
	if !zipcEqual(kd, kl) {
		c.Violation("createfromdir-vs-create-entries", id, map[string]any{"case": wit(), "fromdir": kd, "create": kl})
		return
	}
	// and these are the valid files with the content on disk
	want := make([]string, 0, len(lv))
	for _, p := range lv {
		d := byPath[p].Data
		want = append(want, fmt.Sprintf("%q size=%d sha256=%s err=", "example.com/m@v1.0.0/"+p, len(d), zipcSum(d)))
	}
	if !zipcEqual(kd, zipcSorted(want)) {
		c.Violation("created-entries-vs-valid-files", id, map[string]any{"case": wit(), "entries": kd, "want": zipcSorted(want)})
		return
	}
	c.Sample("tree", 2, map[string]any{"tree": zipcQ(paths), "valid": zipcQ(lv), "invalid": zipcQ(li)})
}
