package props

// Shared machinery of the modfile edit engines C08, C15 and C16: the session
// generator (operations with arguments from the small universe of
// gen/editgen.go), the runner that drives the real modfile.File / WorkFile and
// the reference model ref/refmodfile in lockstep, and the observation helpers
// (directive multisets, tag index of a syntax tree). Each engine decides only
// its own property on top of this.

import (
	"fmt"
	"math/rand/v2"
	"sort"
	"strings"

	"golang.org/x/mod/modfile"

	"verif/harness/gen"
	"verif/harness/ref/refmodfile"
)

// ceditOp is one edit operation with its (valid) arguments.
type ceditOp struct {
	Kind string
	S    [4]string
	B    bool
	Reqs []refmodfile.Req // SetRequire / SetRequireSeparateIndirect
	Dirs []string         // SetUse
}

func (o ceditOp) String() string {
	switch o.Kind {
	case "SetRequire", "SetRequireSeparateIndirect":
		var s []string
		for _, q := range o.Reqs {
			x := q.Path + "@" + q.Vers
			if q.Indirect {
				x += "(indirect)"
			}
			s = append(s, x)
		}
		return "Cleanup;" + o.Kind + "[" + strings.Join(s, " ") + "]"
	case "SetUse":
		return fmt.Sprintf("Cleanup;SetUse%q", o.Dirs)
	case "AddNewRequire":
		return fmt.Sprintf("AddNewRequire(%s,%s,indirect=%t)", o.S[0], o.S[1], o.B)
	case "AddRetract":
		return fmt.Sprintf("AddRetract([%s,%s],%q)", o.S[0], o.S[1], o.S[2])
	case "AddReplace":
		return fmt.Sprintf("AddReplace(%s,%q,%s,%q)", o.S[0], o.S[1], o.S[2], o.S[3])
	case "DropReplace":
		return fmt.Sprintf("DropReplace(%s,%q)", o.S[0], o.S[1])
	case "RefusedAddExclude", "RefusedAddRetract":
		return fmt.Sprintf("%s(%q,%q)", o.Kind, o.S[0], o.S[1])
	case "RefusedAddGoStmt", "RefusedAddToolchainStmt":
		return fmt.Sprintf("%s(%q)", o.Kind, o.S[0])
	}
	var a []string
	for _, s := range o.S {
		if s != "" {
			a = append(a, s)
		}
	}
	return o.Kind + "(" + strings.Join(a, ",") + ")"
}

func ceditOpStrings(ops []ceditOp) []string {
	s := make([]string, len(ops))
	for i, o := range ops {
		s[i] = o.String()
	}
	return s
}

var ceditModKinds = []string{
	"AddRequire", "AddRequire", "AddNewRequire", "DropRequire",
	"SetRequire", "SetRequireSeparateIndirect",
	"AddExclude", "AddExclude", "DropExclude",
	"AddReplace", "AddReplace", "AddReplace", "DropReplace", "DropReplace",
	"AddRetract", "AddRetract", "DropRetract",
	"AddTool", "AddTool", "DropTool",
	"AddGodebug", "AddGodebug", "DropGodebug",
	"AddGoStmt", "DropGoStmt", "AddToolchainStmt", "DropToolchainStmt", "AddModuleStmt",
	"Cleanup",
	// operations the library refuses (see ceditRefused): the call must leave nothing behind
	"RefusedAddExclude", "RefusedAddRetract", "RefusedAddGoStmt", "RefusedAddToolchainStmt",
}

var ceditWorkKinds = []string{
	"AddUse", "AddUse", "DropUse", "SetUse", "SetUse",
	"AddGodebug", "AddGodebug", "DropGodebug",
	"AddReplace", "AddReplace", "AddReplace", "DropReplace", "DropReplace",
	"AddGoStmt", "DropGoStmt", "AddToolchainStmt", "DropToolchainStmt",
	"Cleanup",
	"RefusedAddGoStmt", "RefusedAddToolchainStmt",
}

// Arguments the edit operations document (or are written) to refuse. A refused
// call is part of "any sequence of edit operations": the session goes on, the
// model does not change, and what the structure and the formatted file hold
// afterwards is compared as usual. Were such a call accepted, the formatted
// file would not parse strictly.
var (
	ceditBadVers       = []string{"v1.2", "v1", "1.2.3", "v1.0.0+meta", "", "v01.2.3", "v1.2.3.4", "latest"}
	ceditBadGoVersions = []string{"1.21.x", "go1.21", "1.21.", "v1.21", "1.021", "", "1", "1.21-rc1"}
	ceditBadToolchains = []string{"1.21.0", "go2", "go12", "local", "", "Go1.21", "go"}
)

// ceditReqList draws a requested requirement list with distinct paths.
func ceditReqList(r *rand.Rand, max int) []refmodfile.Req {
	n := r.IntN(max + 1)
	perm := r.Perm(len(gen.EditPaths))
	var l []refmodfile.Req
	for i := 0; i < n && i < len(perm); i++ {
		p := gen.EditPaths[perm[i]]
		l = append(l, refmodfile.Req{Path: p, Vers: gen.Pick(r, gen.EditVers[p]), Indirect: r.IntN(2) == 0})
	}
	return l
}

// ceditUseList draws a requested use list with distinct directories.
func ceditUseList(r *rand.Rand, max int) []string {
	n := r.IntN(max + 1)
	perm := r.Perm(len(gen.EditUseDirs))
	var l []string
	for i := 0; i < n && i < len(perm); i++ {
		l = append(l, gen.EditUseDirs[perm[i]])
	}
	return l
}

// ceditGenOpKind draws the arguments of an operation of the given kind.
func ceditGenOpKind(r *rand.Rand, kind string) ceditOp {
	op := ceditOp{Kind: kind}
	p := gen.Pick(r, gen.EditPaths)
	v := gen.Pick(r, gen.EditVers[p])
	switch kind {
	case "AddRequire", "AddExclude", "DropExclude":
		op.S = [4]string{p, v}
	case "AddNewRequire":
		op.S = [4]string{p, v}
		op.B = r.IntN(2) == 0
	case "DropRequire":
		op.S = [4]string{p}
	case "SetRequire", "SetRequireSeparateIndirect":
		op.Reqs = ceditReqList(r, 4)
		if len(op.Reqs) > 0 && r.IntN(6) == 0 {
			// "must specify at most one distinct version for each module path": naming a path twice with
			// the same version is allowed, and asks for one requirement
			k := r.IntN(len(op.Reqs))
			op.Reqs = append(op.Reqs, op.Reqs[k])
			if r.IntN(2) == 0 {
				op.Reqs[0], op.Reqs[len(op.Reqs)-1] = op.Reqs[len(op.Reqs)-1], op.Reqs[0]
			}
		}
	case "AddReplace":
		ov := v
		if r.IntN(2) == 0 {
			ov = ""
		}
		t := gen.Pick(r, gen.EditTargets)
		op.S = [4]string{p, ov, t[0], t[1]}
	case "DropReplace":
		ov := v
		if r.IntN(2) == 0 {
			ov = ""
		}
		op.S = [4]string{p, ov}
	case "AddRetract":
		vi := gen.Pick(r, gen.EditRetracts)
		op.S = [4]string{vi[0], vi[1], gen.Pick(r, []string{"why", "", "two\nlines", "why", "para one\n\npara two", "a\n\nb\nc", "\nstarts after an empty line", "\n\ntwo empty lines first"})}
	case "DropRetract":
		vi := gen.Pick(r, gen.EditRetracts)
		op.S = [4]string{vi[0], vi[1]}
	case "AddTool", "DropTool":
		op.S = [4]string{gen.Pick(r, gen.EditTools)}
	case "AddGodebug":
		op.S = [4]string{gen.Pick(r, gen.EditGodebugKey), gen.Pick(r, gen.EditGodebugVal)}
	case "DropGodebug":
		op.S = [4]string{gen.Pick(r, gen.EditGodebugKey)}
	case "AddGoStmt":
		op.S = [4]string{gen.Pick(r, gen.EditGoVersions)}
	case "AddToolchainStmt":
		op.S = [4]string{gen.Pick(r, gen.EditToolchains)}
	case "AddModuleStmt":
		op.S = [4]string{gen.Pick(r, gen.EditModules)}
	case "AddUse":
		op.S = [4]string{gen.Pick(r, gen.EditUseDirs), gen.Pick(r, []string{"", "x.com/mod"})}
	case "DropUse":
		op.S = [4]string{gen.Pick(r, gen.EditUseDirs)}
	case "SetUse":
		op.Dirs = ceditUseList(r, 4)
	case "RefusedAddExclude":
		switch r.IntN(3) {
		case 0: // the version belongs to another major version than the path
			q := gen.Pick(r, []string{"a.com/x", "c.com/z/v2"})
			op.S = [4]string{q, map[string]string{"a.com/x": "v2.0.0", "c.com/z/v2": "v1.2.3"}[q]}
		case 1: // a version of the file, not quite
			op.S = [4]string{p, strings.TrimSuffix(v, ".0") + "+meta"}
			if strings.Contains(v, "+") {
				op.S[1] = "v1.0"
			}
		default:
			op.S = [4]string{p, gen.Pick(r, ceditBadVers)}
		}
	case "RefusedAddRetract":
		vi := gen.Pick(r, gen.EditRetracts)
		bad := gen.Pick(r, ceditBadVers)
		switch r.IntN(3) {
		case 0:
			op.S = [4]string{bad, vi[1], "why"}
		case 1:
			op.S = [4]string{vi[0], bad, "why"}
		default:
			op.S = [4]string{bad, bad, ""}
		}
	case "RefusedAddGoStmt":
		op.S = [4]string{gen.Pick(r, ceditBadGoVersions)}
	case "RefusedAddToolchainStmt":
		op.S = [4]string{gen.Pick(r, ceditBadToolchains)}
	}
	return op
}

// ceditGenOps draws a session of n operations.
func ceditGenOps(r *rand.Rand, work bool, n int) []ceditOp {
	kinds := ceditModKinds
	if work {
		kinds = ceditWorkKinds
	}
	ops := make([]ceditOp, n)
	for i := range ops {
		ops[i] = ceditGenOpKind(r, gen.Pick(r, kinds))
	}
	return ops
}

// ceditModel initialises the reference model from the generator's description
// of the starting file (not from the parser under test).
func ceditModel(ef *gen.EditFile) *refmodfile.File {
	m := &refmodfile.File{Work: ef.Work}
	for _, l := range ef.Lines {
		switch l.Verb {
		case "module":
			m.Module = refmodfile.Stmt{Present: true, Val: l.A[0], UID: l.UID}
		case "go":
			m.Go = refmodfile.Stmt{Present: true, Val: l.A[0], UID: l.UID}
		case "toolchain":
			m.Toolchain = refmodfile.Stmt{Present: true, Val: l.A[0], UID: l.UID}
		case "require":
			m.Req = append(m.Req, refmodfile.Req{Path: l.A[0], Vers: l.A[1], Indirect: l.Indirect, UID: l.UID})
		case "exclude":
			m.Exc = append(m.Exc, refmodfile.Exc{Path: l.A[0], Vers: l.A[1], UID: l.UID})
		case "replace":
			m.Rep = append(m.Rep, refmodfile.Rep{OldPath: l.A[0], OldVers: l.A[1], NewPath: l.A[2], NewVers: l.A[3], UID: l.UID})
		case "retract":
			m.Ret = append(m.Ret, refmodfile.Ret{Low: l.A[0], High: l.A[1], UID: l.UID})
		case "tool":
			m.Tool = append(m.Tool, refmodfile.Tool{Path: l.A[0], UID: l.UID})
		case "godebug":
			m.Gdb = append(m.Gdb, refmodfile.Gdb{Key: l.A[0], Value: l.A[1], UID: l.UID})
		case "use":
			m.Use = append(m.Use, refmodfile.Use{Path: l.A[0], UID: l.UID})
		}
	}
	return m
}

// ceditOnSessionEntry reports whether op addresses an entry that an earlier
// operation of the same session created (the model marks those with UID 0).
func ceditOnSessionEntry(m *refmodfile.File, op ceditOp) bool {
	s := op.S
	switch op.Kind {
	case "AddRequire", "DropRequire":
		for _, q := range m.Req {
			if q.Path == s[0] && q.UID == 0 {
				return true
			}
		}
	case "DropExclude", "AddExclude":
		for _, q := range m.Exc {
			if q.Path == s[0] && q.Vers == s[1] && q.UID == 0 {
				return true
			}
		}
	case "AddReplace", "DropReplace":
		for _, q := range m.Rep {
			if q.OldPath == s[0] && (q.OldVers == s[1] || op.Kind == "AddReplace" && s[1] == "") && q.UID == 0 {
				return true
			}
		}
	case "DropRetract":
		for _, q := range m.Ret {
			if q.Low == s[0] && q.High == s[1] && q.UID == 0 {
				return true
			}
		}
	case "AddTool", "DropTool":
		for _, q := range m.Tool {
			if q.Path == s[0] && q.UID == 0 {
				return true
			}
		}
	case "AddGodebug", "DropGodebug":
		for _, q := range m.Gdb {
			if q.Key == s[0] && q.UID == 0 {
				return true
			}
		}
	case "AddUse", "DropUse":
		for _, q := range m.Use {
			if q.Path == s[0] && q.UID == 0 {
				return true
			}
		}
	case "AddGoStmt", "DropGoStmt":
		return m.Go.Present && m.Go.UID == 0
	case "AddToolchainStmt", "DropToolchainStmt":
		return m.Toolchain.Present && m.Toolchain.UID == 0
	}
	return false
}

// ceditRun is the record of one executed session.
type ceditRun struct {
	File    *gen.EditFile
	Ops     []ceditOp
	Effects []string   // model's effect label per operation
	Dedups  [][]string // de-duplication kinds that removed something, per operation
	OnNew   []bool     // the operation addressed an entry created earlier in the same session
	Errs    []string   // errors returned by operations (valid arguments: none expected)
	Model   *refmodfile.File

	Mod  *modfile.File // real structures after the session and the final Cleanup
	Work *modfile.WorkFile
	Out  []byte

	Mod2       *modfile.File // strict re-parse of Out
	Work2      *modfile.WorkFile
	ReparseErr error
	StartErr   error // the starting file did not parse (generator defect)
}

func (run *ceditRun) witness() map[string]any {
	w := map[string]any{"start": run.File.Text, "ops": ceditOpStrings(run.Ops)}
	if run.Out != nil {
		w["out"] = string(run.Out)
	}
	if len(run.Errs) > 0 {
		w["op_errors"] = run.Errs
	}
	return w
}

func ceditRequires(l []refmodfile.Req) []*modfile.Require {
	var out []*modfile.Require
	for _, q := range l {
		x := &modfile.Require{Indirect: q.Indirect}
		x.Mod.Path, x.Mod.Version = q.Path, q.Vers
		out = append(out, x)
	}
	return out
}

// ceditApplyMod applies one operation to the real go.mod structure and to the model.
func ceditApplyMod(f *modfile.File, m *refmodfile.File, op ceditOp) (effect string, dedup []string, err error) {
	s := op.S
	switch op.Kind {
	case "AddRequire":
		err = f.AddRequire(s[0], s[1])
		effect = m.AddRequire(s[0], s[1])
	case "AddNewRequire":
		f.AddNewRequire(s[0], s[1], op.B)
		effect = m.AddNewRequire(s[0], s[1], op.B)
	case "DropRequire":
		err = f.DropRequire(s[0])
		effect = m.DropRequire(s[0])
	case "SetRequire":
		f.Cleanup()
		f.SetRequire(ceditRequires(op.Reqs))
		effect, dedup = m.SetRequire(op.Reqs)
	case "SetRequireSeparateIndirect":
		f.Cleanup()
		f.SetRequireSeparateIndirect(ceditRequires(op.Reqs))
		effect, dedup = m.SetRequire(op.Reqs)
	case "AddExclude":
		err = f.AddExclude(s[0], s[1])
		effect = m.AddExclude(s[0], s[1])
	case "DropExclude":
		err = f.DropExclude(s[0], s[1])
		effect = m.DropExclude(s[0], s[1])
	case "AddReplace":
		err = f.AddReplace(s[0], s[1], s[2], s[3])
		effect = m.AddReplace(s[0], s[1], s[2], s[3])
	case "DropReplace":
		err = f.DropReplace(s[0], s[1])
		effect = m.DropReplace(s[0], s[1])
	case "AddRetract":
		err = f.AddRetract(modfile.VersionInterval{Low: s[0], High: s[1]}, s[2])
		effect = m.AddRetract(s[0], s[1], s[2])
	case "DropRetract":
		err = f.DropRetract(modfile.VersionInterval{Low: s[0], High: s[1]})
		effect = m.DropRetract(s[0], s[1])
	case "AddTool":
		err = f.AddTool(s[0])
		effect, dedup = m.AddTool(s[0])
	case "DropTool":
		err = f.DropTool(s[0])
		effect = m.DropTool(s[0])
	case "AddGodebug":
		err = f.AddGodebug(s[0], s[1])
		effect = m.AddGodebug(s[0], s[1])
	case "DropGodebug":
		err = f.DropGodebug(s[0])
		effect = m.DropGodebug(s[0])
	case "AddGoStmt":
		err = f.AddGoStmt(s[0])
		effect = m.AddGoStmt(s[0])
	case "DropGoStmt":
		f.DropGoStmt()
		effect = m.DropGoStmt()
	case "AddToolchainStmt":
		err = f.AddToolchainStmt(s[0])
		effect = m.AddToolchainStmt(s[0])
	case "DropToolchainStmt":
		f.DropToolchainStmt()
		effect = m.DropToolchainStmt()
	case "AddModuleStmt":
		err = f.AddModuleStmt(s[0])
		effect = m.AddModuleStmt(s[0])
	case "Cleanup":
		f.Cleanup()
		effect = "cleanup"
	case "RefusedAddExclude":
		err = ceditRefused(f.AddExclude(s[0], s[1]))
		effect = "refused"
	case "RefusedAddRetract":
		err = ceditRefused(f.AddRetract(modfile.VersionInterval{Low: s[0], High: s[1]}, s[2]))
		effect = "refused"
	case "RefusedAddGoStmt":
		err = ceditRefused(f.AddGoStmt(s[0]))
		effect = "refused"
	case "RefusedAddToolchainStmt":
		err = ceditRefused(f.AddToolchainStmt(s[0]))
		effect = "refused"
	default:
		panic("cedit: unknown go.mod operation " + op.Kind)
	}
	return
}

// ceditApplyWork applies one operation to the real go.work structure and to the model.
func ceditApplyWork(f *modfile.WorkFile, m *refmodfile.File, op ceditOp) (effect string, dedup []string, err error) {
	s := op.S
	switch op.Kind {
	case "AddUse":
		err = f.AddUse(s[0], s[1])
		effect = m.AddUse(s[0])
	case "DropUse":
		err = f.DropUse(s[0])
		effect = m.DropUse(s[0])
	case "SetUse":
		f.Cleanup()
		var us []*modfile.Use
		for _, d := range op.Dirs {
			us = append(us, &modfile.Use{Path: d})
		}
		f.SetUse(us)
		effect, dedup = m.SetUse(op.Dirs)
	case "AddGodebug":
		err = f.AddGodebug(s[0], s[1])
		effect = m.AddGodebug(s[0], s[1])
	case "DropGodebug":
		err = f.DropGodebug(s[0])
		effect = m.DropGodebug(s[0])
	case "AddReplace":
		err = f.AddReplace(s[0], s[1], s[2], s[3])
		effect = m.AddReplace(s[0], s[1], s[2], s[3])
	case "DropReplace":
		err = f.DropReplace(s[0], s[1])
		effect = m.DropReplace(s[0], s[1])
	case "AddGoStmt":
		err = f.AddGoStmt(s[0])
		effect = m.AddGoStmt(s[0])
	case "DropGoStmt":
		f.DropGoStmt()
		effect = m.DropGoStmt()
	case "AddToolchainStmt":
		err = f.AddToolchainStmt(s[0])
		effect = m.AddToolchainStmt(s[0])
	case "DropToolchainStmt":
		f.DropToolchainStmt()
		effect = m.DropToolchainStmt()
	case "Cleanup":
		f.Cleanup()
		effect = "cleanup"
	case "RefusedAddGoStmt":
		err = ceditRefused(f.AddGoStmt(s[0]))
		effect = "refused"
	case "RefusedAddToolchainStmt":
		err = ceditRefused(f.AddToolchainStmt(s[0]))
		effect = "refused"
	default:
		panic("cedit: unknown go.work operation " + op.Kind)
	}
	return
}

// ceditRefused turns the outcome of a call that must be refused around: the
// refusal is what is expected, an acceptance is reported.
func ceditRefused(err error) error {
	if err == nil {
		return fmt.Errorf("accepted an argument the formatted file cannot carry")
	}
	return nil
}

// ceditExec parses the starting file, runs the session on the real structure
// and on the model, calls Cleanup, formats and strictly re-parses. It does not
// decide anything. A panic of the code under test propagates to the caller
// (engines wrap the call in c.Guard); run is filled in as far as execution got.
func ceditExec(run *ceditRun) {
	ef := run.File
	run.Model = ceditModel(ef)
	name := "go.mod"
	if ef.Work {
		name = "go.work"
		run.Work, run.StartErr = modfile.ParseWork(name, []byte(ef.Text), nil)
	} else {
		run.Mod, run.StartErr = modfile.Parse(name, []byte(ef.Text), nil)
	}
	if run.StartErr != nil {
		return
	}
	for i, op := range run.Ops {
		var eff string
		var dd []string
		var err error
		run.OnNew = append(run.OnNew, ceditOnSessionEntry(run.Model, op))
		if ef.Work {
			eff, dd, err = ceditApplyWork(run.Work, run.Model, op)
		} else {
			eff, dd, err = ceditApplyMod(run.Mod, run.Model, op)
		}
		run.Effects = append(run.Effects, eff)
		run.Dedups = append(run.Dedups, dd)
		if err != nil {
			run.Errs = append(run.Errs, fmt.Sprintf("op %d %s: %v", i, op, err))
		}
	}
	if ef.Work {
		run.Work.Cleanup()
		run.Out = modfile.Format(run.Work.Syntax)
		run.Work2, run.ReparseErr = modfile.ParseWork(name, run.Out, nil)
	} else {
		run.Mod.Cleanup()
		run.Out, _ = run.Mod.Format()
		run.Mod2, run.ReparseErr = modfile.Parse(name, run.Out, nil)
	}
}

// ---------------------------------------------------------------------------
// Observations on the real structures.

// ceditDirsMod returns the sorted multiset of directives held in the typed
// lists of a go.mod structure. Nil or cleared entries are rendered as they are
// (they then differ from anything a parse can yield).
func ceditDirsMod(f *modfile.File, rationale bool) []string {
	var s []string
	if f.Module != nil {
		s = append(s, refmodfile.FmtModule(f.Module.Mod.Path))
	}
	if f.Go != nil {
		s = append(s, refmodfile.FmtGo(f.Go.Version))
	}
	if f.Toolchain != nil {
		s = append(s, refmodfile.FmtToolchain(f.Toolchain.Name))
	}
	for _, g := range f.Godebug {
		if g == nil {
			s = append(s, "godebug <nil>")
			continue
		}
		s = append(s, refmodfile.FmtGodebug(g.Key, g.Value))
	}
	for _, r := range f.Require {
		if r == nil {
			s = append(s, "require <nil>")
			continue
		}
		s = append(s, refmodfile.FmtRequire(r.Mod.Path, r.Mod.Version, r.Indirect))
	}
	for _, x := range f.Exclude {
		if x == nil {
			s = append(s, "exclude <nil>")
			continue
		}
		s = append(s, refmodfile.FmtExclude(x.Mod.Path, x.Mod.Version))
	}
	s = append(s, ceditDirsReplace(f.Replace)...)
	for _, r := range f.Retract {
		switch {
		case r == nil:
			s = append(s, "retract <nil>")
		case rationale:
			s = append(s, refmodfile.FmtRetractRationale(r.Low, r.High, r.Rationale))
		default:
			s = append(s, refmodfile.FmtRetract(r.Low, r.High))
		}
	}
	for _, t := range f.Tool {
		if t == nil {
			s = append(s, "tool <nil>")
			continue
		}
		s = append(s, refmodfile.FmtTool(t.Path))
	}
	sort.Strings(s)
	return s
}

func ceditDirsReplace(l []*modfile.Replace) []string {
	var s []string
	for _, r := range l {
		if r == nil {
			s = append(s, "replace <nil>")
			continue
		}
		s = append(s, refmodfile.FmtReplace(r.Old.Path, r.Old.Version, r.New.Path, r.New.Version))
	}
	return s
}

// ceditDirsWork is ceditDirsMod for go.work (Use.ModulePath is not in the file and is ignored).
func ceditDirsWork(f *modfile.WorkFile) []string {
	var s []string
	if f.Go != nil {
		s = append(s, refmodfile.FmtGo(f.Go.Version))
	}
	if f.Toolchain != nil {
		s = append(s, refmodfile.FmtToolchain(f.Toolchain.Name))
	}
	for _, g := range f.Godebug {
		if g == nil {
			s = append(s, "godebug <nil>")
			continue
		}
		s = append(s, refmodfile.FmtGodebug(g.Key, g.Value))
	}
	for _, u := range f.Use {
		if u == nil {
			s = append(s, "use <nil>")
			continue
		}
		s = append(s, refmodfile.FmtUse(u.Path))
	}
	s = append(s, ceditDirsReplace(f.Replace)...)
	sort.Strings(s)
	return s
}

// ceditLineDirs maps every directive line of a (re-)parsed file to the
// directive the strict parser read from it.
func ceditLineDirs(mf *modfile.File, wf *modfile.WorkFile) map[*modfile.Line]string {
	m := map[*modfile.Line]string{}
	var gos *modfile.Go
	var tc *modfile.Toolchain
	var gdb []*modfile.Godebug
	var rep []*modfile.Replace
	if mf != nil {
		gos, tc, gdb, rep = mf.Go, mf.Toolchain, mf.Godebug, mf.Replace
		if mf.Module != nil {
			m[mf.Module.Syntax] = refmodfile.FmtModule(mf.Module.Mod.Path)
		}
		for _, r := range mf.Require {
			m[r.Syntax] = refmodfile.FmtRequire(r.Mod.Path, r.Mod.Version, r.Indirect)
		}
		for _, x := range mf.Exclude {
			m[x.Syntax] = refmodfile.FmtExclude(x.Mod.Path, x.Mod.Version)
		}
		for _, r := range mf.Retract {
			m[r.Syntax] = refmodfile.FmtRetract(r.Low, r.High)
		}
		for _, t := range mf.Tool {
			m[t.Syntax] = refmodfile.FmtTool(t.Path)
		}
	} else {
		gos, tc, gdb, rep = wf.Go, wf.Toolchain, wf.Godebug, wf.Replace
		for _, u := range wf.Use {
			m[u.Syntax] = refmodfile.FmtUse(u.Path)
		}
	}
	if gos != nil {
		m[gos.Syntax] = refmodfile.FmtGo(gos.Version)
	}
	if tc != nil {
		m[tc.Syntax] = refmodfile.FmtToolchain(tc.Name)
	}
	for _, g := range gdb {
		m[g.Syntax] = refmodfile.FmtGodebug(g.Key, g.Value)
	}
	for _, r := range rep {
		m[r.Syntax] = refmodfile.FmtReplace(r.Old.Path, r.Old.Version, r.New.Path, r.New.Version)
	}
	return m
}

// ceditTagLoc says where a tag was found in a syntax tree.
type ceditTagLoc struct {
	Line  *modfile.Line // directive line it is attached to (nil: attached to something else)
	Where string        // line-before, line-suffix, block-before, block-suffix, lparen, rparen, comment-block, file, after
	N     int           // number of occurrences in the whole tree
}

func ceditAlnum(b byte) bool {
	return b >= '0' && b <= '9' || b >= 'a' && b <= 'z' || b >= 'A' && b <= 'Z'
}

// ceditScanTags calls f for every tag ("b<digits>" / "s<digits>" as a word) in a comment token.
func ceditScanTags(tok string, f func(tag string)) {
	for i := 0; i < len(tok); i++ {
		if (tok[i] != 'b' && tok[i] != 's') || (i > 0 && ceditAlnum(tok[i-1])) {
			continue
		}
		j := i + 1
		for j < len(tok) && tok[j] >= '0' && tok[j] <= '9' {
			j++
		}
		if j > i+1 && (j == len(tok) || !ceditAlnum(tok[j])) {
			f(tok[i:j])
		}
		i = j - 1
	}
}

// ceditTagIndex finds every tag of a syntax tree.
func ceditTagIndex(fs *modfile.FileSyntax) map[string]*ceditTagLoc {
	idx := map[string]*ceditTagLoc{}
	note := func(cs []modfile.Comment, line *modfile.Line, where string) {
		for _, c := range cs {
			if len(c.Token) < 4 {
				continue
			}
			ceditScanTags(c.Token, func(tag string) {
				if l := idx[tag]; l != nil {
					l.N++
					return
				}
				idx[tag] = &ceditTagLoc{Line: line, Where: where, N: 1}
			})
		}
	}
	note(fs.Before, nil, "file")
	note(fs.Suffix, nil, "file")
	note(fs.After, nil, "file")
	for _, st := range fs.Stmt {
		switch st := st.(type) {
		case *modfile.CommentBlock:
			note(st.Before, nil, "comment-block")
			note(st.Suffix, nil, "comment-block")
			note(st.After, nil, "comment-block")
		case *modfile.Line:
			note(st.Before, st, "line-before")
			note(st.Suffix, st, "line-suffix")
			note(st.After, nil, "after")
		case *modfile.LineBlock:
			note(st.Before, nil, "block-before")
			note(st.Suffix, nil, "block-suffix")
			note(st.After, nil, "after")
			note(st.LParen.Before, nil, "lparen")
			note(st.LParen.Suffix, nil, "lparen")
			note(st.RParen.Before, nil, "rparen")
			note(st.RParen.Suffix, nil, "rparen")
			for _, l := range st.Line {
				note(l.Before, l, "line-before")
				note(l.Suffix, l, "line-suffix")
				note(l.After, nil, "after")
			}
		}
	}
	return idx
}

// ceditTagCheck decides whether the starting-file line uid still carries its
// own tagged comments on the line that the strict parser reads as directive
// want. It returns "" (both tags it had are in place), or what is wrong.
func ceditTagCheck(idx map[string]*ceditTagLoc, dirs map[*modfile.Line]string, el *gen.EditLine, want string) string {
	check := func(tag, where string) string {
		loc := idx[tag]
		switch {
		case loc == nil:
			return tag + " lost"
		case loc.N != 1:
			return fmt.Sprintf("%s occurs %d times", tag, loc.N)
		case loc.Line == nil || loc.Where != where:
			return tag + " moved to " + loc.Where
		case dirs[loc.Line] != want:
			return fmt.Sprintf("%s now on %q, not on %q", tag, dirs[loc.Line], want)
		}
		return ""
	}
	if el.TagB {
		if s := check(fmt.Sprintf("b%d", el.UID), "line-before"); s != "" {
			return s
		}
	}
	if el.TagS {
		if s := check(fmt.Sprintf("s%d", el.UID), "line-suffix"); s != "" {
			return s
		}
	}
	return ""
}

// ceditLinesByUID indexes the generator's line descriptions.
func ceditLinesByUID(ef *gen.EditFile) map[int]*gen.EditLine {
	m := make(map[int]*gen.EditLine, len(ef.Lines))
	for i := range ef.Lines {
		m[ef.Lines[i].UID] = &ef.Lines[i]
	}
	return m
}

// ceditTagKind names which tags a line carries (coverage classes).
func ceditTagKind(el *gen.EditLine) string {
	switch {
	case el.TagB && el.TagS:
		return "b+s"
	case el.TagB:
		return "b"
	case el.TagS:
		return "s"
	}
	return "none"
}

// ceditFileShape names the shape of a starting file (coverage classes).
func ceditFileShape(ef *gen.EditFile) []string {
	kind := "mod"
	if ef.Work {
		kind = "work"
	}
	var s []string
	if ef.MixedForms {
		s = append(s, "file:"+kind+":mixed-line-and-block-forms")
	}
	if ef.CommentedBlock {
		s = append(s, "file:"+kind+":commented-block")
	}
	if ef.TailComment {
		s = append(s, "file:"+kind+":comment-before-rparen")
	}
	for v := range ef.Duplicates {
		s = append(s, "file:"+kind+":duplicate-"+v)
	}
	return s
}
