package props

import (
	"fmt"
	"math/rand/v2"
	"sync"
	"sync/atomic"

	"golang.org/x/mod/sumdb/tlog"

	"verif/harness/mon"
	"verif/harness/ref/refmerkle"
)

func init() { Registry["C03"] = runC03 }

// proofMutants returns labelled mutations of a proof.
func proofMutants(r *rand.Rand, p []rH) (labels []string, out [][]rH) {
	add := func(l string, q []rH) { labels = append(labels, l); out = append(out, q) }
	cp := func() []rH { return append([]rH(nil), p...) }
	for i := range p {
		q := cp()
		q[i][r.IntN(32)] ^= 1 << uint(r.IntN(8))
		add("flip-bit", q)
		q = cp()
		q[i][0] ^= 0x80
		add("flip-first-byte", q)
		q = cp()
		q[i][31] ^= 1
		add("flip-last-byte", q)
		add("drop", append(append([]rH(nil), p[:i]...), p[i+1:]...))
		add("duplicate", append(append(append([]rH(nil), p[:i]...), p[i]), p[i:]...))
		if i+1 < len(p) {
			q = cp()
			q[i], q[i+1] = q[i+1], q[i]
			add("swap-adjacent", q)
		}
	}
	if len(p) > 1 {
		q := cp()
		for i, j := 0, len(q)-1; i < j; i, j = i+1, j-1 {
			q[i], q[j] = q[j], q[i]
		}
		add("reverse", q)
	}
	add("append-zero", append(cp(), rH{}))
	add("prepend-zero", append([]rH{{}}, p...))
	add("empty", nil)
	add("unmodified", cp())
	return
}

func runC03(c *mon.Ctx) {
	T := c.Scale(100, 800)
	gr := c.GlobalRng("records")
	r := c.Rng
	recs := genRecords(gr, T+1)
	ref := refmerkle.New(recs)
	st, err := buildStore(recs)
	if err != nil {
		c.Violation("storedhashes-error", "build", err.Error())
		return
	}
	roots := make([]rH, T+2)
	for i := 0; i <= T+1 && i <= len(recs); i++ {
		roots[i] = ref.Root(i)
	}
	rootAt := func(n int64) rH {
		if n >= 0 && n <= int64(T) {
			return roots[n]
		}
		return rH{0xEE, byte(n)}
	}

	checkRec := func(id, label string, p []rH, t int64, root rH, n int64, lh rH) {
		c.Eval(1)
		want := refmerkle.VerifyIncl(p, n, t, lh, root)
		var got bool
		c.Guard(id, func() any { return fmt.Sprintf("CheckRecord %s t=%d n=%d len=%d", label, t, n, len(p)) }, func() {
			got = tlog.CheckRecord(toTlog(p), t, tlog.Hash(root), n, tlog.Hash(lh)) == nil
		})
		c.Class(fmt.Sprintf("record:%s:accept=%t", label, want))
		if got != want {
			c.Violation("checkrecord-accept-mismatch", id, map[string]any{"mutation": label, "t": t, "n": n, "proof_len": len(p), "impl_accepts": got, "rfc9162_accepts": want})
		}
	}
	checkTree := func(id, label string, p []rH, t int64, root rH, n int64, old rH) {
		c.Eval(1)
		want := refmerkle.VerifyCons(p, n, t, old, root)
		var got bool
		c.Guard(id, func() any { return fmt.Sprintf("CheckTree %s t=%d n=%d len=%d", label, t, n, len(p)) }, func() {
			got = tlog.CheckTree(toTlog(p), t, tlog.Hash(root), n, tlog.Hash(old)) == nil
		})
		c.Class(fmt.Sprintf("tree:%s:accept=%t", label, want))
		if got != want {
			c.Violation("checktree-accept-mismatch", id, map[string]any{"mutation": label, "t": t, "n": n, "proof_len": len(p), "impl_accepts": got, "rfc9162_accepts": want})
		}
	}

	huge := []int64{-1, -5, 1 << 62, 1<<62 + 1, 1<<63 - 1, -1 << 63}

	doTuple := func(t int, ns []int, kind string) {
		for _, n := range ns {
			id := fmt.Sprintf("%s:t%d:n%d", kind, t, n)
			if !c.Want(id) {
				continue
			}
			c.WAL(id, nil)
			if kind == "rec" {
				rd := &storeReader{store: st, limit: tlog.StoredHashCount(int64(t))}
				var p tlog.RecordProof
				var err error
				c.Guard(id, nil, func() { p, err = tlog.ProveRecord(int64(t), int64(n), rd) })
				c.Eval(1)
				wantP := ref.Path(n, t)
				if err != nil || !hashesEqual(p, wantP) {
					c.Violation("proverecord-not-rfc6962-path", id, map[string]any{"t": t, "n": n, "err": fmt.Sprint(err), "got_len": len(p), "want_len": len(wantP)})
					continue
				}
				if len(rd.beyond) > 0 {
					c.Violation("proverecord-reads-beyond-tree", id, map[string]any{"t": t, "n": n, "indexes": rd.beyond})
				}
				lh := refmerkle.Leaf(recs[n])
				checkRec(id, "honest", wantP, int64(t), roots[t], int64(n), lh)
				if tlog.CheckRecord(p, int64(t), tlog.Hash(roots[t]), int64(n), tlog.Hash(lh)) != nil {
					c.Violation("honest-record-proof-rejected", id, map[string]any{"t": t, "n": n})
				}
				// unmodified proof, one wrong component
				checkRec(id, "wrong-leaf", wantP, int64(t), roots[t], int64(n), refmerkle.Leaf(append([]byte("x"), recs[n]...)))
				checkRec(id, "wrong-leaf-other-record", wantP, int64(t), roots[t], int64(n), refmerkle.Leaf(recs[(n+1)%t]))
				checkRec(id, "wrong-root", wantP, int64(t), rH{1}, int64(n), lh)
				checkRec(id, "root-of-other-size", wantP, int64(t), rootAt(int64(t)-1), int64(n), lh)
				checkRec(id, "root-of-other-size", wantP, int64(t), rootAt(int64(t)+1), int64(n), lh)
				checkRec(id, "leaf-as-root", wantP, int64(t), lh, int64(n), lh)
				checkRec(id, "swap-n-t", wantP, int64(n), roots[t], int64(t), lh)
				for _, hz := range huge {
					checkRec(id, "out-of-range-t", wantP, hz, roots[t], int64(n), lh)
					checkRec(id, "out-of-range-n", wantP, int64(t), roots[t], hz, lh)
					checkRec(id, "out-of-range-both", wantP, hz, roots[t], hz-1, lh)
				}
				labels, cands := proofMutants(r, wantP)
				for ci, cand := range cands {
					for _, dt := range []int64{0, -1, 1} {
						for _, dn := range []int64{0, -1, 1} {
							tt, nn := int64(t)+dt, int64(n)+dn
							lab := labels[ci]
							if dt != 0 || dn != 0 {
								lab += "+size/index-shift"
							}
							checkRec(id, lab, cand, tt, roots[t], nn, lh)
							if dt != 0 {
								checkRec(id, lab+"+root-of-shifted-size", cand, tt, rootAt(tt), nn, lh)
							}
						}
					}
				}
				// proof of another tuple
				t2 := 1 + r.IntN(T)
				n2 := r.IntN(t2)
				checkRec(id, "proof-of-other-tuple", ref.Path(n2, t2), int64(t), roots[t], int64(n), lh)
				if c.Batch == 0 && t < 4 {
					c.Sample("record-proof", 3, map[string]any{"t": t, "n": n, "proof": fmt.Sprintf("%x", wantP), "mutants_checked": len(cands) * 9})
				}
			} else {
				rd := &storeReader{store: st, limit: tlog.StoredHashCount(int64(t))}
				var p tlog.TreeProof
				var err error
				c.Guard(id, nil, func() { p, err = tlog.ProveTree(int64(t), int64(n), rd) })
				c.Eval(1)
				wantP := ref.Proof(n, t)
				if err != nil || !hashesEqual(p, wantP) {
					c.Violation("provetree-not-rfc6962-proof", id, map[string]any{"t": t, "n": n, "err": fmt.Sprint(err), "got_len": len(p), "want_len": len(wantP)})
					continue
				}
				if len(rd.beyond) > 0 {
					c.Violation("provetree-reads-beyond-tree", id, map[string]any{"t": t, "n": n, "indexes": rd.beyond})
				}
				checkTree(id, "honest", wantP, int64(t), roots[t], int64(n), roots[n])
				if tlog.CheckTree(p, int64(t), tlog.Hash(roots[t]), int64(n), tlog.Hash(roots[n])) != nil {
					c.Violation("honest-tree-proof-rejected", id, map[string]any{"t": t, "n": n})
				}
				checkTree(id, "wrong-new-root", wantP, int64(t), rH{1}, int64(n), roots[n])
				checkTree(id, "wrong-old-root", wantP, int64(t), roots[t], int64(n), rH{2})
				checkTree(id, "old-root-of-other-size", wantP, int64(t), roots[t], int64(n), rootAt(int64(n)+1))
				checkTree(id, "old-root-of-other-size", wantP, int64(t), roots[t], int64(n), rootAt(int64(n)-1))
				checkTree(id, "new-root-of-other-size", wantP, int64(t), rootAt(int64(t)+1), int64(n), roots[n])
				checkTree(id, "new-root-of-other-size", wantP, int64(t), rootAt(int64(t)-1), int64(n), roots[n])
				checkTree(id, "roots-swapped", wantP, int64(t), roots[n], int64(n), roots[t])
				checkTree(id, "swap-n-t", wantP, int64(n), roots[n], int64(t), roots[t])
				checkTree(id, "both-roots-new", wantP, int64(t), roots[t], int64(n), roots[t])
				checkTree(id, "both-roots-old", wantP, int64(t), roots[n], int64(n), roots[n])
				checkTree(id, "n-zero", wantP, int64(t), roots[t], 0, roots[0])
				for _, hz := range huge {
					checkTree(id, "out-of-range-t", wantP, hz, roots[t], int64(n), roots[n])
					checkTree(id, "out-of-range-n", wantP, int64(t), roots[t], hz, roots[n])
					checkTree(id, "out-of-range-both", wantP, hz, roots[t], hz-1, roots[n])
				}
				labels, cands := proofMutants(r, wantP)
				for ci, cand := range cands {
					for _, dt := range []int64{0, -1, 1} {
						for _, dn := range []int64{0, -1, 1} {
							tt, nn := int64(t)+dt, int64(n)+dn
							lab := labels[ci]
							if dt != 0 || dn != 0 {
								lab += "+size-shift"
							}
							checkTree(id, lab, cand, tt, rootAt(tt), nn, rootAt(nn))
							if dt != 0 || dn != 0 {
								checkTree(id, lab+"+original-roots", cand, tt, roots[t], nn, roots[n])
							}
						}
					}
				}
				t2 := 1 + r.IntN(T)
				n2 := 1 + r.IntN(t2)
				checkTree(id, "proof-of-other-tuple", ref.Proof(n2, t2), int64(t), roots[t], int64(n), roots[n])
				if c.Batch == 0 && t < 4 {
					c.Sample("tree-proof", 3, map[string]any{"t": t, "n": n, "proof": fmt.Sprintf("%x", wantP), "mutants_checked": len(cands) * 9})
				}
			}
		}
	}

	idx := 0
	for t := 1; t <= T; t++ {
		if c.Mine(idx) {
			ns := make([]int, t)
			for i := range ns {
				ns[i] = i
			}
			doTuple(t, ns, "rec")
			for i := range ns {
				ns[i] = i + 1
			}
			doTuple(t, ns, "tree")
		}
		idx++
	}

	// The functions are pure: several goroutines proving and checking at once must get exactly the
	// sequential results (a hidden shared buffer would make honest proofs fail under load).
	if c.Batch%4 == 3 {
		type job struct{ t, n int }
		var jobs []job
		for k := 0; k < 400; k++ {
			t := 2 + r.IntN(T-1)
			jobs = append(jobs, job{t, r.IntN(t)})
		}
		seq := make([][]tlog.Hash, len(jobs))
		for i, j := range jobs {
			seq[i], _ = tlog.ProveRecord(int64(j.t), int64(j.n), &storeReader{store: st, limit: -1})
		}
		var wg sync.WaitGroup
		var bad atomic.Int64
		var firstBad atomic.Value
		for g := 0; g < 8; g++ {
			wg.Add(1)
			go func(g int) {
				defer wg.Done()
				rd := &storeReader{store: st, limit: -1}
				for rep := 0; rep < 6; rep++ {
					for i, j := range jobs {
						p, err := tlog.ProveRecord(int64(j.t), int64(j.n), rd)
						ok := err == nil && len(p) == len(seq[i])
						for x := range p {
							ok = ok && p[x] == seq[i][x]
						}
						if ok {
							ok = tlog.CheckRecord(p, int64(j.t), tlog.Hash(roots[j.t]), int64(j.n), tlog.Hash(refmerkle.Leaf(recs[j.n]))) == nil
						}
						if ok {
							th, err := tlog.TreeHash(int64(j.t), rd)
							ok = err == nil && rH(th) == roots[j.t]
						}
						if !ok {
							bad.Add(1)
							firstBad.CompareAndSwap(nil, fmt.Sprintf("t=%d n=%d goroutine=%d", j.t, j.n, g))
						}
					}
				}
			}(g)
		}
		wg.Wait()
		c.Eval(8 * 6 * len(jobs))
		c.Class("concurrent-proofs:8-goroutines")
		if bad.Load() > 0 {
			c.Violation("concurrent-proof-differs-from-sequential", "concurrent-proofs", map[string]any{"mismatches": bad.Load(), "first": firstBad.Load()})
		}
	}

	// A growing log read through a zero-copy HashReader: after every append the tree hash is taken (as a
	// publisher would) and proofs for the new tree must still be exactly the RFC 6962 ones.
	if c.Batch%4 == 2 {
		n := c.Scale(160, 600)
		hrecs := genRecords(r, n)
		href := refmerkle.New(hrecs)
		var hst []tlog.Hash
		zr := zeroCopyReader(&hst)
		for i, rec := range hrecs {
			id := fmt.Sprintf("history:%d", i)
			hs, err := tlog.StoredHashes(int64(i), rec, zr)
			if err != nil {
				c.Violation("storedhashes-error", id, err.Error())
				break
			}
			hst = append(hst, hs...)
			t := i + 1
			c.Eval(3)
			if th, err := tlog.TreeHash(int64(t), zr); err != nil || rH(th) != href.Root(t) {
				c.Violation("treehash-not-rfc6962", id, map[string]any{"t": t, "reader": "zero-copy", "err": fmt.Sprint(err)})
				break
			}
			bad := false
			for _, k := range []int{0, i, r.IntN(t)} {
				p, err := tlog.ProveRecord(int64(t), int64(k), zr)
				if err != nil || !hashesEqual(p, href.Path(k, t)) {
					c.Violation("proverecord-not-rfc6962-path", id, map[string]any{"t": t, "n": k, "reader": "zero-copy after a history of appends and tree hashes", "err": fmt.Sprint(err)})
					bad = true
				} else if tlog.CheckRecord(p, int64(t), tlog.Hash(href.Root(t)), int64(k), tlog.Hash(refmerkle.Leaf(hrecs[k]))) != nil {
					c.Violation("honest-record-proof-rejected", id, map[string]any{"t": t, "n": k})
					bad = true
				}
			}
			for _, m := range []int{1, t, 1 + r.IntN(t)} {
				p, err := tlog.ProveTree(int64(t), int64(m), zr)
				if err != nil || !hashesEqual(p, href.Proof(m, t)) {
					c.Violation("provetree-not-rfc6962-proof", id, map[string]any{"t": t, "n": m, "reader": "zero-copy after a history of appends and tree hashes", "err": fmt.Sprint(err)})
					bad = true
				}
			}
			if bad {
				break
			}
		}
		c.Class("history:zero-copy-reader")
	}

	// A read fault reported by the HashReader (even together with a full-length slice) must surface as
	// an error; a proof computed from the garbage must never be returned as if it were genuine.
	if c.Batch%4 == 1 {
		for k := 0; k < c.Scale(300, 3000); k++ {
			t := 2 + r.IntN(T-1)
			n := r.IntN(t)
			id := fmt.Sprintf("readfault:%d:%d:%d", t, n, k)
			// poison one of the indexes the honest proof actually reads
			var asked []int64
			tlog.ProveRecord(int64(t), int64(n), tlog.HashReaderFunc(func(ix []int64) ([]tlog.Hash, error) {
				asked = append(asked, ix...)
				out := make([]tlog.Hash, len(ix))
				for i, x := range ix {
					out[i] = st[x]
				}
				return out, nil
			}))
			if len(asked) == 0 {
				continue
			}
			bad := asked[r.IntN(len(asked))]
			c.Eval(2)
			if p, err := tlog.ProveRecord(int64(t), int64(n), faultyReader(st, bad)); err == nil && !hashesEqual(p, ref.Path(n, t)) {
				c.Violation("proof-returned-despite-read-error", id, map[string]any{"fn": "ProveRecord", "t": t, "n": n, "poisoned_index": bad})
			}
			m := 1 + r.IntN(t)
			asked = asked[:0]
			tlog.ProveTree(int64(t), int64(m), tlog.HashReaderFunc(func(ix []int64) ([]tlog.Hash, error) {
				asked = append(asked, ix...)
				out := make([]tlog.Hash, len(ix))
				for i, x := range ix {
					out[i] = st[x]
				}
				return out, nil
			}))
			if len(asked) > 0 {
				bad = asked[r.IntN(len(asked))]
				if p, err := tlog.ProveTree(int64(t), int64(m), faultyReader(st, bad)); err == nil && !hashesEqual(p, ref.Proof(m, t)) {
					c.Violation("proof-returned-despite-read-error", id, map[string]any{"fn": "ProveTree", "t": t, "n": m, "poisoned_index": bad})
				}
			}
		}
		c.Class("read-fault:error-propagated-or-proof-correct")
	}

	// Provers must refuse out-of-range arguments with an error, not a crash.
	if c.Batch == 0 {
		rd := &storeReader{store: st, limit: -1}
		for _, a := range [][2]int64{{0, 0}, {-1, 0}, {5, 5}, {5, 6}, {5, -1}, {-3, -4}, {1 << 62, 1<<62 + 1}} {
			id := fmt.Sprintf("oor:%d:%d", a[0], a[1])
			c.Guard(id, nil, func() {
				if _, err := tlog.ProveRecord(a[0], a[1], rd); err == nil {
					c.Violation("proverecord-accepts-out-of-range", id, a)
				}
				c.Eval(1)
				c.Class("prove-out-of-range-refused")
			})
		}
		for _, a := range [][2]int64{{0, 0}, {-1, 0}, {5, 6}, {5, 0}, {5, -1}, {-3, -4}} {
			id := fmt.Sprintf("oort:%d:%d", a[0], a[1])
			c.Guard(id, nil, func() {
				if _, err := tlog.ProveTree(a[0], a[1], rd); err == nil {
					c.Violation("provetree-accepts-out-of-range", id, a)
				}
				c.Eval(1)
			})
		}
	}

	// Thorough: large trees around powers of two with sampled n.
	if !c.Quick() {
		sizes := []int{1023, 1024, 1025, 4095, 4096, 4097, 16383, 16384, 16385, 65535, 65536, 65537}
		for si, big := range sizes {
			if !c.Mine(si) {
				continue
			}
			br := c.GlobalRng(fmt.Sprintf("big%d", big))
			brecs := genRecords(br, big)
			bref := refmerkle.New(brecs)
			bst, err := buildStore(brecs)
			if err != nil {
				c.Violation("storedhashes-error", "bigbuild", err.Error())
				continue
			}
			rd := &storeReader{store: bst, limit: tlog.StoredHashCount(int64(big))}
			root := bref.Root(big)
			for k := 0; k < 300; k++ {
				n := r.IntN(big)
				if k < 4 {
					n = []int{0, big - 1, big / 2, big/2 - 1}[k]
				}
				id := fmt.Sprintf("bigrec:%d:%d", big, n)
				p, err := tlog.ProveRecord(int64(big), int64(n), rd)
				want := bref.Path(n, big)
				c.Eval(1)
				c.Class("big-tree-record")
				if err != nil || !hashesEqual(p, want) {
					c.Violation("proverecord-not-rfc6962-path", id, map[string]any{"t": big, "n": n})
					continue
				}
				lh := refmerkle.Leaf(brecs[n])
				labels, cands := proofMutants(r, want)
				for ci, cand := range cands {
					checkRec(id, "big:"+labels[ci], cand, int64(big), root, int64(n), lh)
				}
				m := 1 + r.IntN(big)
				if k < 3 {
					m = []int{1, big, big - 1}[k]
				}
				id = fmt.Sprintf("bigtree:%d:%d", big, m)
				rd2 := &storeReader{store: bst, limit: tlog.StoredHashCount(int64(big))}
				tp, err := tlog.ProveTree(int64(big), int64(m), rd2)
				wantT := bref.Proof(m, big)
				c.Eval(1)
				if err != nil || !hashesEqual(tp, wantT) {
					c.Violation("provetree-not-rfc6962-proof", id, map[string]any{"t": big, "n": m})
					continue
				}
				labels, cands = proofMutants(r, wantT)
				for ci, cand := range cands {
					checkTree(id, "big:"+labels[ci], cand, int64(big), root, int64(m), bref.Root(m))
				}
				checkTree(id, "big:wrong-old-root", wantT, int64(big), root, int64(m), rH{9})
				checkTree(id, "big:wrong-new-root", wantT, int64(big), rH{9}, int64(m), bref.Root(m))
			}
			if len(rd.beyond) > 0 {
				c.Violation("prove-reads-beyond-tree", fmt.Sprintf("big:%d", big), rd.beyond[:1])
			}
		}
	}
	c03Huge(c)
}
