package props

import (
	"bytes"
	"fmt"
	"math/rand/v2"
	"strconv"
	"strings"
	"unicode/utf8"

	"golang.org/x/mod/modfile"

	"verif/harness/gen"
	"verif/harness/mon"
	"verif/harness/ref/refmodpos"
)

// C20 — parsing is total, positioned, and lax mode accepts everything strict mode does
// (DESIGN §5.20).
//
// For every input (random bytes, token soup, structured texts, well-formed files and their
// byte/token mutations, very large inputs):
//
//	totality   Parse, ParseLax, ParseWork, ModulePath and the syntax-only parser return; exactly
//	           one of result / error is non-nil; an error is a non-empty ErrorList; no error
//	           text reports an internal error (a panic is caught by Guard, a fatal error or a
//	           hang by the driver through the write-ahead file).
//	positions  every Position in an ErrorList and in the syntax tree has Byte in [0, len],
//	           Line/LineRune equal to the recomputation from Byte (ref/refmodpos), and
//	           points at what it describes: Line.Start/LineBlock.Start at the first token,
//	           Line.End just after the last token, LParen/RParen at the parenthesis,
//	           Comment.Start at the `//` of its text; the text between Start and End is
//	           exactly the tokens.
//	strict⊆lax every input strict Parse accepts is accepted by ParseLax with the same module,
//	           go, require and retract values; after unknown directives / blocks are inserted
//	           into a strict-accepted file ParseLax still accepts with the same values and
//	           strict Parse rejects.
//	ModulePath for strict-accepted inputs whose module directive is a single top-level line
//	           naming a plain valid import path (and no other line or block header starts
//	           with the token `module`: known finding modulepath-block-line),
//	           ModulePath(in) equals the parsed module path.

func init() { Registry["C20"] = runC20 }

// c20KnownInput is the designated regression input of known finding modulepath-block-line
// (DESIGN §6.8): a block line whose first token is the bare word `module`.
const c20KnownInput = "require (\n\tmodule v1.0.0\n)\nmodule example.com/real\n"

var c20ErrKinds = []string{"unexpected input character", "mod files must use // comments", "unexpected EOF in string", "unexpected newline in string",
	"unterminated block", "expected newline after closing paren", "unknown block type", "unknown directive", "repeated", "usage:",
	"invalid go version", "invalid toolchain version", "invalid quoted string", "unquoted string cannot contain quote", "invalid module path",
	"must be of the form", "should be", "expects exactly one argument", "unexpected token after version", "expected", "replacement",
	"no module directive", "is not a semantic version", "fixer says no", "invalid"}

func c20ErrKind(msg string) string {
	for _, k := range c20ErrKinds {
		if strings.Contains(msg, k) {
			return strings.ReplaceAll(k, " ", "-")
		}
	}
	return "other"
}

func c20Internal(msg string) bool {
	return strings.Contains(msg, "internal error") || strings.Contains(msg, "internal lexer error") || strings.Contains(msg, "internal parse error")
}

// c20Run is the state of one case (one input).
type c20Run struct {
	c      *mon.Ctx
	id     string
	origin string
	in     []byte
	cur    *refmodpos.Cursor // for tree positions (monotone)
	ecur   *refmodpos.Cursor // for error positions
	bad    bool
	nviol  int
	strip1 []byte
	strip2 []byte
}

// viol records a violation; after the first one of a case the per-position monitors stop
// (a broken position counter would otherwise produce one witness per token).
func (k *c20Run) viol(class string, detail map[string]any) {
	if k.nviol++; k.nviol > 3 {
		return
	}
	detail["in"] = c02Trunc(k.in)
	detail["origin"] = k.origin
	k.c.Violation(class, k.id, detail)
	k.bad = true
}

// c20Where names a tree field for a witness; it is only formatted when a violation is reported.
type c20Where struct {
	fn    string
	stmt  int // statement index, -1 = file level
	line  int // line index inside a block, -1 = the statement itself
	field string
}

func (w c20Where) String() string {
	s := w.fn
	if w.stmt >= 0 {
		s += fmt.Sprintf(" stmt[%d]", w.stmt)
	}
	if w.line >= 0 {
		s += fmt.Sprintf(".Line[%d]", w.line)
	}
	return s + "." + w.field
}

func (w c20Where) f(field string) c20Where { w.field = field; return w }

// pos checks the arithmetic of one position.
func (k *c20Run) pos(cur *refmodpos.Cursor, what fmt.Stringer, p modfile.Position) bool {
	if p.Byte < 0 || p.Byte > len(k.in) {
		k.viol("pos-byte-out-of-range", map[string]any{"what": what.String(), "pos": fmt.Sprint(p), "len": len(k.in)})
		return false
	}
	line, col := cur.LineCol(p.Byte)
	if line != p.Line || col != p.LineRune {
		line, col = refmodpos.LineColExact(k.in, p.Byte)
		if line != p.Line || col != p.LineRune {
			k.viol("pos-line-col-mismatch", map[string]any{"what": what.String(), "pos": fmt.Sprintf("line %d rune %d byte %d", p.Line, p.LineRune, p.Byte),
				"recomputed": fmt.Sprintf("line %d rune %d", line, col)})
			return false
		}
	}
	return true
}

type c20ErrWhere struct {
	fn string
	i  int
	e  *modfile.Error
}

func (w c20ErrWhere) String() string {
	return fmt.Sprintf("error[%d] of %s: %s", w.i, w.fn, mon.QS(w.e.Error()))
}

// outcome checks the totality contract of one parser call and the positions of its errors.
func (k *c20Run) outcome(fn string, resultNil bool, err error) (accepted bool) {
	c := k.c
	c.Eval(1)
	if resultNil == (err == nil) {
		k.viol("result-xor-error", map[string]any{"fn": fn, "result_nil": resultNil, "error_nil": err == nil})
		return false
	}
	if err == nil {
		c.Class(fn + ":accepted")
		return true
	}
	el, ok := err.(modfile.ErrorList)
	if !ok || len(el) == 0 {
		k.viol("error-not-an-error-list", map[string]any{"fn": fn, "type": fmt.Sprintf("%T", err), "err": err.Error()})
		return false
	}
	for i := range el {
		if k.bad {
			break
		}
		e := &el[i]
		if e.Err == nil {
			k.viol("error-entry-without-cause", map[string]any{"fn": fn, "index": i})
			continue
		}
		msg := e.Err.Error()
		if c20Internal(msg) {
			k.viol("internal-error-reported", map[string]any{"fn": fn, "err": e.Error()})
		}
		if i == 0 {
			c.Class("err:" + fn + ":" + c20ErrKind(msg))
		}
		anchor := c20LexAnchor(msg)
		if e.Pos == (modfile.Position{}) {
			if anchor != "" {
				// the lexer's complaints are about a place in the input; they always come with one
				k.viol("lexer-error-without-position", map[string]any{"fn": fn, "err": e.Error()})
				continue
			}
			c.Class("errpos:absent:" + fn) // an Error without position is documented (Error.Error prints none)
			continue
		}
		if k.pos(k.ecur, c20ErrWhere{fn, i, e}, e.Pos) && anchor != "" {
			// "... and point at the token or comment they describe": what the message names is at that offset
			rest := k.in[min(e.Pos.Byte, len(k.in)):]
			ok := true
			switch anchor {
			case "block-comment":
				ok = bytes.HasPrefix(rest, []byte("/*"))
			case "newline":
				ok = len(rest) > 0 && rest[0] == '\n'
			case "string-start": // the unterminated string is reported where it begins
				ok = len(rest) > 0 && (rest[0] == '"' || rest[0] == '`')
			case "character":
				rn, _ := utf8.DecodeRune(rest)
				ok = len(rest) > 0 && strings.HasSuffix(msg, fmt.Sprintf("%#q", rn))
			case "after-closing-paren":
				// the complaint is about what follows a `)` that closes a block: the position is on that
				// (logical) line, behind the parenthesis and the first thing after it
				head := k.in[:min(e.Pos.Byte, len(k.in))]
				ok = false
				for j := bytes.LastIndexByte(head, ')'); j >= 0 && !ok; j = bytes.LastIndexByte(head[:j], ')') {
					seg := head[j+1:]
					seg = bytes.ReplaceAll(bytes.ReplaceAll(seg, []byte("\\\r\n"), nil), []byte("\\\n"), nil) // escaped newlines are white space
					if bytes.IndexByte(seg, '\n') >= 0 {
						break // that parenthesis is on an earlier line
					}
					ok = len(bytes.TrimSpace(seg)) > 0
				}
			}
			if !ok {
				k.viol("error-position-not-at-what-it-describes", map[string]any{"fn": fn, "err": e.Error(), "byte": e.Pos.Byte, "text_there": c02Trunc(rest[:min(len(rest), 12)])})
			} else {
				c.Class("errpos:anchored:" + anchor)
			}
		}
	}
	if len(el) > 1 {
		c.Class(fn + ":many-errors")
	}
	return false
}

// c20LexAnchor names what a lexer message is about ("" for every other message).
func c20LexAnchor(msg string) string {
	switch {
	case strings.HasPrefix(msg, "mod files must use // comments"):
		return "block-comment"
	case msg == "unexpected newline in string":
		return "newline"
	case msg == "unexpected EOF in string":
		return "string-start"
	case strings.HasPrefix(msg, "unexpected input character "):
		return "character"
	case msg == "syntax error (expected newline after closing paren)":
		return "after-closing-paren"
	}
	return ""
}

func (k *c20Run) comments(where c20Where, cs []modfile.Comment) {
	for i, cm := range cs {
		if cm.Token == "" || k.bad {
			continue // blank-line placeholder, carries no position
		}
		if !k.pos(k.cur, where, cm.Start) {
			continue
		}
		rest := k.in[cm.Start.Byte:]
		after := rest[min(len(cm.Token), len(rest)):]
		if !strings.HasPrefix(cm.Token, "//") || !bytes.HasPrefix(rest, []byte(cm.Token)) ||
			!(len(after) == 0 || after[0] == '\n' || bytes.HasPrefix(after, []byte("\r\n"))) {
			k.viol("comment-position-not-at-comment", map[string]any{"what": fmt.Sprintf("%s[%d] %s", where, i, mon.QS(cm.Token)), "byte": cm.Start.Byte,
				"text_there": c02Trunc(rest[:min(len(rest), len(cm.Token)+4)])})
		}
	}
}

// span checks Start/End of a Line (or of a block header when end is the `(`).
func (k *c20Run) span(what c20Where, toks []string, start modfile.Position, endByte int, checkText bool) {
	if len(toks) == 0 {
		k.viol("line-without-tokens", map[string]any{"what": what.String()})
		return
	}
	if start.Byte >= endByte {
		k.viol("span-empty-or-reversed", map[string]any{"what": what.String(), "start": start.Byte, "end": endByte})
		return
	}
	if !checkText {
		return
	}
	seg := k.in[start.Byte:endByte]
	if !bytes.HasPrefix(seg, []byte(toks[0])) {
		k.viol("start-not-at-first-token", map[string]any{"what": what.String(), "start": start.Byte, "first_token": mon.QS(toks[0]), "text_there": c02Trunc(seg[:min(len(seg), 40)])})
		return
	}
	if last := toks[len(toks)-1]; what.field != "LineBlock header" && !bytes.HasSuffix(seg, []byte(last)) {
		k.viol("end-not-after-last-token", map[string]any{"what": what.String(), "end": endByte, "last_token": mon.QS(last), "text_before_end": c02Trunc(seg[max(0, len(seg)-40):])})
		return
	}
	k.strip1 = refmodpos.StripAppend(k.strip1[:0], seg)
	k.strip2 = k.strip2[:0]
	for _, t := range toks {
		k.strip2 = refmodpos.StripAppend(k.strip2, []byte(t))
	}
	if !bytes.Equal(k.strip1, k.strip2) {
		k.viol("span-text-is-not-the-tokens", map[string]any{"what": what.String(), "start": start.Byte, "end": endByte, "tokens": c02Trunc([]byte(strings.Join(toks, " "))), "text": c02Trunc(seg)})
	}
}

// tree checks every position of a syntax tree. With checkText the tokens are compared with
// the input text (only valid for the tree of the syntax-only parser: the directive layer
// re-quotes tokens in place).
func (k *c20Run) tree(fn string, f *modfile.FileSyntax, checkText bool) {
	c := k.c
	c.Eval(1)
	prev := 0 // everything must start at or after this byte
	order := func(what c20Where, b int) {
		if b < prev {
			k.viol("positions-not-in-source-order", map[string]any{"what": what.String(), "byte": b, "previous_end": prev})
		} else {
			prev = b
		}
	}
	k.comments(c20Where{fn, -1, -1, "Before"}, f.Before)
	for si, st := range f.Stmt {
		if k.bad {
			return
		}
		w := c20Where{fn, si, -1, ""}
		switch x := st.(type) {
		case *modfile.CommentBlock:
			if k.pos(k.cur, w.f("CommentBlock.Start"), x.Start) {
				order(w.f("CommentBlock.Start"), x.Start.Byte)
				if len(x.Before) == 0 || x.Before[0].Start != x.Start {
					k.viol("commentblock-start-not-at-first-comment", map[string]any{"what": w.f("CommentBlock").String(), "start": fmt.Sprint(x.Start)})
				}
			}
			k.comments(w.f("CommentBlock.Before"), x.Before)
			if s, e := x.Span(); s != x.Start || e != x.Start {
				k.viol("span-method-disagrees", map[string]any{"what": w.f("CommentBlock").String()})
			}
		case *modfile.Line:
			k.comments(w.f("Line.Before"), x.Before)
			if k.pos(k.cur, w.f("Line.Start"), x.Start) && k.pos(k.cur, w.f("Line.End"), x.End) {
				order(w.f("Line.Start"), x.Start.Byte)
				k.span(w.f("Line"), x.Token, x.Start, x.End.Byte, checkText)
				order(w.f("Line.End"), x.End.Byte)
			}
			k.comments(w.f("Line.Suffix"), x.Suffix)
			if s, e := x.Span(); s != x.Start || e != x.End {
				k.viol("span-method-disagrees", map[string]any{"what": w.f("Line").String()})
			}
			if x.InBlock {
				k.viol("top-level-line-marked-InBlock", map[string]any{"what": w.f("Line").String()})
			}
		case *modfile.LineBlock:
			k.comments(w.f("LineBlock.Before"), x.Before)
			if !(k.pos(k.cur, w.f("LineBlock.Start"), x.Start) && k.pos(k.cur, w.f("LineBlock.LParen.Pos"), x.LParen.Pos)) {
				continue
			}
			order(w.f("LineBlock.Start"), x.Start.Byte)
			k.span(w.f("LineBlock header"), x.Token, x.Start, x.LParen.Pos.Byte, checkText)
			order(w.f("LineBlock.LParen.Pos"), x.LParen.Pos.Byte)
			if x.LParen.Pos.Byte >= len(k.in) || k.in[x.LParen.Pos.Byte] != '(' {
				k.viol("lparen-not-at-paren", map[string]any{"what": w.f("LineBlock.LParen").String(), "byte": x.LParen.Pos.Byte})
			}
			prev++
			k.comments(w.f("LineBlock.LParen.Suffix"), x.LParen.Suffix)
			for li, l := range x.Line {
				if k.bad {
					return
				}
				lw := c20Where{fn, si, li, ""}
				k.comments(lw.f("Before"), l.Before)
				if k.pos(k.cur, lw.f("Start"), l.Start) && k.pos(k.cur, lw.f("End"), l.End) {
					order(lw.f("Start"), l.Start.Byte)
					k.span(lw.f("tokens"), l.Token, l.Start, l.End.Byte, checkText)
					order(lw.f("End"), l.End.Byte)
				}
				k.comments(lw.f("Suffix"), l.Suffix)
				if !l.InBlock {
					k.viol("block-line-not-marked-InBlock", map[string]any{"what": lw.f("InBlock").String()})
				}
			}
			k.comments(w.f("LineBlock.RParen.Before"), x.RParen.Before)
			if !k.pos(k.cur, w.f("LineBlock.RParen.Pos"), x.RParen.Pos) {
				continue
			}
			order(w.f("LineBlock.RParen.Pos"), x.RParen.Pos.Byte)
			if x.RParen.Pos.Byte >= len(k.in) || k.in[x.RParen.Pos.Byte] != ')' {
				k.viol("rparen-not-at-paren", map[string]any{"what": w.f("LineBlock.RParen").String(), "byte": x.RParen.Pos.Byte})
				continue
			}
			prev++
			k.comments(w.f("LineBlock.RParen.Suffix"), x.RParen.Suffix)
			k.comments(w.f("LineBlock.Suffix"), x.Suffix)
			s, e := x.Span()
			if s != x.Start || e.Byte != x.RParen.Pos.Byte+1 || !k.pos(k.cur, w.f("LineBlock.Span().end"), e) {
				k.viol("span-method-disagrees", map[string]any{"what": w.f("LineBlock").String(), "end": fmt.Sprint(e)})
			}
			if s, e := x.LParen.Span(); s != x.LParen.Pos || e.Byte != s.Byte+1 || e.Line != s.Line || e.LineRune != s.LineRune+1 {
				k.viol("span-method-disagrees", map[string]any{"what": w.f("LineBlock.LParen").String()})
			}
			if s, e := x.RParen.Span(); s != x.RParen.Pos || e.Byte != s.Byte+1 || e.Line != s.Line || e.LineRune != s.LineRune+1 {
				k.viol("span-method-disagrees", map[string]any{"what": w.f("LineBlock.RParen").String()})
			}
		}
	}
}

// c20Core are the values the lax parser must share with the strict one.
func c20Core(f *modfile.File) []string {
	var v []string
	if f.Module != nil {
		v = append(v, fmt.Sprintf("module %q %q deprecated=%q", f.Module.Mod.Path, f.Module.Mod.Version, f.Module.Deprecated))
	}
	if f.Go != nil {
		v = append(v, fmt.Sprintf("go %q", f.Go.Version))
	}
	for _, r := range f.Require {
		v = append(v, fmt.Sprintf("require %q %q indirect=%t", r.Mod.Path, r.Mod.Version, r.Indirect))
	}
	for _, r := range f.Retract {
		v = append(v, fmt.Sprintf("retract %q %q rationale=%q", r.Low, r.High, r.Rationale))
	}
	return v
}

// c20ModuleTokens counts the lines, block headers and block lines whose first token is the
// bare word `module`.
func c20ModuleTokens(f *modfile.FileSyntax) (n int) {
	for _, st := range f.Stmt {
		switch x := st.(type) {
		case *modfile.Line:
			if len(x.Token) > 0 && x.Token[0] == "module" {
				n++
			}
		case *modfile.LineBlock:
			if len(x.Token) > 0 && x.Token[0] == "module" {
				n++
			}
			for _, l := range x.Line {
				if len(l.Token) > 0 && l.Token[0] == "module" {
					n++
				}
			}
		}
	}
	return n
}

// c20NamedModule is the harness's own reading of what a top-level `module X` line names: X as written
// in the syntax-only tree, with an interpreted ("...") or raw (`...`) string unquoted. ok is false when
// there is no such single line.
func c20NamedModule(f *modfile.FileSyntax) (string, bool) {
	for _, st := range f.Stmt {
		x, isLine := st.(*modfile.Line)
		if !isLine || len(x.Token) != 2 || x.Token[0] != "module" {
			continue
		}
		t := x.Token[1]
		switch {
		case len(t) >= 2 && t[0] == '"':
			u, err := strconv.Unquote(t)
			return u, err == nil
		case len(t) >= 2 && t[0] == '`' && t[len(t)-1] == '`':
			return t[1 : len(t)-1], true
		}
		return t, true
	}
	return "", false
}

func c20FixerErr(path, v string) (string, error) {
	if strings.Contains(v, "1") {
		return "", fmt.Errorf("fixer says no to %q", v)
	}
	return c02Fixer(path, v)
}

type c20Result struct {
	synOK, strictOK, laxOK, workOK bool
	strictCore, laxCore            []string
	modulePath                     string
}

// c20Case runs every monitor on one input.
func c20Case(c *mon.Ctx, id, origin string, in []byte, fixMode int) (res c20Result) {
	k := &c20Run{c: c, id: id, origin: origin, in: in, cur: refmodpos.NewCursor(in), ecur: refmodpos.NewCursor(in)}
	snapshot := append([]byte(nil), in...)
	var fix modfile.VersionFixer
	fixName := ""
	switch fixMode {
	case 1:
		fix, fixName = c02Fixer, "+fixer"
	case 2:
		fix, fixName = c20FixerErr, "+failing-fixer"
	}
	c.Guard(id, func() any { return c02Trunc(in) }, func() {
		// syntax-only parser
		modfileWAL(c, id, in)
		syn, err := modfile.VerifParse("go.mod", in)
		res.synOK = k.outcome("VerifParse", syn == nil, err)
		if res.synOK {
			c.Class("origin:" + origin + ":syntax-accepted")
			k.tree("VerifParse", syn, true)
		} else {
			c.Class("origin:" + origin + ":syntax-rejected")
		}

		// strict
		modfileWAL(c, id, in)
		sf, err := modfile.Parse("go.mod", in, fix)
		res.strictOK = k.outcome("Parse"+fixName, sf == nil, err)
		if res.strictOK {
			c.Class("origin:" + origin + ":strict-accepted")
			res.strictCore = c20Core(sf)
			if sf.Syntax == nil {
				k.viol("file-without-syntax", map[string]any{"fn": "Parse"})
			} else {
				k.cur = refmodpos.NewCursor(in)
				k.tree("Parse", sf.Syntax, false)
			}
		}

		// lax
		modfileWAL(c, id, in)
		lf, err := modfile.ParseLax("go.mod", in, fix)
		res.laxOK = k.outcome("ParseLax"+fixName, lf == nil, err)
		if res.laxOK {
			res.laxCore = c20Core(lf)
			if !res.strictOK {
				c.Class("origin:" + origin + ":lax-only-accepted")
			}
		}
		if res.strictOK {
			c.Eval(1)
			if !res.laxOK {
				k.viol("strict-accepts-lax-rejects", map[string]any{"lax_error": fmt.Sprint(err), "fixer": fixName})
			} else if !c02Equal(res.strictCore, res.laxCore) {
				k.viol("strict-and-lax-values-differ", map[string]any{"diff": c02FirstDiff(res.strictCore, res.laxCore), "fixer": fixName})
			} else {
				for _, v := range res.strictCore {
					c.Class("strict=lax:" + strings.SplitN(v, " ", 2)[0])
				}
			}
		}

		// go.work
		modfileWAL(c, id, in)
		wf, err := modfile.ParseWork("go.work", in, fix)
		res.workOK = k.outcome("ParseWork"+fixName, wf == nil, err)
		if res.workOK {
			c.Class("origin:" + origin + ":work-accepted")
		}
		if res.synOK != true && (res.strictOK || res.laxOK || res.workOK) {
			// not a claim of the statement, but it would invalidate the reasoning of this monitor
			c.Inconclusive(fmt.Sprintf("case %s: a directive-level parser accepted an input the syntax-only parser rejects", id))
		}

		// quick module-path extractor
		modfileWAL(c, id, in)
		res.modulePath = modfile.ModulePath(in)
		c.Eval(1)
		if res.strictOK {
			switch {
			case sf.Module == nil:
				c.Class("modulepath:no-module-directive")
			case sf.Module.Syntax == nil || sf.Module.Syntax.InBlock:
				c.Class("modulepath:unspecified:block-form")
			case syn != nil && c20ModuleTokens(syn) == 1 && func() bool {
				// what the directive names (own reading of the token) is what the strict parser must report
				own, ok := c20NamedModule(syn)
				if ok && refmodpos.PlainImportPath(own) && sf.Module.Mod.Path != own {
					k.viol("strict-module-path-is-not-what-the-directive-names", map[string]any{"directive-names": mon.QS(own), "Parse": mon.QS(sf.Module.Mod.Path), "ModulePath": mon.QS(res.modulePath)})
					return true
				}
				return false
			}():
			case !refmodpos.PlainImportPath(sf.Module.Mod.Path):
				c.Class("modulepath:unspecified:not-a-plain-import-path")
			case syn == nil || c20ModuleTokens(syn) != 1:
				c.Class("modulepath:excluded:known-finding-domain") // another line / header starts with `module`
			default:
				c.Eval(1)
				if res.modulePath != sf.Module.Mod.Path {
					k.viol("modulepath-disagrees-with-strict-parse", map[string]any{"ModulePath": mon.QS(res.modulePath), "Parse": mon.QS(sf.Module.Mod.Path)})
				} else {
					c.Class("modulepath:agrees")
					if bytes.Contains(in, []byte("\"")) && strings.Contains(string(in), "module \"") {
						c.Class("modulepath:agrees:quoted")
					}
				}
			}
		} else if res.modulePath != "" {
			c.Class("modulepath:nonempty-on-rejected-input")
		}
	})
	if !bytes.Equal(in, snapshot) {
		c.Inconclusive(fmt.Sprintf("case %s: the input buffer was modified by a parser, position recomputation is void", id))
	}
	if !k.bad && !res.synOK && len(in) > 0 && len(in) < 80 {
		_, err := modfile.VerifParse("go.mod", in)
		c.Sample("rejected-"+origin, 1, map[string]any{"in": mon.Q(in), "error": fmt.Sprint(err), "ModulePath": res.modulePath})
	}
	if !k.bad && res.synOK && len(in) < 120 {
		c.Sample("accepted-"+origin, 1, map[string]any{"in": mon.Q(in), "strict": res.strictOK, "lax": res.laxOK, "work": res.workOK, "ModulePath": res.modulePath})
	}
	return res
}

func c20RandomBytes(r *rand.Rand) []byte {
	n := r.IntN(64)
	b := make([]byte, n)
	alpha := []byte("ab/.v1\"`()[]{},\n\r\t /*\\'=>\x00\xff\xc3\xa9")
	for i := range b {
		if r.IntN(4) == 0 {
			b[i] = byte(r.IntN(256))
		} else {
			b[i] = alpha[r.IntN(len(alpha))]
		}
	}
	return b
}

func c20Mutate(r *rand.Rand, in []byte, n int) []byte {
	for ; n > 0; n-- {
		if r.IntN(2) == 0 {
			in = gen.ModMutateBytes(r, in)
		} else {
			in = gen.ModMutateTokens(r, in)
		}
	}
	return in
}

func runC20(c *mon.Ctx) {
	r := c.Rng
	n := c.Share(c.Scale(600_000, 24_000_000)) // inputs (a well-formed file and its unknown-statement variant count as two)
	names, corpus := gen.ModTestdata()
	if len(corpus) == 0 {
		c.Count("testdata-corpus-absent", 1)
	}

	if c.Batch == 0 {
		// designated regression input of the known finding (§6.8); never produced by the generators
		if c.Want("modulepath-block-line") {
			in := []byte(c20KnownInput)
			modfileWAL(c, "modulepath-block-line", in)
			f, err := modfile.Parse("go.mod", in, nil)
			got := modfile.ModulePath(in)
			still := err == nil && f != nil && f.Module != nil && got != f.Module.Mod.Path
			c.Finding("modulepath-block-line", still, map[string]any{"in": mon.Q(in), "ModulePath": got, "strict_error": fmt.Sprint(err)})
		}
		for i, b := range corpus {
			id := "corpus:" + names[i]
			if c.Want(id) {
				c20Case(c, id, "testdata", b, 0)
				c20Case(c, id, "testdata", b, 1)
			}
		}
		for i, s := range []string{"", "\n", "\r", "//", "(", ")", "x (", "x ( )", "x (\n", "module", "module ", "module\n", "module \"", "module `x`", "module \"x\" y",
			"\xef\xbb\xbfmodule example.com/m\n", "module example.com/m", "module example.com/m\r\n", "go 1.21\nmodule\texample.com/m // c\n",
			"module \"example.com/m\" // \"\n", "modulex y\nmodule example.com/m\n", "// module a\nmodule example.com/b\n",
			"module `example.com/m`\n", "module `example.com/m` // c\n\ngo 1.21\n", "module example.com/m v2\n", "module example.com/m => ../fork\n", "module \"example.com/m\" \"x\"\n",
			"module example.com/m\n\nreplace example.com/a => b v1.0.0\n", "module example.com/m\n\nreplace example.com/a => Z\n", "module example.com/m\n\nreplace example.com/a => :x\n",
			"module example.com/m\n\nreplace example.com/a => ../a/", "use ./", "module example.com/"} {
			id := fmt.Sprintf("fixed%d", i)
			if c.Want(id) {
				c20Case(c, id, "fixed", []byte(s), 0)
			}
		}
	}

	// very large inputs, a few per batch
	nHuge := 2
	for j := 0; j < nHuge; j++ {
		kind := gen.ModHugeKinds[(c.Batch*nHuge+j)%len(gen.ModHugeKinds)]
		line, toks, parens := 1<<20, 100_000, 10_000
		if r.IntN(2) == 0 {
			line, toks, parens = line+r.IntN(4096), toks+r.IntN(1000), parens+r.IntN(100)
		}
		in := gen.ModHuge(r, kind, line, toks, parens)
		mutate := r.IntN(3) == 0
		if mutate {
			in = gen.ModMutateBytes(r, in)
		}
		id := fmt.Sprintf("huge%d:%s", j, kind)
		if !c.Want(id) {
			continue
		}
		c.Class("huge:" + kind)
		c20Case(c, id, "huge", in, 0)
	}

	rejected := 0
	for i := 0; i < n; i++ {
		id := fmt.Sprintf("i%d", i)
		fixMode := 0
		if r.IntN(4) == 0 {
			fixMode = 1 + r.IntN(2)
		}
		switch kk := r.IntN(20); {
		case kk < 2:
			in := c20RandomBytes(r)
			if c.Want(id) {
				c20Case(c, id, "random-bytes", in, fixMode)
			}
		case kk < 7:
			in := gen.ModTokenSoup(r)
			if c.Want(id) {
				c20Case(c, id, "soup", in, fixMode)
			}
		case kk < 9:
			in := gen.ModStructure(r).Text
			if r.IntN(4) == 0 {
				in = gen.ModSplice(r, in, gen.ModStructure(r).Text)
			}
			if c.Want(id) {
				c20Case(c, id, "structure", in, fixMode)
			}
		case kk < 11 && len(corpus) > 0:
			in := c20Mutate(r, corpus[r.IntN(len(corpus))], 1+r.IntN(3))
			if c.Want(id) {
				c20Case(c, id, "testdata-mutated", in, fixMode)
			}
		case kk < 15:
			d, _ := c02Doc(r)
			in := c20Mutate(r, d.Bytes(), 1+r.IntN(3))
			if c.Want(id) {
				c20Case(c, id, "file-mutated", in, fixMode)
			}
		default:
			// well-formed file, then the same file with unknown directives / blocks inserted
			o := gen.ModOpts{NonCanonical: fixMode == 1 && r.IntN(2) == 0, ExoticModule: r.IntN(5) == 0, NoComments: r.IntN(8) == 0, Plain: r.IntN(12) == 0}
			if fixMode == 2 {
				fixMode = 0
			}
			var d *gen.ModDoc
			if r.IntN(5) == 0 {
				d = gen.GoWork(r, o)
			} else {
				d = gen.GoMod(r, o)
			}
			u := d.WithUnknown(r, 1+r.IntN(3))
			i++ // this case hands two inputs to the parsers
			if !c.Want(id) {
				continue
			}
			in, uin := d.Bytes(), u.Bytes()
			if d.Work {
				res := c20Case(c, id, "go.work", in, fixMode)
				if !res.workOK {
					rejected++
					c.Sample("a-well-formed-file-rejected", 3, map[string]any{"in": c02Trunc(in), "kind": "go.work"})
				}
				ures := c20Case(c, id, "go.work+unknown", uin, fixMode)
				c.Eval(1)
				if res.workOK && ures.workOK {
					c.Violation("parsework-accepts-unknown-statement", id, map[string]any{"in": c02Trunc(uin)})
				}
				continue
			}
			res := c20Case(c, id, "go.mod", in, fixMode)
			if !res.strictOK {
				rejected++
				c.Sample("a-well-formed-file-rejected", 3, map[string]any{"in": c02Trunc(in), "kind": "go.mod"})
				continue
			}
			if d.ModuleSingleLine && d.ModuleValid {
				c.Class("go.mod:single-line-valid-module")
			}
			ures := c20Case(c, id, "go.mod+unknown", uin, fixMode)
			c.Eval(1)
			switch {
			case ures.strictOK:
				c.Violation("strict-accepts-unknown-statement", id, map[string]any{"in": c02Trunc(uin), "base": c02Trunc(in)})
			case !ures.laxOK:
				c.Violation("lax-rejects-file-with-unknown-statements", id, map[string]any{"in": c02Trunc(uin), "base": c02Trunc(in)})
			case !c02Equal(res.strictCore, ures.laxCore):
				c.Violation("lax-values-change-with-unknown-statements", id, map[string]any{"in": c02Trunc(uin), "base": c02Trunc(in), "diff": c02FirstDiff(res.strictCore, ures.laxCore)})
			default:
				c.Class("unknown-inserted:lax-accepts-same-values:strict-rejects")
			}
		}
	}
	if rejected > 0 {
		c.Inconclusive(fmt.Sprintf("the strict parser rejected %d unmutated well-formed generated files in batch %d (lost reach; see samples a-well-formed-file-rejected)", rejected, c.Batch))
	}
}
