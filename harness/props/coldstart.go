package props

import (
	"encoding/json"
	"fmt"
	"os"
	"os/exec"
	"path/filepath"
	"strings"
	"sync"
	"sync/atomic"

	"golang.org/x/mod/module"

	"verif/harness/mon"
	"verif/harness/ref/refpath"
)

// Cold start under concurrency: the very first uses of package module in a process, made from sixteen
// goroutines released together. Whatever the package sets up lazily must be ready for all of them: each
// verdict is compared with the harness's own reading of the documented rules. A process can be cold
// only once, so the parent re-executes the worker binary several times per batch with a child case id;
// the child reports through its ordinary report file.

var coldInputs = []string{
	"example.com/z~z/zz_zz/zzz", "github.com/Azure/x-y.z", "gopkg.in/yaml.v2", "a.b/C0-9_~.x", "example.com/abcdefghijklmnopqrstuvwxyz/ABCDEFGHIJKLMNOPQRSTUVWXYZ/0123456789",
	"example.com/x/LPT8.txt", "example.com/com9", "example.com/NUL/x", "example.com/aux.go", "example.com/Con.tar.gz", "example.com/lpt1", "example.com/PRN",
	"example.com/a b", "example.com/é", "example.com/a!b", "example.com/x.", "example.com//y", "Example.com/x", "example.com/a~1",
}

const coldChildPrefix = "coldstart-child:"

// coldStartChild is the child side; it must run before anything else touches package module.
func coldStartChild(c *mon.Ctx) {
	const G = 16
	var ready, bad atomic.Int64
	var start atomic.Bool
	var mu sync.Mutex
	var wrong []string
	var wg sync.WaitGroup
	// what the documented rules say, worked out before anybody touches the package
	type want struct {
		in   string
		kind refpath.Kind
		st   refpath.Status
	}
	var wants []want
	for _, in := range coldInputs {
		for _, k := range []refpath.Kind{refpath.Module, refpath.Import, refpath.File} {
			if st := refpath.Check(in, k).Status(); st != refpath.Unspecified {
				wants = append(wants, want{in, k, st})
			}
		}
	}
	escapes := map[string]string{}
	for _, in := range coldInputs {
		if refpath.Check(in, refpath.Module).Status() == refpath.Valid {
			escapes[in] = refpath.Escape(in)
		}
	}
	for g := 0; g < G; g++ {
		wg.Add(1)
		go func(g int) {
			defer wg.Done()
			ready.Add(1)
			for !start.Load() {
			}
			// the very first instruction after the barrier is a call into the package
			for i := range wants {
				wt := wants[(i+g*7)%len(wants)]
				if g%2 == 0 {
					wt = wants[i]
				}
				var err error
				switch wt.kind {
				case refpath.Module:
					err = module.CheckPath(wt.in)
				case refpath.Import:
					err = module.CheckImportPath(wt.in)
				default:
					err = module.CheckFilePath(wt.in)
				}
				if (err == nil) != (wt.st == refpath.Valid) {
					bad.Add(1)
					mu.Lock()
					wrong = append(wrong, fmt.Sprintf("goroutine %d: %s path %q: accepted=%t, documented rules say %s", g, wt.kind, wt.in, err == nil, wt.st))
					mu.Unlock()
				}
			}
			for in, wantEsc := range escapes {
				esc, err := module.EscapePath(in)
				back, err2 := module.UnescapePath(esc)
				if err != nil || err2 != nil || esc != wantEsc || back != in {
					bad.Add(1)
					mu.Lock()
					wrong = append(wrong, fmt.Sprintf("goroutine %d: escape round trip of %q: %q %v / %q %v", g, in, esc, err, back, err2))
					mu.Unlock()
				}
			}
		}(g)
	}
	for ready.Load() < G {
	}
	start.Store(true)
	wg.Wait()
	c.Eval(1)
	if bad.Load() > 0 {
		if len(wrong) > 8 {
			wrong = wrong[:8]
		}
		c.Violation("first-concurrent-uses-misjudge-paths", c.ReplayCase, map[string]any{"wrong": wrong, "count": bad.Load()})
	}
	c.Class("cold-start:child-ran")
}

// coldStart is the parent side.
func coldStart(c *mon.Ctx, prop string) {
	if c.ReplayCase != "" && !strings.HasPrefix(c.ReplayCase, "coldstart:") {
		return
	}
	dir, err := os.MkdirTemp("", fmt.Sprintf("coldstart-%s-b%d-", prop, c.Batch))
	if err != nil {
		c.Inconclusive("cold start: " + err.Error())
		return
	}
	defer os.RemoveAll(dir)
	n := c.Scale(12, 60)
	for k := 0; k < n; k++ {
		id := fmt.Sprintf("coldstart:%d", k)
		if !c.Want(id) {
			continue
		}
		out := filepath.Join(dir, fmt.Sprintf("child%d.json", k))
		cmd := exec.Command(os.Args[0], "-prop", prop, "-tier", c.Tier, "-seed", fmt.Sprint(c.Seed), "-batch", fmt.Sprint(c.Batch), "-nbatch", fmt.Sprint(c.NBatch),
			"-out", out, "-wal", filepath.Join(dir, fmt.Sprintf("child%d.wal", k)), "-case", fmt.Sprintf("%s%d", coldChildPrefix, k))
		cmd.Env = append(os.Environ(), "GOMAXPROCS=16")
		outb, err := cmd.CombinedOutput()
		c.Eval(1)
		raw, rerr := os.ReadFile(out)
		var rep struct {
			Violations []struct {
				Class  string `json:"class"`
				Detail any    `json:"detail"`
			} `json:"violations"`
		}
		if err != nil || rerr != nil || json.Unmarshal(raw, &rep) != nil {
			txt := string(outb)
			if len(txt) > 3000 {
				txt = txt[:3000]
			}
			if strings.Contains(txt, "golang.org/x/mod/") && (strings.Contains(txt, "fatal error:") || strings.Contains(txt, "panic:")) {
				c.Violation("first-concurrent-uses-crash", id, map[string]any{"output": txt})
			} else {
				c.Inconclusive(fmt.Sprintf("cold start child %d failed: %v / %v: %s", k, err, rerr, txt))
			}
			continue
		}
		for _, v := range rep.Violations {
			c.Violation(v.Class, id, v.Detail)
		}
		c.Class("cold-start:sixteen-goroutines-first-use")
	}
}
