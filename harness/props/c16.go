package props

// C16 — bulk requirement and use setters produce exactly the requested set.
//
// Workload: generated starting files (duplicated paths, several blocks,
// commented blocks, single lines, and a good share of files whose only
// requirements are one uncommented line or block) × requested lists with
// distinct paths (0…8 entries, overlapping the file by 0…100 %). One case is
// 1…3 rounds of: strict parse, [Cleanup,] Set*, Cleanup, Format, strict
// re-parse; the output of a round is the starting file of the next.
// Oracle, per round: exactly one directive per requested path with the
// requested version and indirect marking and none for any other path (in the
// re-parse and in the Require/Use list); every block in its documented order
// (own comparators in ref/refmodfile); the tagged comments of kept lines still
// on them; for qualifying files, SetRequireSeparateIndirect leaves no
// statement holding both direct and indirect requirements.

import (
	"fmt"
	"math/rand/v2"
	"sort"
	"strings"

	"golang.org/x/mod/modfile"

	"verif/harness/gen"
	"verif/harness/mon"
	"verif/harness/ref/refmodfile"
)

func init() { Registry["C16"] = runC16 }

// c16Regression is the minimal witness of the SetUse defect found on golang.org/x/mod
// v0.22.0 and repaired in /repo (DESIGN.md §6.7); it runs through the ordinary oracle.
func c16Regression(c *mon.Ctx) {
	const id = "fixed-6.7-setuse"
	if c.Batch != 0 || !c.Want(id) {
		return
	}
	c.Class("regression:" + id)
	ef := &gen.EditFile{Work: true, Text: "use (\n\t./a\n\t./b\n\t./a\n)\n"}
	var log []string
	witness := func() map[string]any { return map[string]any{"start": ef.Text, "rounds": log} }
	c.Guard(id, func() any { return witness() }, func() {
		c16RoundRun(c, id, ef, 0, c16Round{setter: "SetUse", dirs: []string{"./a", "./c"}}, ceditModel(ef), ceditLinesByUID(ef), ef.Text, &log, witness)
	})
}

func runC16(c *mon.Ctx) {
	c16Regression(c)
	n := c.Share(c.Scale(90_000, 1_000_000))
	for i := 0; i < n; i++ {
		c16Case(c, "SetRequire", fmt.Sprintf("sr%d", i))
		c16Case(c, "SetRequireSeparateIndirect", fmt.Sprintf("ss%d", i))
		c16Case(c, "SetUse", fmt.Sprintf("su%d", i))
	}
}

// paths and directories that never occur in a starting file (requested entries that must be added)
var c16ExtraPaths = []string{"e.com/q", "f.com/r/v3", "g.com/s", "h.com/t"}
var c16ExtraVers = map[string][]string{
	"e.com/q":    {"v1.0.0-pre", "v1.0.0", "v1.5.0"},
	"f.com/r/v3": {"v3.0.0", "v3.0.1", "v3.10.0"},
	"g.com/s":    {"v0.2.0", "v1.0.0", "v1.0.1"},
	"h.com/t":    {"v0.0.0-20240101000000-abcdefabcdef", "v0.1.0", "v1.0.0"},
}
var c16ExtraDirs = []string{"./g", "../h", "./i j"}

type c16Carry struct {
	mf *modfile.File
	wf *modfile.WorkFile
}

type c16Round struct {
	setter     string
	preCleanup bool
	preGo      string    // go version set on the same structure before the bulk call ("" = none)
	preDrop    []int     // exclusions (indices modulo the number the file has) withdrawn before the bulk call, without a Cleanup of their own
	carry      *c16Carry // non-nil: later rounds go on with the structure of the previous round instead of re-parsing its output
	reqs       []refmodfile.Req
	dirs       []string
}

// c16Request draws a requested list: a random subset of the universe of the
// files plus a random subset of paths no file contains.
func c16Request(r *rand.Rand, work bool) (reqs []refmodfile.Req, dirs []string) {
	if work {
		pool := append(append([]string(nil), gen.EditUseDirs...), c16ExtraDirs...)
		r.Shuffle(len(pool), func(i, j int) { pool[i], pool[j] = pool[j], pool[i] })
		return nil, pool[:r.IntN(len(pool)+1)]
	}
	nIn, nOut := r.IntN(len(gen.EditPaths)+1), r.IntN(len(c16ExtraPaths)+1)
	if r.IntN(3) == 0 {
		nOut = 0
	}
	pi, po := r.Perm(len(gen.EditPaths)), r.Perm(len(c16ExtraPaths))
	for _, k := range pi[:nIn] {
		p := gen.EditPaths[k]
		reqs = append(reqs, refmodfile.Req{Path: p, Vers: gen.Pick(r, gen.EditVers[p]), Indirect: r.IntN(2) == 0})
	}
	for _, k := range po[:nOut] {
		p := c16ExtraPaths[k]
		reqs = append(reqs, refmodfile.Req{Path: p, Vers: gen.Pick(r, c16ExtraVers[p]), Indirect: r.IntN(2) == 0})
	}
	r.Shuffle(len(reqs), func(i, j int) { reqs[i], reqs[j] = reqs[j], reqs[i] })
	return reqs, nil
}

// c16Qualifies decides from the syntax tree of a starting file whether "the
// file's only requirements are one uncommented line or block": exactly one
// require statement, no comment on it or inside it other than "// indirect".
// unspecified: an additional empty require block makes "only" ambiguous.
func c16Qualifies(fs *modfile.FileSyntax) (q bool, form string, unspecified bool) {
	n, empty := 0, 0
	bare := true
	plain := func(c *modfile.Comments, suffixIndirectOK bool) bool {
		if len(c.Before) > 0 || len(c.After) > 0 {
			return false
		}
		switch len(c.Suffix) {
		case 0:
			return true
		case 1:
			return suffixIndirectOK && strings.TrimSpace(strings.TrimPrefix(c.Suffix[0].Token, "//")) == "indirect"
		}
		return false
	}
	for _, st := range fs.Stmt {
		switch st := st.(type) {
		case *modfile.Line:
			if len(st.Token) > 0 && st.Token[0] == "require" {
				n++
				form = "line"
				if !plain(&st.Comments, true) {
					bare = false
				}
			}
		case *modfile.LineBlock:
			if len(st.Token) == 1 && st.Token[0] == "require" {
				if len(st.Line) == 0 {
					empty++
					continue
				}
				n++
				form = "block"
				if !plain(&st.Comments, false) || !plain(&st.LParen.Comments, false) || !plain(&st.RParen.Comments, false) {
					bare = false
				}
				for _, l := range st.Line {
					if !plain(&l.Comments, true) {
						bare = false
					}
				}
			}
		}
	}
	if n == 1 && bare && empty > 0 {
		return false, form, true
	}
	return n == 1 && bare, form, false
}

func c16Case(c *mon.Ctx, setter, id string) {
	r := c.Rng
	work := setter == "SetUse"
	// All random choices of the case are drawn before the replay filter.
	ef := gen.EditGenFile(r, gen.EditOpts{Work: work, Bulk: true})
	var rounds [3]c16Round
	for i := range rounds {
		rounds[i].setter = setter
		if !work && i > 0 && r.IntN(2) == 0 {
			rounds[i].setter = gen.Pick(r, []string{"SetRequire", "SetRequireSeparateIndirect"})
		}
		rounds[i].preCleanup = r.IntN(2) == 0
		if !work && r.IntN(4) == 0 {
			// the language version is changed on the same structure first: the block orders are those of
			// the version the file then declares
			rounds[i].preGo = gen.Pick(r, []string{"1.20", "1.21", "1.20.5", "1.21.0", "1.22rc1", "1.9", "1.100"})
		}
		if !work && r.IntN(3) == 0 {
			// the usual pattern: several edits, one Cleanup at the end. The withdrawn lines are still in
			// their block, marked dead, when the bulk call sorts it.
			for k := r.IntN(3); k >= 0; k-- {
				rounds[i].preDrop = append(rounds[i].preDrop, r.IntN(64))
			}
		}
		rounds[i].reqs, rounds[i].dirs = c16Request(r, work)
	}
	nRounds := 1
	if r.IntN(4) == 0 {
		nRounds = 2 + r.IntN(2)
	}
	if r.IntN(2) == 0 {
		carry := &c16Carry{}
		for i := range rounds {
			rounds[i].carry = carry
		}
	}
	if !c.Want(id) {
		return
	}
	c.WAL(id, []byte(ef.Text))
	model := ceditModel(ef)
	byUID := ceditLinesByUID(ef)
	text := ef.Text
	var log []string
	witness := func() map[string]any {
		return map[string]any{"start": ef.Text, "rounds": log, "round_input": text}
	}
	for ri := 0; ri < nRounds; ri++ {
		rd := rounds[ri]
		ok := false
		c.Guard(id, func() any { return witness() }, func() {
			var out string
			out, ok = c16RoundRun(c, id, ef, ri, rd, model, byUID, text, &log, witness)
			text = out
		})
		if !ok {
			return
		}
	}
}

// c16RoundRun runs and decides one round; it returns the formatted output and
// whether the case may continue with another round.
func c16RoundRun(c *mon.Ctx, id string, ef *gen.EditFile, ri int, rd c16Round, model *refmodfile.File,
	byUID map[int]*gen.EditLine, text string, log *[]string, witness func() map[string]any) (string, bool) {
	work := ef.Work
	name := "go.mod"
	if work {
		name = "go.work"
	}
	var mf, mf2 *modfile.File
	var wf, wf2 *modfile.WorkFile
	var err error
	switch {
	case rd.carry != nil && ri > 0 && (rd.carry.mf != nil || rd.carry.wf != nil):
		mf, wf = rd.carry.mf, rd.carry.wf
		c.Class("round-on-the-same-structure")
	case work:
		wf, err = modfile.ParseWork(name, []byte(text), nil)
	default:
		mf, err = modfile.Parse(name, []byte(text), nil)
	}
	if rd.carry != nil {
		rd.carry.mf, rd.carry.wf = mf, wf
	}
	if err != nil {
		c.Inconclusive(fmt.Sprintf("starting file of round %d does not parse (%s): %v\n%s", ri, id, err, text))
		return "", false
	}
	desc := strings.TrimPrefix(ceditOp{Kind: rd.setter, Reqs: rd.reqs, Dirs: rd.dirs}.String(), "Cleanup;")
	if rd.preCleanup {
		desc = "Cleanup;" + desc
	}
	if rd.preGo != "" {
		desc = "AddGoStmt(" + rd.preGo + ");" + desc
	}
	for _, k := range rd.preDrop {
		if n := len(model.Exc); n > 0 {
			e := model.Exc[k%n]
			if derr := mf.DropExclude(e.Path, e.Vers); derr != nil {
				c.Inconclusive(fmt.Sprintf("DropExclude(%s,%s) refused (%s): %v", e.Path, e.Vers, id, derr))
				return "", false
			}
			model.DropExclude(e.Path, e.Vers)
			desc = "DropExclude(" + e.Path + "," + e.Vers + ");" + desc
			c.Class("pre-drop-exclude")
		}
	}
	*log = append(*log, desc)

	// facts about the starting file of this round, taken before the call
	qualifies, qform, qUnspec := false, "", false
	wasIndirect := map[int]bool{}
	if !work {
		qualifies, qform, qUnspec = c16Qualifies(mf.Syntax)
		if ri == 0 && !qUnspec && qualifies != (ef.ReqStmts == 1 && ef.ReqBare) {
			c.Inconclusive(fmt.Sprintf("harness: generator and syntax tree disagree on the one-uncommented-block shape (%s)\n%s", id, text))
			return "", false
		}
		for _, q := range model.Req {
			wasIndirect[q.UID] = q.Indirect
		}
	}

	var out []byte
	var effect string
	switch rd.setter {
	case "SetUse":
		if rd.preCleanup {
			wf.Cleanup()
		}
		var us []*modfile.Use
		for _, d := range rd.dirs {
			us = append(us, &modfile.Use{Path: d})
		}
		wf.SetUse(us)
		wf.Cleanup()
		out = modfile.Format(wf.Syntax)
		wf2, err = modfile.ParseWork(name, out, nil)
		effect, _ = model.SetUse(rd.dirs)
	default:
		if rd.preGo != "" {
			if gerr := mf.AddGoStmt(rd.preGo); gerr != nil {
				c.Inconclusive(fmt.Sprintf("AddGoStmt(%s) refused (%s): %v", rd.preGo, id, gerr))
				return "", false
			}
			model.AddGoStmt(rd.preGo)
			c.Class("pre-go:" + rd.preGo)
		}
		if rd.preCleanup {
			mf.Cleanup()
		}
		if rd.setter == "SetRequire" {
			mf.SetRequire(ceditRequires(rd.reqs))
		} else {
			mf.SetRequireSeparateIndirect(ceditRequires(rd.reqs))
		}
		mf.Cleanup()
		out, _ = mf.Format()
		mf2, err = modfile.Parse(name, out, nil)
		effect, _ = model.SetRequire(rd.reqs)
	}
	c.Eval(1)
	c.Count("rounds:"+rd.setter, 1)
	c.Class(fmt.Sprintf("set:%s:%s", rd.setter, effect))
	if ri > 0 {
		c.Class(fmt.Sprintf("round:%d:%s", ri+1, rd.setter))
	}
	fail := func(class string, extra map[string]any) (string, bool) {
		w := witness()
		w["out"] = string(out)
		for k, v := range extra {
			w[k] = v
		}
		c.Violation(class, id, w)
		return "", false
	}
	if err != nil {
		return fail("reparse", map[string]any{"error": err.Error()})
	}

	// 1. exact set, in the re-parse and in the structure's own list
	want := map[string]string{} // key -> canonical directive
	if work {
		for _, d := range rd.dirs {
			want[d] = refmodfile.FmtUse(d)
		}
	} else {
		for _, q := range rd.reqs {
			want[q.Path] = refmodfile.FmtRequire(q.Path, q.Vers, q.Indirect)
		}
	}
	type ent struct{ key, dir string }
	type sideT struct {
		name string
		l    []ent
	}
	var sides [2]sideT
	if work {
		sides[0].name, sides[1].name = "file", "Use list"
		for _, u := range wf2.Use {
			sides[0].l = append(sides[0].l, ent{u.Path, refmodfile.FmtUse(u.Path)})
		}
		for _, u := range wf.Use {
			sides[1].l = append(sides[1].l, ent{u.Path, refmodfile.FmtUse(u.Path)})
		}
	} else {
		sides[0].name, sides[1].name = "file", "Require list"
		for _, q := range mf2.Require {
			sides[0].l = append(sides[0].l, ent{q.Mod.Path, refmodfile.FmtRequire(q.Mod.Path, q.Mod.Version, q.Indirect)})
		}
		for _, q := range mf.Require {
			sides[1].l = append(sides[1].l, ent{q.Mod.Path, refmodfile.FmtRequire(q.Mod.Path, q.Mod.Version, q.Indirect)})
		}
	}
	keys := make([]string, 0, len(want))
	for k := range want {
		keys = append(keys, k)
	}
	sort.Strings(keys)
	for _, side := range sides {
		got := map[string]int{}
		for _, e := range side.l {
			got[e.key]++
			w, ok := want[e.key]
			switch {
			case !ok:
				return fail("exact-set:unrequested-path-present", map[string]any{"side": side.name, "entry": e.dir})
			case w != e.dir:
				cls := "exact-set:wrong-version"
				if strings.HasSuffix(w, " indirect") != strings.HasSuffix(e.dir, " indirect") {
					cls = "exact-set:wrong-indirect-marking"
				}
				return fail(cls, map[string]any{"side": side.name, "entry": e.dir, "requested": w})
			}
		}
		for _, k := range keys {
			switch {
			case got[k] == 0:
				return fail("exact-set:requested-path-missing", map[string]any{"side": side.name, "requested": want[k]})
			case got[k] > 1:
				return fail("exact-set:requested-path-duplicated", map[string]any{"side": side.name, "requested": want[k], "count": got[k]})
			}
		}
	}

	// 2. block order
	var fs2 *modfile.FileSyntax
	if work {
		fs2 = wf2.Syntax
	} else {
		fs2 = mf2.Syntax
	}
	gov := ""
	if model.Go.Present {
		gov = model.Go.Val
	}
	for _, st := range fs2.Stmt {
		blk, ok := st.(*modfile.LineBlock)
		if !ok || len(blk.Token) != 1 {
			continue
		}
		verb := blk.Token[0]
		kind, ok := refmodfile.OrderKind(verb, gov, work)
		if !ok {
			c.Class("order:unspecified:" + verb + ":go=" + gov)
			continue
		}
		lines := make([][]string, len(blk.Line))
		for i, l := range blk.Line {
			lines[i] = l.Token
		}
		c.Eval(1)
		size := "n=1"
		if len(lines) > 1 {
			size = "n>=2"
		}
		c.Class("order:" + verb + ":" + kind + ":" + size)
		if i := refmodfile.FirstDisorder(kind, lines); i >= 0 {
			return fail("block-order:"+verb+":"+kind, map[string]any{"block": verb, "go": gov, "first": lines[i], "second": lines[i+1]})
		}
		// the comparator choice mattered: the same block is out of order under the other comparator
		if kind != "lexical" && refmodfile.FirstDisorder("lexical", lines) >= 0 {
			c.Class("order:" + verb + ":" + kind + ":differs-from-lexical")
		}
		if kind == "lexical" && verb == "exclude" && refmodfile.FirstDisorder("exclude-semver", lines) >= 0 {
			c.Class("order:exclude:lexical:differs-from-semver")
		}
	}

	// 3. comments of kept lines
	idx := ceditTagIndex(fs2)
	dirs := ceditLineDirs(mf2, wf2)
	checkKept := func(uid int, wantDir, flip string) bool {
		if uid == 0 {
			return true
		}
		el := byUID[uid]
		if !el.TagB && !el.TagS {
			return true
		}
		c.Eval(1)
		c.Class("comments:kept:" + rd.setter + ":" + ceditTagKind(el) + flip)
		if res := ceditTagCheck(idx, dirs, el, wantDir); res != "" {
			fail("kept-line-comment-lost", map[string]any{"line": wantDir, "uid": uid, "problem": res})
			return false
		}
		return true
	}
	if work {
		for _, u := range model.Use {
			if !checkKept(u.UID, refmodfile.FmtUse(u.Path), "") {
				return "", false
			}
		}
	} else {
		for _, q := range model.Req {
			flip := ":marking-unchanged"
			if was, ok := wasIndirect[q.UID]; ok && q.UID != 0 && was != q.Indirect {
				flip = ":direct->indirect"
				if was {
					flip = ":indirect->direct"
				}
			}
			if !checkKept(q.UID, refmodfile.FmtRequire(q.Path, q.Vers, q.Indirect), flip) {
				return "", false
			}
			// The end-of-line comment of a kept line, read with the documented marker rule (own reading,
			// not the parser's): apart from the "indirect" marker its text must be what it was, and the
			// marker must be present exactly when the requirement was requested as indirect.
			if el := byUID[q.UID]; q.UID != 0 && el != nil && el.TagS {
				if loc := idx[fmt.Sprintf("s%d", q.UID)]; loc != nil && loc.Line != nil && len(loc.Line.Suffix) > 0 {
					text := strings.TrimSpace(strings.TrimPrefix(strings.TrimSpace(loc.Line.Suffix[0].Token), "//"))
					marker, note := false, text
					switch {
					case text == "indirect":
						marker, note = true, ""
					case strings.HasPrefix(text, "indirect;"):
						marker, note = true, strings.TrimSpace(strings.TrimPrefix(text, "indirect;"))
					}
					c.Eval(1)
					if note != el.SuffixNote {
						fail("kept-line-comment-changed", map[string]any{"uid": q.UID, "comment_now": loc.Line.Suffix[0].Token, "note_before": el.SuffixNote})
						return "", false
					}
					if marker != q.Indirect {
						fail("exact-set:wrong-indirect-marking", map[string]any{"uid": q.UID, "path": q.Path, "requested_indirect": q.Indirect, "comment_now": loc.Line.Suffix[0].Token})
						return "", false
					}
					if strings.HasPrefix(el.SuffixNote, "indirect") {
						c.Class("comments:kept:note-starts-with-the-word-indirect" + flip)
					}
				}
			}
		}
	}

	// 4. separation of direct and indirect requirements
	if rd.setter == "SetRequireSeparateIndirect" {
		nd, ni := 0, 0
		for _, q := range rd.reqs {
			if q.Indirect {
				ni++
			} else {
				nd++
			}
		}
		mix := "requested:direct+indirect"
		switch {
		case nd == 0 && ni == 0:
			mix = "requested:none"
		case nd == 0:
			mix = "requested:only-indirect"
		case ni == 0:
			mix = "requested:only-direct"
		}
		switch {
		case qUnspec:
			c.Class("separation:unspecified:extra-empty-require-block")
		case !qualifies:
			c.Class("separation:not-qualifying")
		default:
			c.Eval(1)
			c.Class("separation:qualifying:" + qform + ":" + mix)
			isInd := map[*modfile.Line]bool{}
			isReq := map[*modfile.Line]bool{}
			for _, q := range mf2.Require {
				isReq[q.Syntax] = true
				isInd[q.Syntax] = q.Indirect
			}
			stmts := 0
			for _, st := range fs2.Stmt {
				switch st := st.(type) {
				case *modfile.Line:
					if isReq[st] {
						stmts++
					}
				case *modfile.LineBlock:
					d, in := 0, 0
					for _, l := range st.Line {
						if isReq[l] {
							if isInd[l] {
								in++
							} else {
								d++
							}
						}
					}
					if d+in > 0 {
						stmts++
					}
					if d > 0 && in > 0 {
						return fail("separation:direct-and-indirect-in-one-block", map[string]any{"direct": d, "indirect": in})
					}
				}
			}
			if stmts > 2 {
				return fail("separation:more-than-two-require-statements", map[string]any{"statements": stmts})
			}
		}
	}
	if ri == 0 {
		c.Sample("case:"+rd.setter, 2, map[string]any{"start": ef.Text, "call": desc, "out": string(out)})
	}
	return string(out), true
}
