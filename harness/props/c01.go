package props

import (
	"bytes"
	"fmt"
	"math/rand/v2"
	"sort"
	"strings"

	"golang.org/x/mod/sumdb"

	"verif/harness/mon"
	"verif/harness/ref/refmerkle"
	"verif/harness/world"
)

func init() { Registry["C01"] = runC01 }

const c01Name = "localhost.localdev/sumdb"

// c01Mut is a response mutator: given the honest bytes it returns the faulted response.
type c01Mut struct {
	name   string
	lookup bool // applies to /lookup/ responses
	tile   bool // applies to /tile/ responses
	f      func(r *rand.Rand, s *c01Scn, path string, honest []byte) ([]byte, error)
}

type c01Scn struct {
	log    *world.Log
	n, h   int
	rec    int
	key    *world.Key
	evil   *world.Key
	forged *refmerkle.Log
}

func c01flip(r *rand.Rand, d []byte, lo, hi int) []byte {
	o := append([]byte(nil), d...)
	if hi > len(o) {
		hi = len(o)
	}
	if hi <= lo {
		return append(o, 1)
	}
	o[lo+r.IntN(hi-lo)] ^= 1 << uint(r.IntN(8))
	return o
}

var c01Mutators = []c01Mut{
	{"flip-bit", true, true, func(r *rand.Rand, s *c01Scn, p string, d []byte) ([]byte, error) {
		return c01flip(r, d, 0, len(d)), nil
	}},
	{"truncate-1", true, true, func(r *rand.Rand, s *c01Scn, p string, d []byte) ([]byte, error) {
		if len(d) == 0 {
			return []byte{0}, nil
		}
		return d[:len(d)-1], nil
	}},
	{"truncate-32", true, true, func(r *rand.Rand, s *c01Scn, p string, d []byte) ([]byte, error) {
		if len(d) < 32 {
			return nil, nil
		}
		return d[:len(d)-32], nil
	}},
	{"empty", true, true, func(r *rand.Rand, s *c01Scn, p string, d []byte) ([]byte, error) { return nil, nil }},
	{"extend-1", true, true, func(r *rand.Rand, s *c01Scn, p string, d []byte) ([]byte, error) {
		return append(append([]byte(nil), d...), 'x'), nil
	}},
	{"extend-32", true, true, func(r *rand.Rand, s *c01Scn, p string, d []byte) ([]byte, error) {
		return append(append([]byte(nil), d...), make([]byte, 32)...), nil
	}},
	{"error", true, true, func(r *rand.Rand, s *c01Scn, p string, d []byte) ([]byte, error) {
		return nil, fmt.Errorf("injected network error")
	}},
	// ---- tile specific
	{"flip-first-slot", false, true, func(r *rand.Rand, s *c01Scn, p string, d []byte) ([]byte, error) { return c01flip(r, d, 0, 32), nil }},
	{"flip-last-slot", false, true, func(r *rand.Rand, s *c01Scn, p string, d []byte) ([]byte, error) {
		return c01flip(r, d, len(d)-32, len(d)), nil
	}},
	{"flip-random-slot", false, true, func(r *rand.Rand, s *c01Scn, p string, d []byte) ([]byte, error) {
		w := len(d) / 32
		if w == 0 {
			return []byte{1}, nil
		}
		k := r.IntN(w)
		return c01flip(r, d, k*32, k*32+32), nil
	}},
	{"duplicate-slot", false, true, func(r *rand.Rand, s *c01Scn, p string, d []byte) ([]byte, error) {
		o := append([]byte(nil), d...)
		if len(o) < 64 {
			return c01flip(r, o, 0, len(o)), nil
		}
		k := r.IntN(len(o)/32 - 1)
		copy(o[(k+1)*32:(k+2)*32], o[k*32:(k+1)*32])
		return o, nil
	}},
	{"swap-slots", false, true, func(r *rand.Rand, s *c01Scn, p string, d []byte) ([]byte, error) {
		o := append([]byte(nil), d...)
		if len(o) < 64 {
			return c01flip(r, o, 0, len(o)), nil
		}
		k := r.IntN(len(o)/32 - 1)
		copy(o[k*32:(k+1)*32], d[(k+1)*32:(k+2)*32])
		copy(o[(k+1)*32:(k+2)*32], d[k*32:(k+1)*32])
		return o, nil
	}},
	{"zero", false, true, func(r *rand.Rand, s *c01Scn, p string, d []byte) ([]byte, error) { return make([]byte, len(d)), nil }},
	{"other-tile", false, true, func(r *rand.Rand, s *c01Scn, p string, d []byte) ([]byte, error) {
		t, ok := refmerkle.ParseTilePath(strings.TrimPrefix(p, "/"))
		if ok {
			for _, ct := range []refmerkle.Tile{{H: t.H, L: t.L, N: t.N + 1, W: t.W}, {H: t.H, L: t.L, N: t.N - 1, W: 1 << uint(t.H)},
				{H: t.H, L: t.L + 1, N: t.N >> uint(t.H), W: 1}, {H: t.H, L: t.L - 1, N: t.N << uint(t.H), W: 1 << uint(t.H)}} {
				if ct.L >= 0 && ct.N >= 0 {
					if o, ok := s.log.Tile(ct, s.n); ok && !bytes.Equal(o, d) {
						out := make([]byte, len(d))
						for i := range out {
							out[i] = o[i%len(o)]
						}
						return out, nil
					}
				}
			}
		}
		return c01flip(r, d, 0, len(d)), nil
	}},
	// ---- lookup specific
	{"flip-in-record-text", true, false, func(r *rand.Rand, s *c01Scn, p string, d []byte) ([]byte, error) {
		i := bytes.IndexByte(d, '\n')
		j := bytes.Index(d, []byte("\n\n"))
		return c01flip(r, d, i+1, j), nil
	}},
	{"flip-in-signature", true, false, func(r *rand.Rand, s *c01Scn, p string, d []byte) ([]byte, error) {
		j := bytes.LastIndex(d, []byte("\n\n"))
		return c01flip(r, d, j+2, len(d)-1), nil
	}},
	{"flip-in-tree-text", true, false, func(r *rand.Rand, s *c01Scn, p string, d []byte) ([]byte, error) {
		i := bytes.Index(d, []byte("\n\n"))
		j := bytes.LastIndex(d, []byte("\n\n"))
		return c01flip(r, d, i+2, j), nil
	}},
	{"other-authentic-record", true, false, func(r *rand.Rand, s *c01Scn, p string, d []byte) ([]byte, error) {
		o := (s.rec + 1 + r.IntN(s.n)) % s.n
		return s.log.LookupResponse(o, s.n), nil
	}},
	{"stale-head-containing-record", true, false, func(r *rand.Rand, s *c01Scn, p string, d []byte) ([]byte, error) {
		sz := s.rec + 1 + r.IntN(s.n-s.rec)
		return s.log.LookupResponse(s.rec, sz), nil
	}},
	{"stale-head-not-containing-record", true, false, func(r *rand.Rand, s *c01Scn, p string, d []byte) ([]byte, error) {
		sz := r.IntN(s.rec + 1)
		return s.log.LookupResponse(s.rec, sz), nil
	}},
	{"renumber-id", true, false, func(r *rand.Rand, s *c01Scn, p string, d []byte) ([]byte, error) {
		id := s.rec + 1
		if r.IntN(2) == 0 && s.rec > 0 {
			id = s.rec - 1
		}
		return append([]byte(fmt.Sprintf("%d\n%s\n", id, s.log.Mods[s.rec].Text)), s.log.Head(s.n)...), nil
	}},
	{"id-written-with-plus-or-zero", true, false, func(r *rand.Rand, s *c01Scn, p string, d []byte) ([]byte, error) {
		pre := []string{"+", "0", "00"}[r.IntN(3)]
		return append([]byte(pre), d...), nil
	}},
	{"id-negative-or-huge", true, false, func(r *rand.Rand, s *c01Scn, p string, d []byte) ([]byte, error) {
		id := []string{"-1", "-0", "9223372036854775807", "9223372036854775808", fmt.Sprint(s.n), ""}[r.IntN(6)]
		i := bytes.IndexByte(d, '\n')
		return append([]byte(id), d[i:]...), nil
	}},
	{"forged-text-honest-head", true, false, func(r *rand.Rand, s *c01Scn, p string, d []byte) ([]byte, error) {
		m := s.log.Mods[s.rec]
		return append([]byte(fmt.Sprintf("%d\n%s\n", s.rec, world.RecordText(m.Path, m.Vers, "FORGED"))), s.log.Head(s.n)...), nil
	}},
	{"extra-line-in-record", true, false, func(r *rand.Rand, s *c01Scn, p string, d []byte) ([]byte, error) {
		m := s.log.Mods[s.rec]
		return append([]byte(fmt.Sprintf("%d\n%s%s %s h1:EVIL=\n\n", s.rec, m.Text, m.Path, m.Vers)), s.log.Head(s.n)...), nil
	}},
	{"extra-unknown-signature-line", true, false, func(r *rand.Rand, s *c01Scn, p string, d []byte) ([]byte, error) {
		_, text, rest, _ := world.ParseLookup(d)
		_ = text
		tt, _ := world.OpenText(rest, s.key)
		return append(append([]byte(nil), d...), s.evil.SigLine(tt)...), nil
	}},
	{"duplicate-signature-line", true, false, func(r *rand.Rand, s *c01Scn, p string, d []byte) ([]byte, error) {
		_, _, rest, _ := world.ParseLookup(d)
		tt, _ := world.OpenText(rest, s.key)
		return append(append([]byte(nil), d...), s.key.SigLine(tt)...), nil
	}},
	{"signed-by-unknown-key-only", true, false, func(r *rand.Rand, s *c01Scn, p string, d []byte) ([]byte, error) {
		_, _, rest, _ := world.ParseLookup(d)
		tt, _ := world.OpenText(rest, s.key)
		return append(d[:len(d)-len(rest)], world.Sign(tt, s.evil)...), nil
	}},
	{"same-name-wrong-key-signature", true, false, func(r *rand.Rand, s *c01Scn, p string, d []byte) ([]byte, error) {
		_, _, rest, _ := world.ParseLookup(d)
		tt, _ := world.OpenText(rest, s.key)
		imp := world.NewKey(s.key.Name, 0x5a)
		return append(d[:len(d)-len(rest)], world.Sign(tt, imp)...), nil
	}},
	{"signed-head-with-smuggled-lines", true, false, func(r *rand.Rand, s *c01Scn, p string, d []byte) ([]byte, error) {
		m := s.log.Mods[s.rec]
		extra := fmt.Sprintf("%s %s h1:EVIL=\n%s %s/go.mod h1:EVIL=\n", m.Path, m.Vers, m.Path, m.Vers)
		return append([]byte(fmt.Sprintf("%d\n%s\n", s.rec, m.Text)), s.log.HeadExtra(s.n, extra)...), nil
	}},
}

type c01Result struct {
	lines []string
	err   error
}

// c01Run performs one lookup with a fresh client over the world's store.
func c01NewClient(w *world.World, id, h int) *sumdb.Client {
	cl := sumdb.NewClient(w.Client(id))
	cl.SetTileHeight(h)
	w.Register(cl, id)
	return cl
}

// c01Judge decides one Lookup result of client id for (path, vers) against the world.
// It returns "rejected", "accepted" or "violation".
func c01Judge(c *mon.Ctx, caseID, what string, w *world.World, id int, path, vers string, res c01Result, extra map[string]any) string {
	c.Eval(1)
	viol := func(class string, d map[string]any) {
		for k, v := range extra {
			d[k] = v
		}
		d["stage"] = what
		d["trace_tail"] = w.TraceTail(25)
		c.Violation(class, caseID, d)
	}
	if res.err != nil {
		return "rejected"
	}
	file := w.Name + "/lookup/" + path + "@" + strings.TrimSuffix(vers, "/go.mod")
	del := w.Delivered(id, file)
	bi, rid, ok := w.AuthenticLookup(del)
	if !ok {
		viol("lookup-succeeded-on-unauthentic-response", map[string]any{"path": path, "vers": vers, "lines": res.lines, "delivered": string(del)})
		return "violation"
	}
	want := w.Logs[bi].Mods[rid].Lines(path + " " + vers + " ")
	if strings.Join(res.lines, "\n") != strings.Join(want, "\n") {
		viol("lookup-returned-lines-not-in-authentic-record", map[string]any{"path": path, "vers": vers, "got": res.lines, "want": want, "record_id": rid})
		return "violation"
	}
	return "accepted"
}

func c01Drain(c *mon.Ctx, caseID string, w *world.World, extra map[string]any) bool {
	_, viols := w.Snapshot()
	for _, v := range viols {
		d := map[string]any{}
		for k, x := range v.Detail {
			d[k] = x
		}
		for k, x := range extra {
			d[k] = x
		}
		d["trace_tail"] = w.TraceTail(25)
		c.Violation(v.Class, caseID, d)
	}
	return len(viols) > 0
}

func runC01(c *mon.Ctx) {
	c01TwoDatabases(c)
	r := c.Rng
	key := world.NewKey(c01Name, 7)
	evil := world.NewKey("evil.example/sumdb", 9)
	var ns []int
	if c.Quick() {
		for n := 1; n <= 14; n++ {
			ns = append(ns, n)
		}
		ns = append(ns, 17, 31, 32, 33, 65)
	} else {
		for n := 1; n <= 40; n++ {
			ns = append(ns, n)
		}
		ns = append(ns, 47, 63, 64, 65, 100, 127, 128, 129, 255, 256, 257, 1023, 1024, 1025, 4097)
	}
	hs := []int{1, 2, 3, 8}
	if !c.Quick() {
		hs = []int{1, 2, 3, 4, 5, 8, 10}
	}
	modes := []string{"cold", "warm-smaller", "warm-same", "head-only", "warm-larger"}

	item := 0
	for _, n := range ns {
		var lg *world.Log
		for _, h := range hs {
			mine := c.Mine(item)
			item++
			if !mine {
				continue
			}
			if lg == nil {
				lg = world.NewLog("A", n, n, key)
			}
			var recs []int
			if n <= 8 && (!c.Quick() || n <= 4) {
				for i := 0; i < n; i++ {
					recs = append(recs, i)
				}
			} else if c.Quick() {
				recs = []int{0, n - 1, r.IntN(n)}
			} else {
				recs = []int{0, n - 1, n / 2, r.IntN(n), r.IntN(n)}
				if n > 200 {
					recs = recs[:3]
				}
			}
			for _, rec := range recs {
				for mi, mode := range modes {
					if n > 200 && mode != "cold" && mode != "warm-smaller" {
						continue
					}
					if !c.Quick() && n > 40 && n <= 200 && (mi+n+h+rec)%5 >= 3 {
						continue // thorough tier, larger trees: three of the five cache modes per (n, h, rec)
					}
					if c.Quick() && n > 6 && (mi+n+h+rec)%2 == 0 {
						continue // quick tier: half of the cache modes per (n, h, rec), all of them across the sweep
					}
					c01Scenario(c, r, lg, key, evil, n, h, rec, mode)
				}
			}
		}
	}
}

func c01Scenario(c *mon.Ctx, r *rand.Rand, lg *world.Log, key, evil *world.Key, n, h, rec int, mode string) {
	caseID := fmt.Sprintf("n%d:h%d:rec%d:%s", n, h, rec, mode)
	// All random choices of the scenario come from a PRNG derived from its id, so replay is exact.
	r = c.SubRng(caseID)
	if !c.Want(caseID) {
		return
	}
	c.WAL(caseID, nil)
	scn := &c01Scn{log: lg, n: n, h: h, rec: rec, key: key, evil: evil}
	mod := lg.Mods[rec]
	vers := mod.Vers
	if (rec+h)%2 == 1 {
		vers += "/go.mod"
	}
	ctxInfo := map[string]any{"n": n, "h": h, "rec": rec, "mode": mode}

	// ---- base store for the cache mode (built by honest lookups) ---------------------------
	if mode == "warm-larger" {
		// The cache was filled while talking to a server that was further ahead (a mirror that lags
		// now serves size n): cached full tiles must be sliced down to the partial tiles of tree n.
		n2 := n + 1 + r.IntN(2*n+6)
		lg = world.NewLog("A", n2, n2, key)
		scn.log = lg
	}
	base := world.New(c01Name, key, lg)
	switch mode {
	case "cold":
		// nothing cached; the stored head is absent, or the genuine signed head of the still empty log
		// (a client that first ran before the first record was published)
		if r.IntN(2) == 0 {
			base.Config[c01Name+"/latest"] = lg.Head(0)
			c.Class("cold:stored-head-of-the-empty-tree")
		}
	case "warm-larger":
		n2 := len(lg.Mods)
		base.Remote = base.HonestRemote(n2)
		cl := c01NewClient(base, 0, h)
		step := 1 + r.IntN(2)
		for i := r.IntN(step + 1); i < n2; i += step {
			if i == rec {
				continue
			}
			if _, err := cl.Lookup(lg.Mods[i].Path, lg.Mods[i].Vers); err != nil {
				c.Violation("honest-lookup-failed", caseID, map[string]any{"stage": "warm-up", "n": n2, "h": h, "rec": i, "err": err.Error()})
				return
			}
		}
		// the stored head is lost or older (never newer than what the lagging server signs)
		base.Config = map[string][]byte{}
		if r.IntN(2) == 0 {
			base.Config[c01Name+"/latest"] = lg.Head(1 + r.IntN(n))
		}
	case "warm-smaller", "head-only":
		if n > 1 {
			s := 1 + r.IntN(n-1)
			base.Remote = base.HonestRemote(s)
			cl := c01NewClient(base, 0, h)
			step := 1 + r.IntN(2)
			for i := r.IntN(step + 1); i < s; i += step {
				if _, err := cl.Lookup(lg.Mods[i].Path, lg.Mods[i].Vers); err != nil {
					c.Violation("honest-lookup-failed", caseID, map[string]any{"stage": "warm-up", "n": s, "h": h, "rec": i, "err": err.Error()})
					return
				}
			}
			if mode == "head-only" {
				base.Cache = map[string][]byte{}
			}
		}
	case "warm-same":
		base.Remote = base.HonestRemote(n)
		cl := c01NewClient(base, 0, h)
		for i := 0; i < n; i++ {
			if i != rec && r.IntN(2) == 0 {
				if _, err := cl.Lookup(lg.Mods[i].Path, lg.Mods[i].Vers); err != nil {
					c.Violation("honest-lookup-failed", caseID, map[string]any{"stage": "warm-up", "n": n, "h": h, "rec": i, "err": err.Error()})
					return
				}
			}
		}
	}
	if c01Drain(c, caseID, base, ctxInfo) {
		return
	}
	baseCache, baseConfig := base.CloneStore()
	fresh := func() *world.World {
		w := world.New(c01Name, key, lg)
		for k, v := range baseCache {
			w.Cache[k] = v
		}
		for k, v := range baseConfig {
			w.Config[k] = v
		}
		w.Remote = w.HonestRemote(n)
		return w
	}
	other := (rec + 1 + r.IntN(n)) % n

	// ---- honest run: must succeed; records what the client consumed -------------------------
	hw := fresh()
	hc := c01NewClient(hw, 1, h)
	lines, err := hc.Lookup(mod.Path, vers)
	if err != nil {
		c.Violation("honest-lookup-failed", caseID, map[string]any{"n": n, "h": h, "rec": rec, "mode": mode, "err": err.Error(), "trace_tail": hw.TraceTail(30)})
		return
	}
	if c01Judge(c, caseID, "honest", hw, 1, mod.Path, vers, c01Result{lines, nil}, ctxInfo) != "accepted" || len(lines) != 1 {
		if len(lines) != 1 {
			c.Violation("honest-lookup-wrong-line-count", caseID, map[string]any{"lines": lines})
		}
		return
	}
	if c01Drain(c, caseID, hw, ctxInfo) {
		return
	}
	trace, _ := hw.Snapshot()
	var remotes, cacheHits []string
	seen := map[string]bool{}
	for _, e := range trace {
		if e.Op == "ReadRemoteDone" && e.Res == "ok" && !seen["r"+e.Arg] {
			seen["r"+e.Arg] = true
			remotes = append(remotes, e.Arg)
		}
		if e.Op == "ReadCache" && e.Res == "hit" && !seen["c"+e.Arg] {
			seen["c"+e.Arg] = true
			cacheHits = append(cacheHits, e.Arg)
		}
	}
	c.Class(fmt.Sprintf("honest:%s:remote=%d:cachehits=%d", mode, min(len(remotes), 6), min(len(cacheHits), 6)))
	if c.Batch == 0 {
		c.Sample("honest-lookup", 2, map[string]any{"case": caseID, "lines": lines, "remote_reads": remotes, "cache_hits": cacheHits})
	}
	// the honest client keeps working, and so does a new process over what was persisted
	// (from here on the honest server is up to date with everything the store may know, see runFaulted)
	hw.Remote = hw.HonestRemote(len(lg.Mods))
	if _, err := hc.Lookup(lg.Mods[other].Path, lg.Mods[other].Vers); err != nil {
		c.Violation("honest-lookup-failed", caseID, map[string]any{"stage": "second lookup on same client", "rec": other, "err": err.Error()})
	}
	hc2 := c01NewClient(hw, 2, h)
	if l2, err := hc2.Lookup(mod.Path, vers); err != nil || strings.Join(l2, "|") != strings.Join(lines, "|") {
		c.Violation("honest-lookup-failed", caseID, map[string]any{"stage": "fresh client over persisted store", "err": fmt.Sprint(err), "lines": l2})
	}
	c01Drain(c, caseID, hw, ctxInfo)

	// ---- one faulted execution -----------------------------------------------------------------
	runFaulted := func(label string, prep func(w *world.World), poisoned bool) {
		w := fresh()
		prep(w)
		cl := c01NewClient(w, 1, h)
		info := map[string]any{"n": n, "h": h, "rec": rec, "mode": mode, "fault": label}
		var res c01Result
		c.Guard(caseID, func() any { return info }, func() { res.lines, res.err = cl.Lookup(mod.Path, vers) })
		out := c01Judge(c, caseID, "faulted lookup", w, 1, mod.Path, vers, res, info)
		// the same client afterwards (may fail, must not lie)
		var res2 c01Result
		c.Guard(caseID, func() any { return info }, func() { res2.lines, res2.err = cl.Lookup(lg.Mods[other].Path, lg.Mods[other].Vers) })
		if c01Judge(c, caseID, "second lookup on faulted client", w, 1, lg.Mods[other].Path, lg.Mods[other].Vers, res2, info) == "violation" {
			out = "violation"
		}
		if c01Drain(c, caseID, w, info) {
			out = "violation"
		}
		// a new process over whatever was persisted, with the faults gone and an up-to-date honest
		// server (in the warm-larger mode the store may by now hold the larger head it found in its own
		// cache; a server that lags behind that head cannot serve the tiles needed to compare with it,
		// which is not a failure "caused by an honest server and honest cache")
		w.Faults = map[string]world.Fault{}
		w.Remote = w.HonestRemote(len(lg.Mods))
		cl3 := c01NewClient(w, 3, h)
		var res3 c01Result
		c.Guard(caseID, func() any { return info }, func() { res3.lines, res3.err = cl3.Lookup(mod.Path, vers) })
		o3 := c01Judge(c, caseID, "fresh client over persisted store", w, 3, mod.Path, vers, res3, info)
		if o3 == "violation" {
			out = "violation"
		} else if o3 == "rejected" && !poisoned {
			// nothing unauthentic may have been persisted, so honest server + persisted store must work
			c.Violation("honest-lookup-fails-after-faulted-session", caseID, map[string]any{"fault": label, "n": n, "h": h, "rec": rec, "mode": mode,
				"err": res3.err.Error(), "trace_tail": w.TraceTail(30)})
			out = "violation"
		}
		if c01Drain(c, caseID, w, info) {
			out = "violation"
		}
		c.Class("fault:" + label + ":" + out)
	}
	pathKind := func(p string) string {
		if strings.HasPrefix(p, "/lookup/") {
			return "lookup"
		}
		if t, ok := refmerkle.ParseTilePath(strings.TrimPrefix(p, "/")); ok {
			return fmt.Sprintf("tile-L%d", min(t.L, 3))
		}
		return "other"
	}
	honestBytes := func(p string) []byte {
		d, _ := hw.HonestRemote(n)(0, p)
		return d
	}

	// ---- single faults over exactly the responses the honest run consumed ---------------------
	for _, p := range remotes {
		isLookup := strings.HasPrefix(p, "/lookup/")
		for _, m := range c01Mutators {
			if isLookup && !m.lookup || !isLookup && !m.tile {
				continue
			}
			if n > 40 && r.IntN(3) != 0 {
				continue
			}
			m, p := m, p
			hb := honestBytes(p)
			bad, berr := m.f(r, scn, p, append([]byte(nil), hb...))
			runFaulted(m.name+"@"+pathKind(p), func(w *world.World) {
				w.Faults[p] = func([]byte, error) ([]byte, error) { return bad, berr }
			}, false)
		}
	}
	// ---- poisoned cache files the honest run consumed -------------------------------------------
	for _, f := range cacheHits {
		for k := 0; k < 4; k++ {
			f := f
			hb := baseCache[f]
			var bad []byte
			var label string
			switch k {
			case 0:
				bad, label = c01flip(r, hb, 0, len(hb)), "cache-flip-bit"
			case 1:
				bad, label = hb[:len(hb)/2], "cache-truncate"
			case 2:
				bad, label = append(append([]byte(nil), hb...), make([]byte, 32)...), "cache-extend-32"
			default:
				bad, label = make([]byte, len(hb)), "cache-zero"
			}
			kind := "tile"
			if strings.Contains(f, "/lookup/") {
				kind = "lookup"
			}
			runFaulted(label+"@"+kind, func(w *world.World) { w.Cache[f] = bad }, true)
		}
	}
	// a poisoned lookup file / full tile that the honest run would have fetched remotely
	if len(remotes) > 0 {
		p := remotes[r.IntN(len(remotes))]
		hb := honestBytes(p)
		runFaulted("cache-planted-corrupt-copy-of-remote@"+pathKind(p), func(w *world.World) { w.Cache[c01Name+p] = c01flip(r, hb, 0, len(hb)) }, true)
		if strings.HasPrefix(p, "/lookup/") {
			// forged lookup file planted in the cache with honest head
			m := lg.Mods[rec]
			forged := append([]byte(fmt.Sprintf("%d\n%s\n", rec, world.RecordText(m.Path, m.Vers, "FORGED"))), lg.Head(n)...)
			runFaulted("cache-planted-forged-lookup@lookup", func(w *world.World) { w.Cache[c01Name+p] = forged }, true)
		}
	}
	// the full tile a partial tile would be sliced from, planted over-long / corrupted in the cache
	for _, p := range remotes {
		t, ok := refmerkle.ParseTilePath(strings.TrimPrefix(p, "/"))
		if !ok || t.W == 1<<uint(t.H) {
			continue
		}
		full := refmerkle.Tile{H: t.H, L: t.L, N: t.N, W: 1 << uint(t.H)}
		hb := honestBytes(p)
		planted := make([]byte, 32*full.W)
		copy(planted, hb)
		for i := len(hb); i < len(planted); i++ {
			planted[i] = byte(r.IntN(256))
		}
		fp := c01Name + "/" + refmerkle.TilePath(full)
		// prefix true, tail garbage: the slice the client uses is authentic, the file itself is not
		runFaulted("cache-planted-full-tile-with-true-prefix@"+pathKind(p), func(w *world.World) { w.Cache[fp] = planted }, true)
		bad := append([]byte(nil), planted...)
		bad[r.IntN(len(hb))] ^= 4
		runFaulted("cache-planted-full-tile-corrupt@"+pathKind(p), func(w *world.World) { w.Cache[fp] = bad }, true)
		break
	}
	// ---- the server no longer has a partial tile (404) and answers with the completed full tile ----
	// (prefix = the true hashes of tree n, suffix = whatever the server likes: only the prefix is, and
	// can be, authenticated against the head of size n)
	for _, p := range remotes {
		t, ok := refmerkle.ParseTilePath(strings.TrimPrefix(p, "/"))
		if !ok || t.W == 1<<uint(t.H) {
			continue
		}
		p := p
		full := refmerkle.Tile{H: t.H, L: t.L, N: t.N, W: 1 << uint(t.H)}
		fullPath := "/" + refmerkle.TilePath(full)
		hb := honestBytes(p)
		for variant := 0; variant < 3; variant++ {
			completed := make([]byte, 32*full.W)
			copy(completed, hb)
			for i := len(hb); i < len(completed); i++ {
				completed[i] = byte(r.IntN(256))
			}
			label := "partial-404+full-tile-true-prefix"
			switch variant {
			case 1:
				completed[r.IntN(len(hb))] ^= 8
				label = "partial-404+full-tile-corrupt-prefix"
			case 2:
				completed = completed[:len(completed)-1-r.IntN(31)]
				label = "partial-404+full-tile-ragged-length"
			}
			runFaulted(label+"@"+pathKind(p), func(w *world.World) {
				w.Faults[p] = func([]byte, error) ([]byte, error) { return nil, fmt.Errorf("404") }
				w.Faults[fullPath] = func([]byte, error) ([]byte, error) { return completed, nil }
			}, false)
		}
	}
	// ---- two and three simultaneous faults ------------------------------------------------------
	if len(remotes) >= 2 {
		for k := 0; k < 4; k++ {
			cnt := 2 + k%2
			plan := map[string][2]any{}
			var names []string
			for j := 0; j < cnt; j++ {
				p := remotes[r.IntN(len(remotes))]
				isLookup := strings.HasPrefix(p, "/lookup/")
				var m c01Mut
				for {
					m = c01Mutators[r.IntN(len(c01Mutators))]
					if isLookup && m.lookup || !isLookup && m.tile {
						break
					}
				}
				bad, berr := m.f(r, scn, p, append([]byte(nil), honestBytes(p)...))
				plan[p] = [2]any{bad, berr}
				names = append(names, m.name)
			}
			sort.Strings(names)
			runFaulted(fmt.Sprintf("multi-%d", cnt), func(w *world.World) {
				for p, be := range plan {
					bad, _ := be[0].([]byte)
					berr, _ := be[1].(error)
					w.Faults[p] = func([]byte, error) ([]byte, error) { return bad, berr }
				}
			}, false)
		}
	}
	// ---- self-consistent forged record + leaf tile, re-hashed through k tile levels -------------
	alt := make([][]byte, n)
	for i := range alt {
		alt[i] = lg.Mods[i].Text
	}
	forgedText := world.RecordText(mod.Path, mod.Vers, "FORGED")
	alt[rec] = forgedText
	fl := refmerkle.New(alt)
	topL := 0
	for (n >> uint(h*(topL+1))) > 0 {
		topL++
	}
	// ---- a wholly self-consistent forged log (record, every tile, head) whose head is not signed by
	// the database key: the signature block takes every shape that carries no valid signature ------
	{
		ftree := world.FormatTreeText(int64(n), [32]byte(fl.Root(n)))
		imp := world.NewKey(key.Name, 0x5a)
		evil2 := world.NewKey("other.example/log", 11)
		wrongText := key.SigLine(world.FormatTreeText(int64(n)+1, [32]byte(fl.Root(n)))) // the genuine key's signature of a different text
		shapes := []struct {
			name string
			sigs string
		}{
			{"unknown-key", evil.SigLine(ftree)},
			{"unknown-key-line-twice", evil.SigLine(ftree) + evil.SigLine(ftree)},
			{"unknown-key-line-thrice", evil.SigLine(ftree) + evil.SigLine(ftree) + evil.SigLine(ftree)},
			{"two-unknown-keys", evil.SigLine(ftree) + evil2.SigLine(ftree)},
			{"same-name-other-key", imp.SigLine(ftree)},
			{"same-name-other-key-twice", imp.SigLine(ftree) + imp.SigLine(ftree)},
			{"genuine-key-signature-of-other-text", wrongText},
			{"genuine-key-signature-of-other-text+unknown-twice", wrongText + evil.SigLine(ftree) + evil.SigLine(ftree)},
			{"unknown-twice+same-name-other-key", evil.SigLine(ftree) + evil.SigLine(ftree) + imp.SigLine(ftree)},
		}
		shapes = append(shapes, struct {
			name string
			sigs string
		}{"replayed-signature-of-the-stored-head", ""})
		for _, sh := range shapes {
			fhead := []byte(ftree + "\n" + sh.sigs)
			sh := sh
			runFaulted("forged-log:"+sh.name, func(w *world.World) {
				if sh.sigs == "" {
					// the signature block of the head this client verified last (its stored head, else the
					// genuine head of this size), under the forged tree text
					genuine := w.Config[c01Name+"/latest"]
					if len(genuine) == 0 {
						genuine = lg.Head(n)
					}
					if i := bytes.LastIndex(genuine, []byte("\n\n")); i >= 0 {
						fhead = append([]byte(ftree+"\n"), genuine[i+2:]...)
					}
				}
				w.Remote = func(cl int, p string) ([]byte, error) {
					switch {
					case p == "/lookup/"+mod.Path+"@"+mod.Vers:
						return append([]byte(fmt.Sprintf("%d\n%s\n", rec, forgedText)), fhead...), nil
					case p == "/latest":
						return fhead, nil
					case p == "/lookup/"+lg.Mods[other].Path+"@"+lg.Mods[other].Vers:
						// the next request of the same client is answered from the same forged log, with the very
						// same head bytes: having been refused once does not make them any better
						return append([]byte(fmt.Sprintf("%d\n%s\n", other, alt[other])), fhead...), nil
					}
					if t, ok := refmerkle.ParseTilePath(strings.TrimPrefix(p, "/")); ok && refmerkle.TileExists(t, int64(n)) {
						if t.L < 0 {
							return nil, fmt.Errorf("404")
						}
						return fl.TileBytes(t), nil
					}
					return nil, fmt.Errorf("404")
				}
			}, false)
		}
	}
	for k := 1; k <= topL+1; k++ {
		k := k
		runFaulted(fmt.Sprintf("forged-record+tiles:k=%d", min(k, 4)), func(w *world.World) {
			hon := w.HonestRemote(n)
			w.Remote = func(cl int, p string) ([]byte, error) {
				if p == "/lookup/"+mod.Path+"@"+mod.Vers {
					return append([]byte(fmt.Sprintf("%d\n%s\n", rec, forgedText)), lg.Head(n)...), nil
				}
				if t, ok := refmerkle.ParseTilePath(strings.TrimPrefix(p, "/")); ok && t.L >= 0 && t.L < k && refmerkle.TileExists(t, int64(n)) {
					return fl.TileBytes(t), nil
				}
				return hon(cl, p)
			}
		}, false)
	}
}

// c01TwoDatabases: two honest databases whose names differ only in a trailing slash (or a doubled one),
// with different keys and different logs, used through one shared cache directory. Each client's files
// live under its own database name as given; honest servers and an honest cache, so every lookup succeeds.
func c01TwoDatabases(c *mon.Ctx) {
	pairs := [][2]string{{"sum.example/db", "sum.example/db/"}, {"sum.example/db", "sum.example//db"}, {"sum.example/a/../db", "sum.example/db"}}
	item := 0
	for _, pr := range pairs {
		for _, h := range []int{1, 2, 8} {
			for order := 0; order < 2; order++ {
				mine := c.Mine(item)
				item++
				id := fmt.Sprintf("two-databases:%s|%s:h%d:o%d", pr[0], pr[1], h, order)
				if !mine || !c.Want(id) {
					continue
				}
				c.WAL(id, nil)
				names := pr
				if order == 1 {
					names = [2]string{pr[1], pr[0]}
				}
				const n = 9
				var ws [2]*world.World
				for i := range ws {
					key := world.NewKey(names[i], byte(21+i))
					lg := world.NewLog(fmt.Sprintf("db%d", i), n, 0, key)
					ws[i] = world.New(names[i], key, lg)
					ws[i].Remote = ws[i].HonestRemote(n)
				}
				ws[1].Cache = ws[0].Cache // one cache directory
				info := map[string]any{"names": names, "h": h}
				c.Guard(id, func() any { return info }, func() {
					for i, w := range ws {
						cl := sumdb.NewClient(w.Client(i + 1))
						cl.SetTileHeight(h)
						w.Register(cl, i+1)
						for rec := 0; rec < n; rec++ {
							m := w.Logs[0].Mods[rec]
							lines, err := cl.Lookup(m.Path, m.Vers)
							c.Eval(1)
							if err != nil || len(lines) != 1 {
								c.Violation("honest-lookup-failed", id, map[string]any{"names": names, "h": h, "database": names[i], "rec": rec, "err": fmt.Sprint(err), "trace_tail": w.TraceTail(12)})
								return
							}
						}
					}
					for _, w := range ws {
						if c01Drain(c, id, w, info) {
							return
						}
					}
					c.Class("two-databases-one-cache:all-lookups-succeed")
				})
			}
		}
	}
}
