package props

// C15 — the parsed file structure and its syntax tree never diverge under edits.
//
// Workload: the sessions of cedit_common.go (both file kinds); a third of the
// sessions end in an "Add*(x); Drop*(x)" probe. Oracle: after the session and
// Cleanup, the multiset of directives held in the exported fields of
// modfile.File / WorkFile (module, go, toolchain, godebug, require+indirect,
// exclude, replace old/new, retract interval+rationale, tool, use path) must
// equal what a strict parse of the formatted file yields, the lists must not
// contain cleared placeholder entries, and after a probe neither side may
// contain x. The strict parser is the authority on what the text means.

import (
	"fmt"
	"math/rand/v2"
	"strings"

	"golang.org/x/mod/modfile"

	"verif/harness/gen"
	"verif/harness/mon"
	"verif/harness/ref/refmodfile"
)

func init() { Registry["C15"] = runC15 }

// Designated regression inputs of known findings (see /verif/known_findings.txt);
// the generator keeps its files out of this class (no leading comment on retract blocks).
var c15Findings = []struct {
	id, start string
	ops       []ceditOp
}{
	// Cleanup collapses a one-line block into a line and concatenates the block's and the
	// line's leading comments; the parser reads the rationale of a retract line from its
	// own comments, or from its block's comments if it has none: Retract.Rationale goes stale.
	{"retract-rationale-block-collapse", "module m.com/m\n\n// blk\nretract (\n\t// own\n\tv1.0.0\n)\n", nil},
	// AddRetract with an empty rationale appends to the last retract block; if that block has
	// a leading comment the new line inherits it as its rationale in the file, not in the struct.
	{"retract-rationale-inherited-from-block", "module m.com/m\n\n// blk\nretract (\n\tv1.0.0\n\tv1.0.1\n)\n",
		[]ceditOp{{Kind: "AddRetract", S: [4]string{"v1.2.0", "v1.2.0", ""}}}},
}

// Fixed regression sessions: the minimal witnesses of the defects this property
// found on golang.org/x/mod v0.22.0 and that were repaired in /repo (DESIGN.md §6.3-6.6).
// They run through the ordinary oracle in every run (batch 0).
var c15Regressions = []struct {
	id    string
	work  bool
	start string
	ops   []ceditOp
	probe string
}{
	{"fixed-6.3-addretract", false, "module m.com/m\n", []ceditOp{{Kind: "AddRetract", S: [4]string{"v1.0.0", "v1.0.0", "why"}}}, ""},
	{"fixed-6.3-addretract-dropretract", false, "module m.com/m\n", []ceditOp{{Kind: "AddRetract", S: [4]string{"v1.0.0", "v1.0.0", "why"}},
		{Kind: "DropRetract", S: [4]string{"v1.0.0", "v1.0.0"}}}, refmodfile.FmtRetract("v1.0.0", "v1.0.0")},
	{"fixed-6.4-droptool", false, "module m.com/m\n\ntool a.com/x/cmd/t\n", []ceditOp{{Kind: "DropTool", S: [4]string{"a.com/x/cmd/t"}}}, ""},
	{"fixed-6.5-addreplace-wildcard", false, "module m.com/m\n\nreplace a.com/x v1.2.3 => ../x\n",
		[]ceditOp{{Kind: "AddReplace", S: [4]string{"a.com/x", "", "../y", ""}}}, ""},
	{"fixed-6.6-work-dropgodebug", true, "go 1.21\n\ngodebug k1=1\n", []ceditOp{{Kind: "DropGodebug", S: [4]string{"k1"}}}, ""},
}

func c15RunFindings(c *mon.Ctx) {
	for _, rg := range c15Regressions {
		if c.Batch == 0 && c.Want(rg.id) {
			c.Class("regression:" + rg.id)
			c15Run(c, rg.id, &gen.EditFile{Work: rg.work, Text: rg.start}, rg.ops, rg.probe)
		}
	}
	for _, fd := range c15Findings {
		if c.Batch != 0 || !c.Want(fd.id) {
			continue
		}
		run := &ceditRun{File: &gen.EditFile{Text: fd.start}, Ops: fd.ops}
		if c.Guard(fd.id, func() any { return run.witness() }, func() { ceditExec(run) }) {
			continue
		}
		if run.StartErr != nil || run.ReparseErr != nil {
			c.Finding(fd.id, true, map[string]any{"start_error": fmt.Sprint(run.StartErr), "reparse_error": fmt.Sprint(run.ReparseErr)})
			continue
		}
		st, parsed := ceditDirsMod(run.Mod, true), ceditDirsMod(run.Mod2, true)
		d := refmodfile.DiffMultiset(st, parsed)
		w := run.witness()
		w["struct_minus_parse"] = d
		c.Finding(fd.id, len(d) > 0, w)
	}
}

func runC15(c *mon.Ctx) {
	c15RunFindings(c)
	nMod := c.Share(c.Scale(120_000, 2_200_000))
	nWork := c.Share(c.Scale(48_000, 800_000))
	for i := 0; i < nMod; i++ {
		c15Session(c, false, fmt.Sprintf("m%d", i))
	}
	for i := 0; i < nWork; i++ {
		c15Session(c, true, fmt.Sprintf("w%d", i))
	}
}

var c15ProbesMod = [][2]string{
	{"AddRequire", "DropRequire"}, {"AddNewRequire", "DropRequire"}, {"AddExclude", "DropExclude"},
	{"AddReplace", "DropReplace"}, {"AddRetract", "DropRetract"}, {"AddTool", "DropTool"},
	{"AddGodebug", "DropGodebug"}, {"AddGoStmt", "DropGoStmt"}, {"AddToolchainStmt", "DropToolchainStmt"},
}

var c15ProbesWork = [][2]string{
	{"AddUse", "DropUse"}, {"AddReplace", "DropReplace"}, {"AddGodebug", "DropGodebug"},
	{"AddGoStmt", "DropGoStmt"}, {"AddToolchainStmt", "DropToolchainStmt"},
}

// c15Probe draws an Add*(x); Drop*(x) pair and the directive prefix that
// identifies x in the canonical directive strings.
func c15Probe(r *rand.Rand, work bool) (add, drop ceditOp, prefix string) {
	pr := gen.Pick(r, c15ProbesMod)
	if work {
		pr = gen.Pick(r, c15ProbesWork)
	}
	add = ceditGenOpKind(r, pr[0])
	drop = ceditOp{Kind: pr[1]}
	s := add.S
	switch pr[1] {
	case "DropRequire":
		drop.S = [4]string{s[0]}
		prefix = refmodfile.FmtRequire(s[0], "", false)
	case "DropExclude":
		drop.S = [4]string{s[0], s[1]}
		prefix = refmodfile.FmtExclude(s[0], s[1])
	case "DropReplace":
		drop.S = [4]string{s[0], s[1]}
		prefix = strings.SplitN(refmodfile.FmtReplace(s[0], s[1], "", ""), " =>", 2)[0] + " =>"
	case "DropRetract":
		drop.S = [4]string{s[0], s[1]}
		prefix = refmodfile.FmtRetract(s[0], s[1])
	case "DropTool":
		drop.S = [4]string{s[0]}
		prefix = refmodfile.FmtTool(s[0])
	case "DropGodebug":
		drop.S = [4]string{s[0]}
		prefix = refmodfile.FmtGodebug(s[0], "")
	case "DropGoStmt":
		prefix = refmodfile.FmtGo("")
	case "DropToolchainStmt":
		prefix = refmodfile.FmtToolchain("")
	case "DropUse":
		drop.S = [4]string{s[0]}
		prefix = refmodfile.FmtUse(s[0])
	}
	return
}

// c15Placeholders lists cleared (all-zero) or nil entries of the typed lists.
func c15Placeholders(mf *modfile.File, wf *modfile.WorkFile) []string {
	var bad []string
	var gdb []*modfile.Godebug
	var rep []*modfile.Replace
	if mf != nil {
		gdb, rep = mf.Godebug, mf.Replace
		for i, r := range mf.Require {
			if r == nil || (r.Mod.Path == "" && r.Mod.Version == "" && r.Syntax == nil) {
				bad = append(bad, fmt.Sprintf("Require[%d]", i))
			}
		}
		for i, x := range mf.Exclude {
			if x == nil || (x.Mod.Path == "" && x.Mod.Version == "" && x.Syntax == nil) {
				bad = append(bad, fmt.Sprintf("Exclude[%d]", i))
			}
		}
		for i, r := range mf.Retract {
			if r == nil || (r.Low == "" && r.High == "" && r.Syntax == nil) {
				bad = append(bad, fmt.Sprintf("Retract[%d]", i))
			}
		}
		for i, t := range mf.Tool {
			if t == nil || (t.Path == "" && t.Syntax == nil) {
				bad = append(bad, fmt.Sprintf("Tool[%d]", i))
			}
		}
	} else {
		gdb, rep = wf.Godebug, wf.Replace
		for i, u := range wf.Use {
			if u == nil || (u.Path == "" && u.Syntax == nil) {
				bad = append(bad, fmt.Sprintf("Use[%d]", i))
			}
		}
	}
	for i, g := range gdb {
		if g == nil || (g.Key == "" && g.Value == "" && g.Syntax == nil) {
			bad = append(bad, fmt.Sprintf("Godebug[%d]", i))
		}
	}
	for i, r := range rep {
		if r == nil || (r.Old.Path == "" && r.Old.Version == "" && r.New.Path == "" && r.New.Version == "" && r.Syntax == nil) {
			bad = append(bad, fmt.Sprintf("Replace[%d]", i))
		}
	}
	return bad
}

func c15Session(c *mon.Ctx, work bool, id string) {
	r := c.Rng
	// All random choices of the session are drawn before the replay filter.
	// Domain restriction: no leading comment on retract blocks (see tools/cfg/C15.py).
	ef := gen.EditGenFile(r, gen.EditOpts{Work: work, NoCommentedRetractBlock: true})
	ops := ceditGenOps(r, work, 1+r.IntN(12))
	probe := r.IntN(3) == 0
	padd, pdrop, prefix := c15Probe(r, work)
	if probe {
		if len(ops) > 10 {
			ops = ops[:10]
		}
		ops = append(ops, padd, pdrop)
	}
	if !c.Want(id) {
		return
	}
	if !probe {
		prefix = ""
	}
	c15Run(c, id, ef, ops, prefix)
}

// c15Run executes one session and decides the property on it. probePrefix != ""
// says that the last two operations are an Add*(x); Drop*(x) probe and names x.
func c15Run(c *mon.Ctx, id string, ef *gen.EditFile, ops []ceditOp, probePrefix string) {
	work, probe, prefix := ef.Work, probePrefix != "", probePrefix
	kind := "mod"
	if work {
		kind = "work"
	}
	run := &ceditRun{File: ef, Ops: ops}
	c.WAL(id, []byte(ef.Text+"\n--ops--\n"+strings.Join(ceditOpStrings(ops), "\n")))

	if c.Guard(id, func() any { return run.witness() }, func() { ceditExec(run) }) {
		return
	}
	if run.StartErr != nil {
		c.Inconclusive(fmt.Sprintf("generated starting file does not parse (%s): %v\n%s", id, run.StartErr, ef.Text))
		return
	}
	c.Eval(1)
	c.Count("sessions:"+kind, 1)
	c.Count("operations", len(ops))
	for i, op := range ops {
		c.Class("op:" + kind + ":" + op.Kind + ":" + run.Effects[i])
		if run.OnNew[i] {
			// a later operation must see what an earlier one of the same session added
			c.Class("later-op-on-session-entry:" + kind + ":" + op.Kind + ":" + run.Effects[i])
		}
	}
	if run.ReparseErr != nil {
		w := run.witness()
		w["error"] = run.ReparseErr.Error()
		c.Violation("reparse", id, w)
		return
	}
	if bad := c15Placeholders(run.Mod, run.Work); len(bad) > 0 {
		w := run.witness()
		w["placeholders"] = bad
		c.Violation("placeholder:"+strings.SplitN(bad[0], "[", 2)[0], id, w)
		return
	}
	var st, parsed []string
	if work {
		st, parsed = ceditDirsWork(run.Work), ceditDirsWork(run.Work2)
	} else {
		st, parsed = ceditDirsMod(run.Mod, true), ceditDirsMod(run.Mod2, true)
	}
	if d := refmodfile.DiffMultiset(st, parsed); len(d) > 0 {
		w := run.witness()
		w["struct_minus_parse"] = d
		w["struct"] = st
		w["parse"] = parsed
		verbs := map[string]bool{}
		for _, x := range d {
			verbs[strings.Fields(x[1:])[0]] = true
		}
		var vs []string
		for _, v := range []string{"module", "go", "toolchain", "godebug", "require", "exclude", "replace", "retract", "tool", "use"} {
			if verbs[v] {
				vs = append(vs, v)
			}
		}
		c.Violation("struct-differs-from-parse:"+strings.Join(vs, "+"), id, w)
		return
	}
	seen := map[string]bool{}
	for _, x := range parsed {
		v := strings.Fields(x)[0]
		if !seen[v] {
			seen[v] = true
			c.Class("equal:" + kind + ":" + v + ":nonempty")
		}
	}
	if probe {
		c.Eval(1)
		present := "absent-before-probe"
		if !strings.HasPrefix(run.Effects[len(ops)-2], "append") && !strings.HasPrefix(run.Effects[len(ops)-2], "new") && !strings.HasPrefix(run.Effects[len(ops)-2], "fresh") {
			present = "present-before-probe"
		}
		c.Class("probe:" + kind + ":" + ops[len(ops)-2].Kind + ";" + ops[len(ops)-1].Kind + ":" + present)
		for side, l := range map[string][]string{"parse": parsed, "struct": st} {
			for _, x := range l {
				if x == prefix || strings.HasPrefix(x, prefix+" ") || (strings.HasSuffix(prefix, " ") || strings.HasSuffix(prefix, "=") || strings.HasSuffix(prefix, "=>")) && strings.HasPrefix(x, prefix) {
					w := run.witness()
					w["left_over"] = x
					w["side"] = side
					c.Violation("drop-after-add-leaves-entry:"+ops[len(ops)-2].Kind, id, w)
					return
				}
			}
		}
	}
	c.Sample("session:"+kind, 2, map[string]any{"start": ef.Text, "ops": ceditOpStrings(ops), "out": string(run.Out), "directives": parsed})
}
