package props

import (
	"context"
	"fmt"
	"math/rand/v2"
	"net/http/httptest"
	"runtime"
	"sort"
	"strings"
	"sync"
	"sync/atomic"
	"time"
	"verif/harness/ref/refpath"

	"github.com/anishathalye/porcupine"
	"golang.org/x/mod/sumdb"

	"verif/harness/mon"
	"verif/harness/world"
)

func init() { Registry["C14"] = runC14 }

func c14Gosum(path, vers string) ([]byte, error) {
	return world.RecordText(path, vers, "srv"), nil
}

func c14Want(path, vers string) []string {
	m := world.Mod{Text: world.RecordText(path, strings.TrimSuffix(vers, "/go.mod"), "srv")}
	return m.Lines(path + " " + vers + " ")
}

var c14Mods = [][2]string{
	{"example.com/a", "v1.0.0"}, {"example.com/B", "v1.0.0"}, {"github.com/Azure/azure-sdk", "v1.2.3"}, {"example.com/c/v2", "v2.0.0"},
	{"example.com/UPPER/Case", "v0.1.0"}, {"gopkg.in/yaml.v3", "v3.0.1"}, {"example.com/d", "v1.0.0-pre.1"}, {"example.com/e", "v0.0.0-20200101000000-abcdef123456"},
	{"example.com/f", "v2.0.0+incompatible"}, {"rsc.io/Quote", "v1.5.2"}, {"example.com/g", "v1.0.1"}, {"example.com/h", "v1.0.2"},
	{"example.com/i", "v0.0.0-20200214102310-6d5b0d4f3e5d"}, {"example.com/j", "v1.0.0-prod"}, {"example.com/k/v2", "v2.1.0-rc.m"}, {"example.com/l", "v1.0.1-go.mod"},
	{"example.com/n", "v1.0.0-rc.1+build.5"}, {"example.com/o", "v2.0.0-pre+incompatible"},
	{"example.com/p", "v1.2.0-RC1"}, {"github.com/Zeta/lib", "v1.0.0"}, {"example.com/fizzBuZZ", "v0.1.0-Beta.2"},
}

var c14Private = [][2]string{{"corp.example.com/priv", "v1.0.0"}, {"corp.example.com/priv/sub", "v1.0.0"}, {"x.internal.example/tool", "v0.1.0"}, {"corp.example.com", "v1.0.0"}}

// c14PatternLists all make exactly the c14Private paths private ("any path prefix of target matches
// one of the glob patterns ... ignores any empty or malformed patterns in the list"); c14PatternsFor
// confirms that with the harness's own reading before a list is used.
var c14PatternLists = []string{
	"corp.example.com,*.internal.example/tool",
	"[corp,corp.example.com,a[b,*.internal.example/tool",
	",corp.example.com,,*.internal.example/tool,",
	"other.example.org/x,c?rp.example.com/,x.internal.*",
	"x.internal.example/tool\\,corp.example.com,[,?.internal.example/tool",
	"*.example.com/nothing/here,corp.example.[c]om,[^a-w].internal.example",
	// no glob character anywhere: plain names, with and without the trailing slash the documentation allows
	"corp.example.com,x.internal.example/tool",
	"corp.example.com/,x.internal.example/tool/",
	"other.example.org/,x.internal.example/,corp.example.com/",
}

func c14PatternsFor(c *mon.Ctx, i int) string {
	pl := c14PatternLists[i%len(c14PatternLists)]
	for _, m := range c14Private {
		if r := refpath.MatchPrefix(pl, m[0]); !r.Match || !r.SameCount || !r.Specified {
			c.Inconclusive("harness pattern list " + pl + " misjudges " + m[0])
		}
	}
	for _, m := range c14Mods {
		if r := refpath.MatchPrefix(pl, m[0]); r.Match || !r.Specified {
			c.Inconclusive("harness pattern list " + pl + " misjudges " + m[0])
		}
	}
	c.Class(fmt.Sprintf("pattern-list=%d", i%len(c14PatternLists)))
	return pl
}

// c14Server adapts the repository's own sumdb.Server (in process) to the world's Remote.
func c14Server(key *world.Key) func(client int, path string) ([]byte, error) {
	srv := sumdb.NewServer(sumdb.NewTestServer(key.SignerKey(), c14Gosum))
	return func(client int, path string) ([]byte, error) {
		rec := httptest.NewRecorder()
		req := httptest.NewRequest("GET", "http://sumdb.test"+path, nil).WithContext(context.Background())
		srv.ServeHTTP(rec, req)
		if rec.Code != 200 {
			return nil, fmt.Errorf("http %d: %s", rec.Code, strings.TrimSpace(rec.Body.String()))
		}
		return rec.Body.Bytes(), nil
	}
}

type c14Policy struct {
	name string
	gate func(w *world.World, ev world.Event)
}

func runC14(c *mon.Ctx) {
	key := world.NewKey(c01Name, 7)
	nRandom := c.Share(c.Scale(1200, 30_000))
	nScript := c.Share(c.Scale(48, 600))
	for i := 0; i < nRandom; i++ {
		c14Run(c, key, fmt.Sprintf("random:%d", i), "random")
	}
	for _, sc := range []string{"install-race", "cas-conflict", "stampede"} {
		for i := 0; i < nScript; i++ {
			c14Run(c, key, fmt.Sprintf("%s:%d", sc, i), sc)
		}
	}
	c14Skipped(c, key)
	c14ParCache(c)
}

func c14Run(c *mon.Ctx, key *world.Key, caseID, policy string) {
	r := c.SubRng(caseID)
	if !c.Want(caseID) {
		return
	}
	c.WAL(caseID, nil)
	w := world.New(c01Name, key)
	w.SkipAuth = true
	w.Remote = c14Server(key)
	// in half of the runs the store and the transport hand the very same bytes to every client that asks
	// for the same thing (an mmap'ed cache): a client that writes into what it was handed races with the others
	w.ShareBytes = r.IntN(2) == 0
	K := []int{1, 2, 4}[r.IntN(3)]
	G := []int{2, 4, 8, 16}[r.IntN(4)]
	nMods := 3 + r.IntN(len(c14Mods)-2)
	h := []int{1, 2, 8, 1, 2, 8, 30}[r.IntN(7)]
	usePatterns := r.IntN(2) == 0
	patterns := ""
	if usePatterns {
		patterns = c14PatternsFor(c, r.IntN(len(c14PatternLists)))
	}
	perG := 3 + r.IntN(5)
	switch policy {
	case "install-race":
		K, G = 1, 2+r.IntN(3)
	case "cas-conflict":
		K, G = 2, 1
	case "stampede":
		K, G = 1, 4+r.IntN(9)
	}
	var mods [][2]string
	for _, i := range r.Perm(len(c14Mods))[:nMods] {
		mods = append(mods, c14Mods[i])
	}
	info := map[string]any{"policy": policy, "clients": K, "goroutines": G, "modules": nMods, "height": h, "patterns": usePatterns}

	// ---- schedule policy ----------------------------------------------------------------------
	var gmu sync.Mutex
	grng := rand.New(rand.NewPCG(r.Uint64(), r.Uint64()))
	var armed atomic.Bool
	var forcedOK atomic.Bool
	var retries, conflicts, blocked atomic.Int64
	barrierN := 0
	arrived := 0
	release := make(chan struct{})
	var relOnce sync.Once
	doRelease := func() { relOnce.Do(func() { close(release) }) }
	waitRelease := func() {
		select {
		case <-release:
		case <-time.After(2 * time.Second):
			c.Count("gate-timeouts", 1)
		}
	}
	w.Gate = func(ev world.Event) {
		if ev.Op == "Yield" && ev.Arg == "merge:retry" {
			retries.Add(1)
		}
		if ev.Op == "WriteConfig" && ev.Res == "conflict" {
			conflicts.Add(1)
		}
		switch policy {
		case "random":
			gmu.Lock()
			k := grng.IntN(10)
			gmu.Unlock()
			switch {
			case k < 3:
				runtime.Gosched()
			case k == 3:
				runtime.Gosched()
				runtime.Gosched()
				runtime.Gosched()
			case k == 4:
				time.Sleep(time.Duration(20+k*30) * time.Microsecond)
			}
		case "install-race":
			if armed.Load() && ev.Op == "Yield" && ev.Arg == "merge:snapshot" && ev.Client >= 0 {
				gmu.Lock()
				arrived++
				if arrived >= barrierN {
					forcedOK.Store(true)
					doRelease()
				}
				gmu.Unlock()
				waitRelease()
			}
		case "cas-conflict":
			if ev.Op == "Yield" && ev.Arg == "mergecfg:before-write" && ev.Client == 1 && armed.Load() {
				waitRelease()
			}
			if ev.Op == "WriteConfig" && ev.Client == 2 && strings.HasPrefix(ev.Res, "ok") {
				forcedOK.Store(true)
				doRelease()
			}
		case "stampede":
			if armed.Load() && ev.Op == "Yield" && ev.Arg == "par:after-load" && ev.Client >= 0 {
				gmu.Lock()
				arrived++
				if arrived >= barrierN {
					forcedOK.Store(true)
					doRelease()
				}
				gmu.Unlock()
				waitRelease()
			}
		}
	}
	world.Activate(w)
	defer world.Deactivate()

	clients := make([]*sumdb.Client, K)
	for k := range clients {
		cl := sumdb.NewClient(w.Client(k + 1))
		cl.SetTileHeight(h)
		if usePatterns {
			cl.SetGONOSUMDB(patterns)
		}
		w.Register(cl, k+1)
		clients[k] = cl
	}
	type result struct {
		client     int
		path, vers string
		lines      []string
		err        error
		skipped    bool
		ops        int
	}
	var rmu sync.Mutex
	var results []result
	lookup := func(k int, path, vers string) {
		g := world.Gid()
		w.Note(k+1, "Lookup", path+"@"+vers, "call")
		lines, err := clients[k].Lookup(path, vers)
		w.Note(k+1, "Return", path+"@"+vers, fmt.Sprint(err == nil))
		_ = g
		rmu.Lock()
		results = append(results, result{client: k + 1, path: path, vers: vers, lines: lines, err: err})
		rmu.Unlock()
	}
	// warm-up so that scripted windows are not consumed by client initialisation
	if policy != "random" {
		w.Bind(1)
		lookup(0, "example.com/warm", "v1.0.0")
		if policy == "cas-conflict" {
			// client 2 initialises now, while the config still holds the warm-up head
			w.Bind(2)
			lookup(1, "example.com/warm", "v1.0.0")
		}
	}
	var wg sync.WaitGroup
	switch policy {
	case "install-race":
		barrierN = G
		armed.Store(true)
		for g := 0; g < G; g++ {
			wg.Add(1)
			m := mods[g%len(mods)]
			go func() {
				defer wg.Done()
				w.Bind(1)
				lookup(0, m[0], m[1])
			}()
		}
	case "cas-conflict":
		armed.Store(true)
		wg.Add(2)
		go func() {
			defer wg.Done()
			w.Bind(1)
			lookup(0, mods[0][0], mods[0][1])
		}()
		go func() {
			defer wg.Done()
			w.Bind(2)
			time.Sleep(2 * time.Millisecond)
			lookup(1, mods[1][0], mods[1][1])
			doRelease() // never leave client 1 waiting
		}()
	case "stampede":
		barrierN = G
		armed.Store(true)
		m := mods[r.IntN(len(mods))]
		v := m[1]
		if r.IntN(2) == 0 {
			v += "/go.mod"
		}
		for g := 0; g < G; g++ {
			wg.Add(1)
			go func() {
				defer wg.Done()
				w.Bind(1)
				lookup(0, m[0], v)
			}()
		}
	default:
		for k := 0; k < K; k++ {
			for g := 0; g < G; g++ {
				wg.Add(1)
				seed1, seed2 := r.Uint64(), r.Uint64()
				k := k
				go func() {
					defer wg.Done()
					w.Bind(k + 1)
					rr := rand.New(rand.NewPCG(seed1, seed2))
					for i := 0; i < perG; i++ {
						m := mods[rr.IntN(len(mods))]
						if usePatterns && rr.IntN(5) == 0 {
							m = c14Private[rr.IntN(len(c14Private))]
						}
						v := m[1]
						if rr.IntN(2) == 0 {
							v += "/go.mod"
						}
						lookup(k, m[0], v)
					}
				}()
			}
		}
	}
	wg.Wait()
	doRelease()
	armed.Store(false)

	// ---- judge ---------------------------------------------------------------------------------
	trace, _ := w.Snapshot()
	viol := func(class string, d map[string]any) {
		for k, v := range info {
			d[k] = v
		}
		var tail []string
		for _, e := range trace[max(0, len(trace)-40):] {
			tail = append(tail, e.String())
		}
		d["trace_tail"] = tail
		c.Violation(class, caseID, d)
	}
	c.Eval(len(results))
	privates := map[string]bool{}
	for _, p := range c14Private {
		privates[p[0]] = true
	}
	for _, rs := range results {
		if usePatterns && privates[rs.path] {
			if rs.err != sumdb.ErrGONOSUMDB {
				viol("private-path-not-skipped", map[string]any{"path": rs.path, "err": fmt.Sprint(rs.err)})
			}
			c.Class("skipped-private-path")
			continue
		}
		if privates[rs.path] {
			// without a pattern list the private modules are ordinary modules of the server
		}
		if rs.err != nil {
			viol("concurrent-lookup-failed", map[string]any{"client": rs.client, "path": rs.path, "vers": rs.vers, "err": rs.err.Error()})
			continue
		}
		if want := c14Want(rs.path, rs.vers); strings.Join(rs.lines, "\n") != strings.Join(want, "\n") || len(want) != 1 {
			viol("concurrent-lookup-wrong-lines", map[string]any{"client": rs.client, "path": rs.path, "vers": rs.vers, "got": rs.lines, "want": want})
		}
		kind := "lower"
		if strings.ToLower(rs.path) != rs.path {
			kind = "upper-case-path"
		}
		if strings.HasSuffix(rs.vers, "/go.mod") {
			kind += ":go.mod"
		}
		c.Class("served:" + kind)
	}
	// per client: each lookup file read from cache at most once, each lookup path fetched at most once
	type ck struct {
		c int
		k string
	}
	nCache, nRemote := map[ck]int{}, map[ck]int{}
	maxDeliveredN := int64(0)
	var lastCfgN int64 = -1
	// attribute ops to the lookup call in flight on the same goroutine (for the skipped-path rule)
	inFlight := map[int64]string{}
	for _, e := range trace {
		switch e.Op {
		case "Lookup":
			inFlight[e.Gid] = e.Arg
		case "Return":
			delete(inFlight, e.Gid)
		case "ReadCache":
			if strings.Contains(e.Arg, "/lookup/") {
				nCache[ck{e.Client, e.Arg}]++
			}
		case "ReadRemote":
			if strings.HasPrefix(e.Arg, "/lookup/") {
				nRemote[ck{e.Client, e.Arg}]++
			}
		}
		if cur, ok := inFlight[e.Gid]; ok && e.Op != "Lookup" && e.Op != "Return" && usePatterns {
			p := cur[:strings.LastIndex(cur, "@")]
			if privates[p] {
				viol("external-operation-for-private-path", map[string]any{"path": p, "event": e.String()})
			}
		}
	}
	for k, n := range nCache {
		if n > 1 {
			viol("lookup-file-read-from-cache-more-than-once", map[string]any{"client": k.c, "file": k.k, "times": n})
		}
	}
	for k, n := range nRemote {
		if n > 1 {
			viol("lookup-fetched-more-than-once", map[string]any{"client": k.c, "path": k.k, "times": n})
		}
		c.Class("fetch-once-observed")
	}
	for _, d := range w.AllDelivered() {
		if _, _, rest, ok := world.ParseLookup(d); ok {
			if n, ok := w.SignedSize(rest); ok && n > maxDeliveredN {
				maxDeliveredN = n
			}
		}
	}
	// successful config writes in store order (the history is appended under the store's lock)
	for _, hmsg := range w.ConfigHistory {
		n, ok := w.SignedSize(hmsg)
		if !ok {
			continue // reported by the write monitor
		}
		if n < lastCfgN {
			viol("config-head-regressed", map[string]any{"from": lastCfgN, "to": n})
		}
		lastCfgN = n
	}
	c.Count("config-writes-observed", len(w.ConfigHistory))
	_, cfg := w.CloneStore()
	finalN, okFinal := w.SignedSize(cfg[c01Name+"/latest"])
	if maxDeliveredN > 0 && (!okFinal || finalN != maxDeliveredN) {
		viol("final-config-head-is-not-largest-tree-seen", map[string]any{"final_n": finalN, "largest_delivered_n": maxDeliveredN})
	}
	if w.ShareBytes {
		c.Class("store-hands-out-shared-bytes")
		if ch := w.HandedOutIntact(); len(ch) > 0 {
			viol("client-wrote-into-bytes-it-was-handed", map[string]any{"buffers": ch})
		}
	}
	_, wv := w.Snapshot()
	for _, v := range wv {
		d := map[string]any{}
		for k, x := range v.Detail {
			d[k] = x
		}
		viol(v.Class, d)
	}
	// waiters that blocked on an in-flight key: a Lookup whose call produced no lookup-file op of its own
	// although it was not the first caller (observed via fetch counts)
	_ = &blocked
	// interleaving signature
	var sb strings.Builder
	for _, e := range trace {
		if e.Op == "Yield" || e.Op == "Lookup" || e.Op == "Return" {
			continue
		}
		fmt.Fprintf(&sb, "%d%.5s;", e.Client, e.Op)
	}
	sig := fmt.Sprintf("%x", strings.Count(sb.String(), ";")) + ":" + fmt.Sprintf("%08x", fnv32(sb.String()))
	c.Count("interleaving-signatures-observed", 1)
	c.Class("sig-bucket:" + sig[len(sig)-2:]) // 256 buckets of the trace hash: a floor on schedule diversity
	c.Count("merge-retry-observed", int(retries.Load()))
	c.Count("write-conflicts-observed", int(conflicts.Load()))
	c.Class("policy:" + policy)
	if retries.Load() > 0 {
		c.Class("observed:merge-retry:" + policy)
	}
	if conflicts.Load() > 0 {
		c.Class("observed:write-conflict:" + policy)
	}
	if policy != "random" && forcedOK.Load() {
		c.Class("forced:" + policy)
	}
	if c.Batch == 0 {
		var tl []string
		for _, e := range trace[:min(len(trace), 30)] {
			tl = append(tl, e.String())
		}
		c.Sample("trace:"+policy, 1, map[string]any{"case": caseID, "info": info, "events": len(trace), "retries": retries.Load(), "conflicts": conflicts.Load(), "first_events": tl})
	}
}

func fnv32(s string) uint32 {
	h := uint32(2166136261)
	for i := 0; i < len(s); i++ {
		h ^= uint32(s[i])
		h *= 16777619
	}
	return h
}

// c14Skipped: a client that only ever looks up paths on its private-module list performs no external
// operation at all (not even reading the key).
func c14Skipped(c *mon.Ctx, key *world.Key) {
	for i := 0; i < c.Scale(3, 20); i++ {
		caseID := fmt.Sprintf("skipped-only:%d", i)
		if !c.Want(caseID) {
			continue
		}
		w := world.New(c01Name, key)
		w.SkipAuth = true
		w.Remote = c14Server(key)
		world.Activate(w)
		cl := sumdb.NewClient(w.Client(1))
		cl.SetGONOSUMDB(c14PatternsFor(c, i))
		var wg sync.WaitGroup
		var bad atomic.Int64
		for g := 0; g < 8; g++ {
			wg.Add(1)
			go func() {
				defer wg.Done()
				for _, p := range c14Private {
					if _, err := cl.Lookup(p[0], p[1]); err != sumdb.ErrGONOSUMDB {
						bad.Add(1)
					}
				}
			}()
		}
		wg.Wait()
		world.Deactivate()
		tr, _ := w.Snapshot()
		c.Eval(1)
		var ext []string
		for _, e := range tr {
			if e.Op != "Yield" {
				ext = append(ext, e.String())
			}
		}
		if bad.Load() > 0 || len(ext) > 0 {
			c.Violation("skipped-only-client-performed-operations", caseID, map[string]any{"wrong_results": bad.Load(), "events": ext})
		}
		c.Class("skipped-only-client-silent")
	}
}

// ---- the once-cache as a linearizable object (porcupine) -------------------------------------------

type c14ParIn struct {
	Key  int
	Cand int
}
type c14ParOut struct {
	Got int
	Ran bool
}

func c14ParCache(c *mon.Ctx) {
	rounds := c.Share(c.Scale(160, 4000))
	model := porcupine.Model{
		Partition: func(h []porcupine.Operation) [][]porcupine.Operation {
			by := map[int][]porcupine.Operation{}
			for _, op := range h {
				k := op.Input.(c14ParIn).Key
				by[k] = append(by[k], op)
			}
			keys := make([]int, 0, len(by))
			for k := range by {
				keys = append(keys, k)
			}
			sort.Ints(keys)
			var out [][]porcupine.Operation
			for _, k := range keys {
				out = append(out, by[k])
			}
			return out
		},
		Init: func() any { return 0 },
		Step: func(st, in, out any) (bool, any) {
			s, i, o := st.(int), in.(c14ParIn), out.(c14ParOut)
			if s == 0 {
				// first caller in linearization order runs its function and installs its own candidate
				return o.Ran && o.Got == i.Cand, i.Cand
			}
			return !o.Ran && o.Got == s, s
		},
		DescribeOperation: func(in, out any) string { return fmt.Sprintf("Do(%v) -> %v", in, out) },
	}
	t0 := time.Now()
	for rd := 0; rd < rounds; rd++ {
		caseID := fmt.Sprintf("parcache:%d", rd)
		r := c.SubRng(caseID)
		if !c.Want(caseID) {
			continue
		}
		var pc sumdb.VerifParCache
		const G, Kk = 24, 6
		var mu sync.Mutex
		var ops []porcupine.Operation
		var wg sync.WaitGroup
		start := make(chan struct{})
		for g := 0; g < G; g++ {
			wg.Add(1)
			order := r.Perm(Kk)
			spin := r.IntN(3)
			go func(g int) {
				defer wg.Done()
				<-start
				for _, k := range order {
					for s := 0; s < spin; s++ {
						runtime.Gosched()
					}
					cand := (g+1)*1000 + k + 1
					ran := false
					call := time.Since(t0).Nanoseconds()
					got := pc.Do(k, func() interface{} {
						ran = true
						runtime.Gosched() // widen the window in which other callers arrive
						return cand
					})
					ret := time.Since(t0).Nanoseconds()
					mu.Lock()
					ops = append(ops, porcupine.Operation{ClientId: g, Input: c14ParIn{k, cand}, Call: call, Output: c14ParOut{got.(int), ran}, Return: ret})
					mu.Unlock()
				}
			}(g)
		}
		close(start)
		wg.Wait()
		res := porcupine.CheckOperationsTimeout(model, ops, 60*time.Second)
		c.Eval(1)
		switch res {
		case porcupine.Ok:
			c.Class("porcupine:ok")
		case porcupine.Illegal:
			var hist []string
			sort.Slice(ops, func(i, j int) bool { return ops[i].Call < ops[j].Call })
			for _, op := range ops[:min(len(ops), 60)] {
				hist = append(hist, fmt.Sprintf("[%d,%d] g%d %v -> %v", op.Call, op.Return, op.ClientId, op.Input, op.Output))
			}
			c.Violation("once-cache-not-linearizable", caseID, map[string]any{"history_head": hist})
		default:
			c.Inconclusive("porcupine timed out on " + caseID)
		}
		// direct counts as a cross-check with unique values: exactly one function ran per key
		ran := map[int]int{}
		for _, op := range ops {
			if op.Output.(c14ParOut).Ran {
				ran[op.Input.(c14ParIn).Key]++
			}
		}
		for k, n := range ran {
			if n != 1 {
				c.Violation("once-cache-ran-function-more-than-once", caseID, map[string]any{"key": k, "times": n})
			}
		}
		c.Count("parcache-operations", len(ops))
	}
}
