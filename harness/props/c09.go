package props

import (
	"bytes"
	"encoding/base64"
	"encoding/json"
	"fmt"
	"math/rand/v2"
	"strconv"
	"strings"
	"sync"
	"sync/atomic"
	"unicode/utf8"
	"verif/harness/gen"

	"golang.org/x/mod/sumdb/tlog"

	"verif/harness/mon"
	"verif/harness/ref/refmerkle"
)

func init() { Registry["C09"] = runC09 }

func validRecordTextRef(t []byte) bool {
	if len(t) == 0 || t[len(t)-1] != '\n' || !utf8.Valid(t) || bytes.Contains(t, []byte("\n\n")) || t[0] == '\n' {
		return false
	}
	for _, b := range t {
		if b < 0x20 && b != '\n' {
			return false
		}
	}
	return true
}

func genRecordText(r *rand.Rand) []byte {
	alpha := []string{"a", "Z", "0", " ", "/", "@", "é", "世", "\u007f", "h1:", "=", "+", "v1.0.0", "example.com/m",
		// code points at every UTF-8 length boundary, the replacement character itself, separators that are not control characters
		"\u0080", "\u07ff", "\u0800", "\ufffd", "\uffff", "\U00010000", "\U0010ffff", "\ue000", "\u00a0", "\u2028", "\u0085", "\u009f", "~", "\u0020"}
	if r.IntN(6) == 0 {
		alpha = append(alpha, string(rune(0x20+r.IntN(0x10ffff-0x20)))) // any code point (surrogates become U+FFFD, which is valid text)
	}
	var sb strings.Builder
	lines := 1 + r.IntN(4)
	for i := 0; i < lines; i++ {
		k := 1 + r.IntN(8)
		for j := 0; j < k; j++ {
			sb.WriteString(alpha[r.IntN(len(alpha))])
		}
		sb.WriteString("\n")
	}
	b := []byte(sb.String())
	// sometimes break exactly one rule
	switch r.IntN(12) {
	case 0:
		b = b[:len(b)-1] // no final newline
	case 1:
		i := r.IntN(len(b))
		b = append(b[:i:i], append([]byte("\n\n"), b[i:]...)...) // blank line (maybe)
	case 2:
		b[r.IntN(len(b))] = byte(r.IntN(0x20)) // control char (maybe \n)
	case 3:
		b[r.IntN(len(b))] = 0xff // invalid UTF-8
	case 4:
		b = append([]byte("\n"), b...) // leading blank line
	case 5:
		b = nil
	}
	return b
}

func runC09(c *mon.Ctx) {
	r := c.Rng
	// ---- dense store built by appending records one at a time -------------------------------
	sizes := []int{c.Scale(700, 30000)}
	if c.Batch%4 == 1 {
		sizes = []int{c.Scale(257, 16385)}
	}
	for _, N := range sizes {
		recs := genRecords(r, N)
		ref := refmerkle.New(recs)
		var st []tlog.Hash
		rd := &storeReader{limit: -1}
		seen := map[[2]int64]bool{}
		prevIdx := int64(-1)
		for i, rec := range recs {
			id := fmt.Sprintf("append:%d:%d", N, i)
			rd.store = st
			rd.limit = int64(len(st))
			var hs []tlog.Hash
			var err error
			c.WAL(id, rec)
			if c.Guard(id, nil, func() { hs, err = tlog.StoredHashes(int64(i), rec, rd) }) {
				return
			}
			if err != nil {
				c.Violation("storedhashes-error", id, err.Error())
				return
			}
			// each returned hash is the RFC 6962 hash of a complete subtree, in completion order
			for k, h := range hs {
				pos := int64(len(st) + k)
				c.Eval(1)
				var lvl int
				var off int64
				c.Guard(id, nil, func() { lvl, off = tlog.SplitStoredHashIndex(pos) })
				if back := tlog.StoredHashIndex(lvl, off); back != pos {
					c.Violation("index-split-not-inverse", id, map[string]any{"pos": pos, "level": lvl, "offset": off, "back": back})
				}
				if want := refmerkle.StoredIndex(lvl, off); want != pos {
					c.Violation("index-not-completion-order", id, map[string]any{"pos": pos, "level": lvl, "offset": off, "ref_index": want})
				}
				if (off+1)<<uint(lvl) > int64(i+1) || lvl < 0 || off < 0 {
					c.Violation("coordinate-outside-tree", id, map[string]any{"pos": pos, "level": lvl, "offset": off, "records": i + 1})
					continue
				}
				if seen[[2]int64{int64(lvl), off}] {
					c.Violation("coordinate-repeated", id, map[string]any{"pos": pos, "level": lvl, "offset": off})
				}
				seen[[2]int64{int64(lvl), off}] = true
				if pos <= prevIdx {
					c.Violation("index-not-increasing", id, pos)
				}
				prevIdx = pos
				if rH(h) != ref.Subtree(lvl, off) {
					c.Violation("stored-hash-not-rfc6962-subtree", id, map[string]any{"pos": pos, "level": lvl, "offset": off})
				}
				c.Class(fmt.Sprintf("stored:level=%d", lvl))
			}
			st = append(st, hs...)
			if got, want := tlog.StoredHashCount(int64(i+1)), refmerkle.StoredCount(int64(i+1)); got != int64(len(st)) || got != want {
				c.Violation("storedhashcount", id, map[string]any{"n": i + 1, "StoredHashCount": got, "len_store": len(st), "formula": want})
			}
			if tlog.RecordHash(rec) != tlog.Hash(refmerkle.Leaf(rec)) {
				c.Violation("recordhash", id, mon.Q(rec))
			}
		}
		// every complete subtree of the final tree is in the store (bijection is onto)
		if int64(len(seen)) != refmerkle.StoredCount(int64(N)) {
			c.Violation("store-not-bijective", fmt.Sprintf("store:%d", N), map[string]any{"distinct_coordinates": len(seen), "want": refmerkle.StoredCount(int64(N))})
		}
		// tree hash for every size m <= N
		rd.store = st
		step := 1
		if N > 1500 {
			step = 7
		}
		var ms []int
		for m := 0; m <= N; m += step {
			ms = append(ms, m)
		}
		if step > 1 {
			for p2 := 1; p2 <= N; p2 *= 2 { // sizes around every power of two are always included
				for _, m := range []int{p2 - 1, p2, p2 + 1} {
					if m <= N {
						ms = append(ms, m)
					}
				}
			}
			ms = append(ms, N-1, N)
		}
		for _, m := range ms {
			id := fmt.Sprintf("treehash:%d:%d", N, m)
			rd.limit = tlog.StoredHashCount(int64(m))
			rd.beyond = nil
			var th tlog.Hash
			var err error
			c.Guard(id, nil, func() { th, err = tlog.TreeHash(int64(m), rd) })
			c.Eval(1)
			if err != nil || rH(th) != ref.Root(m) {
				c.Violation("treehash-not-rfc6962", id, map[string]any{"m": m, "err": fmt.Sprint(err)})
			}
			if len(rd.beyond) > 0 {
				c.Violation("treehash-reads-beyond-tree", id, rd.beyond)
			}
			pc := 0
			for x := m; x > 0; x &= x - 1 {
				pc++
			}
			c.Class(fmt.Sprintf("treehash:popcount=%d", pc))
		}
		c.Sample("store", 2, map[string]any{"records": N, "stored_hashes": len(st), "tree_hash": fmt.Sprintf("%x", ref.Root(N))})
	}

	// ---- a zero-copy HashReader: the library must only read what ReadHashes hands out --------------
	if c.Batch%4 == 2 {
		N := c.Scale(300, 2000)
		recs := genRecords(r, N)
		var st, shadow []tlog.Hash
		zr := tlog.HashReaderFunc(func(ix []int64) ([]tlog.Hash, error) {
			// consecutive runs are served as a sub-slice of the store itself
			consecutive := len(ix) > 0
			for i := 1; i < len(ix); i++ {
				if ix[i] != ix[i-1]+1 {
					consecutive = false
				}
			}
			if consecutive && ix[0] >= 0 && int(ix[len(ix)-1]) < len(st) {
				return st[ix[0] : ix[len(ix)-1]+1], nil
			}
			out := make([]tlog.Hash, len(ix))
			for i, x := range ix {
				if x < 0 || int(x) >= len(st) {
					return nil, fmt.Errorf("index %d out of store", x)
				}
				out[i] = st[x]
			}
			return out, nil
		})
		for i, rec := range recs {
			id := fmt.Sprintf("zerocopy:%d", i)
			var hs []tlog.Hash
			var err error
			if c.Guard(id, nil, func() { hs, err = tlog.StoredHashes(int64(i), rec, zr) }) || err != nil {
				c.Violation("storedhashes-error", id, fmt.Sprint(err))
				break
			}
			c.Eval(1)
			for j := range shadow {
				if st[j] != shadow[j] {
					c.Violation("library-wrote-into-hashes-returned-by-the-reader", id, map[string]any{"record": i, "stored_index": j})
					break
				}
			}
			st = append(st, hs...)
			shadow = append(shadow, hs...)
			if i < 260 || i%16 == 15 || i == N-1 {
				th, err := tlog.TreeHash(int64(i+1), zr)
				ref := refmerkle.New(recs[:i+1])
				if err != nil || rH(th) != ref.Root(i+1) {
					c.Violation("treehash-not-rfc6962", id, map[string]any{"m": i + 1, "reader": "zero-copy", "err": fmt.Sprint(err)})
				}
				if i > 2 {
					for _, n := range []int{i / 2, r.IntN(i + 1), i} {
						if p, err := tlog.ProveRecord(int64(i+1), int64(n), zr); err != nil || !hashesEqual(p, ref.Path(n, i+1)) {
							c.Violation("proverecord-not-rfc6962-path", id, map[string]any{"t": i + 1, "n": n, "reader": "zero-copy", "err": fmt.Sprint(err)})
						}
					}
					for _, m := range []int{i/2 + 1, 1 + r.IntN(i+1)} {
						if p, err := tlog.ProveTree(int64(i+1), int64(m), zr); err != nil || !hashesEqual(p, ref.Proof(m, i+1)) {
							c.Violation("provetree-not-rfc6962-proof", id, map[string]any{"t": i + 1, "n": m, "reader": "zero-copy", "err": fmt.Sprint(err)})
						}
					}
				}
				for j := range shadow {
					if st[j] != shadow[j] {
						c.Violation("library-wrote-into-hashes-returned-by-the-reader", id, map[string]any{"after": "TreeHash/Prove*", "stored_index": j})
						break
					}
				}
			}
		}
		c.Class("zero-copy-reader:store-intact")
	}

	// ---- a read fault reported together with a full-length slice must surface as an error ----------------
	if c.Batch%4 == 1 {
		n := c.Scale(200, 1000)
		recs := genRecords(r, n)
		ref := refmerkle.New(recs)
		st, err := buildStore(recs)
		if err == nil {
			for k := 0; k < c.Scale(400, 4000); k++ {
				m := 1 + r.IntN(n)
				id := fmt.Sprintf("readfault:%d:%d", m, k)
				var asked []int64
				tlog.TreeHash(int64(m), tlog.HashReaderFunc(func(ix []int64) ([]tlog.Hash, error) {
					asked = append(asked, ix...)
					out := make([]tlog.Hash, len(ix))
					for i, x := range ix {
						out[i] = st[x]
					}
					return out, nil
				}))
				if len(asked) == 0 {
					continue
				}
				bad := asked[r.IntN(len(asked))]
				c.Eval(1)
				if th, err := tlog.TreeHash(int64(m), faultyReader(st, bad)); err == nil && rH(th) != ref.Root(m) {
					c.Violation("tree-hash-returned-despite-read-error", id, map[string]any{"m": m, "poisoned_index": bad})
				}
				// appending through a faulty reader must fail too (or still return the true hashes)
				if m < n {
					asked = asked[:0]
					tlog.StoredHashes(int64(m), recs[m], tlog.HashReaderFunc(func(ix []int64) ([]tlog.Hash, error) {
						asked = append(asked, ix...)
						out := make([]tlog.Hash, len(ix))
						for i, x := range ix {
							out[i] = st[x]
						}
						return out, nil
					}))
					if len(asked) > 0 {
						// a sloppy store that answers with more (or fewer) hashes than it was asked for, the
						// wanted ones not in front: the reply has the wrong length and must not be used
						for _, delta := range []int{1, -1, 3} {
							sloppy := tlog.HashReaderFunc(func(ix []int64) ([]tlog.Hash, error) {
								k := len(ix) + delta
								if k < 0 {
									k = 0
								}
								out := make([]tlog.Hash, k)
								for i := range out {
									out[i] = st[(int(ix[0])+7*i+1)%len(st)] // some other stored hashes
								}
								return out, nil
							})
							hs, err := tlog.StoredHashes(int64(m), recs[m], sloppy)
							c.Eval(1)
							if err == nil {
								lo := refmerkle.StoredCount(int64(m))
								for i, h := range hs {
									if lo+int64(i) < int64(len(st)) && h != st[lo+int64(i)] {
										c.Violation("stored-hashes-built-from-a-reply-of-the-wrong-length", id, map[string]any{"record": m, "reply-length-minus-request": delta})
										break
									}
								}
							}
						}
						c.Class("read-fault:reply-of-wrong-length")
						bad = asked[r.IntN(len(asked))]
						hs, err := tlog.StoredHashes(int64(m), recs[m], faultyReader(st, bad))
						if err == nil {
							lo := refmerkle.StoredCount(int64(m))
							for i, h := range hs {
								if lo+int64(i) < int64(len(st)) && h != st[lo+int64(i)] {
									c.Violation("stored-hashes-returned-despite-read-error", id, map[string]any{"record": m, "poisoned_index": bad})
									break
								}
							}
						}
					}
				}
			}
			c.Class("read-fault:error-propagated-or-result-correct")
		}
	}

	// ---- several independent logs built at the same time (the hash functions are pure) ----------------
	if c.Batch%4 == 3 {
		const G = 8
		n := c.Scale(300, 1500)
		var wg sync.WaitGroup
		var bad atomic.Int64
		var first atomic.Value
		for g := 0; g < G; g++ {
			recs := genRecords(r, n)
			wg.Add(1)
			go func(g int) {
				defer wg.Done()
				ref := refmerkle.New(recs)
				st, err := buildStore(recs)
				if err != nil {
					bad.Add(1)
					first.CompareAndSwap(nil, err.Error())
					return
				}
				want := ref.StoredAll(n)
				for i := range st {
					if rH(st[i]) != want[i] {
						bad.Add(1)
						first.CompareAndSwap(nil, fmt.Sprintf("log %d: stored hash %d is not the RFC 6962 subtree hash", g, i))
						return
					}
				}
				th, err := tlog.TreeHash(int64(n), &storeReader{store: st, limit: -1})
				if err != nil || rH(th) != ref.Root(n) {
					bad.Add(1)
					first.CompareAndSwap(nil, fmt.Sprintf("log %d: tree hash wrong", g))
				}
			}(g)
		}
		wg.Wait()
		c.Eval(G * n)
		c.Class("concurrent-logs:8-goroutines")
		if bad.Load() > 0 {
			c.Violation("concurrently-built-log-not-rfc6962", "concurrent-logs", map[string]any{"logs_wrong": bad.Load(), "first": first.Load()})
		}
	}

	// ---- leaf hash of records of every length 0..1100 and around larger powers of two -------------
	if c.Batch%4 == 0 {
		lens := []int{}
		for l := 0; l <= 1100; l++ {
			lens = append(lens, l)
		}
		lens = append(lens, 2047, 2048, 2049, 4095, 4096, 4097, 8191, 8192, 8193, 65535, 65536, 65537, 1<<20-1, 1<<20, 1<<20+1)
		for _, l := range lens {
			id := fmt.Sprintf("recordhash:len%d", l)
			if !c.Want(id) {
				continue
			}
			b := make([]byte, l)
			for j := range b {
				b[j] = byte(r.IntN(256))
			}
			c.Eval(1)
			c.Guard(id, nil, func() {
				if tlog.RecordHash(b) != tlog.Hash(refmerkle.Leaf(b)) {
					c.Violation("recordhash", id, map[string]any{"len": l})
				}
				if l > 0 {
					// the last byte matters
					b2 := append([]byte(nil), b...)
					b2[l-1] ^= 1
					if tlog.RecordHash(b2) == tlog.RecordHash(b) {
						c.Violation("recordhash-ignores-last-byte", id, map[string]any{"len": l})
					}
				}
			})
		}
		c.Class("recordhash:length-sweep")
	}

	// ---- sparse huge coordinates ------------------------------------------------------------
	nCoord := c.Share(c.Scale(200_000, 60_000_000))
	for i := 0; i < nCoord; i++ {
		lvl := r.IntN(61)
		maxOff := int64(1) << uint(61-lvl)
		var off int64
		switch r.IntN(4) {
		case 0:
			off = r.Int64N(maxOff)
		case 1:
			off = maxOff - 1 - r.Int64N(min64(maxOff, 1000))
		case 2:
			off = r.Int64N(min64(maxOff, 1000))
		default:
			off = (int64(1) << uint(r.IntN(62-lvl))) - int64(r.IntN(2))
			if off < 0 || off >= maxOff {
				off = 0
			}
		}
		id := fmt.Sprintf("coord:%d:%d", lvl, off)
		if !c.Want(id) {
			continue
		}
		c.Eval(1)
		c.Guard(id, nil, func() {
			idx := tlog.StoredHashIndex(lvl, off)
			if want := refmerkle.StoredIndex(lvl, off); idx != want {
				c.Violation("sparse-index-not-completion-order", id, map[string]any{"level": lvl, "offset": off, "got": idx, "want": want})
				return
			}
			l2, o2 := tlog.SplitStoredHashIndex(idx)
			if l2 != lvl || o2 != off {
				c.Violation("sparse-split-not-inverse", id, map[string]any{"level": lvl, "offset": off, "index": idx, "got_level": l2, "got_offset": o2})
			}
			// neighbours in storage order are strictly ordered
			if off+1 < maxOff {
				if nx := tlog.StoredHashIndex(lvl, off+1); nx <= idx {
					c.Violation("sparse-index-not-monotone", id, map[string]any{"level": lvl, "offset": off})
				}
			}
		})
		c.Class(fmt.Sprintf("sparse:level=%d", lvl))
	}
	for i := 0; i < c.Share(c.Scale(20_000, 400_000)); i++ {
		n := r.Int64N(1 << 61)
		if i%2 == 0 {
			n = (int64(1) << uint(r.IntN(61))) + int64(r.IntN(3)) - 1
		}
		if n < 0 {
			n = 0
		}
		c.Eval(1)
		if got, want := tlog.StoredHashCount(n), refmerkle.StoredCount(n); got != want {
			c.Violation("storedhashcount-large", fmt.Sprintf("count:%d", n), map[string]any{"n": n, "got": got, "want": want})
		}
	}

	// ---- text codecs --------------------------------------------------------------------------
	nCodec := c.Share(c.Scale(100_000, 30_000_000))
	for i := 0; i < nCodec; i++ {
		id := fmt.Sprintf("codec:%d", i)
		if !c.Want(id) {
			continue
		}
		var h tlog.Hash
		for j := range h {
			h[j] = byte(r.IntN(256))
		}
		var n int64
		switch r.IntN(5) {
		case 0:
			n = 1<<63 - 1 - int64(r.IntN(3))
		case 1:
			n = int64(r.IntN(3))
		case 2:
			n = int64(1) << uint(r.IntN(63))
		default:
			n = r.Int64()
		}
		tree := tlog.Tree{N: n, Hash: h}
		c.Eval(1)
		c.Guard(id, nil, func() {
			txt := tlog.FormatTree(tree)
			back, err := tlog.ParseTree(txt)
			if err != nil || back != tree {
				c.Violation("tree-codec-roundtrip", id, map[string]any{"tree": fmt.Sprint(tree), "text": string(txt), "err": fmt.Sprint(err)})
			}
			c.Class("codec:tree")
			// the other head of a fork has the same size: each is encoded for what it is, in any order
			fork := tree
			fork.Hash[i%32] ^= 1 << uint(i%8)
			ftxt := tlog.FormatTree(fork)
			fback, ferr := tlog.ParseTree(ftxt)
			if again := tlog.FormatTree(tree); ferr != nil || fback != fork || !bytes.Equal(again, txt) {
				c.Violation("tree-codec-roundtrip", id, map[string]any{"tree": fmt.Sprint(fork), "text": string(ftxt), "err": fmt.Sprint(ferr), "formatted_just_before": fmt.Sprint(tree),
					"first_text": string(txt), "first_tree_formatted_again": string(again)})
			}
			c.Class("codec:tree:two-heads-of-one-size")
			// forward-compatible extra lines must not change the value
			back, err = tlog.ParseTree(append(append([]byte(nil), txt...), "extra line\n"...))
			if err != nil || back != tree {
				c.Violation("tree-codec-extra-lines", id, string(txt))
			}
			// hash text form
			h2, err := tlog.ParseHash(h.String())
			if err != nil || h2 != h {
				c.Violation("hash-codec-roundtrip", id, h.String())
			}
			js, err := json.Marshal(h)
			var h3 tlog.Hash
			if err != nil || json.Unmarshal(js, &h3) != nil || h3 != h {
				c.Violation("hash-json-roundtrip", id, string(js))
			}
			// mutated JSON text of a hash: whatever is accepted must be the quoted, padded base64 of the hash it yields
			{
				mj := []byte(mutateBytes(r, js))
				switch r.IntN(4) {
				case 0: // only the padding character differs
					mj = append([]byte(nil), js...)
					mj[len(mj)-2] = "A/ -=+x"[r.IntN(7)]
				case 2: // one character in the middle is not base64
					mj = append([]byte(nil), js...)
					mj[1+r.IntN(40)] = "!*. ~"[r.IntN(5)]
				case 1: // only the last significant character differs
					mj = append([]byte(nil), js...)
					mj[len(mj)-3] = "ABCDEFGHIJKLMNOPQRSTUVWXYZabcdefghijklmnopqrstuvwxyz0123456789+/=-"[r.IntN(66)]
				}
				// the receiver already holds a hash: "avoid writing anything to *h unless the entire input is well-formed"
				held := tlog.Hash(refmerkle.Leaf(mj))
				hm := held
				uerr := json.Unmarshal(mj, &hm)
				if uerr != nil && hm != held {
					c.Violation("hash-changed-by-json-text-that-was-rejected", id, map[string]any{"text": mon.Q(mj), "err": uerr.Error()})
				}
				if uerr == nil && !bytes.Equal(mj, []byte("null")) {
					var str string
					dec, derr := []byte(nil), error(nil)
					if json.Unmarshal(mj, &str) != nil {
						derr = fmt.Errorf("not a JSON string")
					} else {
						dec, derr = base64.StdEncoding.DecodeString(str)
					}
					if derr != nil || !bytes.Equal(dec, hm[:]) {
						c.Violation("hash-json-accepts-text-that-is-not-its-base64", id, map[string]any{"text": mon.Q(mj), "hash": hm.String()})
					}
					c.Class("codec:hash-json-mutant-accepted")
				} else {
					c.Class("codec:hash-json-mutant-rejected")
				}
			}
			// mutated tree text: accepted only if it re-formats to itself (up to ignored extra lines)
			mt := []byte(mutateBytes(r, txt))
			if r.IntN(6) == 0 {
				// the first line is the whole of "go.sum database tree", not a prefix of it
				mt = append([]byte("go.sum database tree"+gen.Pick(r, []string{" v2", "2", "s", " ", "\t", ".", "-v1"})), txt[len("go.sum database tree"):]...)
			}
			if t2, err := tlog.ParseTree(mt); err == nil {
				// what was accepted must mean what it says: exact first line, canonical decimal size,
				// and a third line that is base64 for the returned hash (the decoder's leniency about
				// padding bits is not part of this property)
				ls := strings.SplitN(string(mt), "\n", 4)
				dec, derr := base64.StdEncoding.DecodeString(ls[2])
				if len(ls) < 4 || ls[0] != "go.sum database tree" || ls[1] != strconv.FormatInt(t2.N, 10) || t2.N < 0 || derr != nil || !bytes.Equal(dec, t2.Hash[:]) {
					c.Violation("tree-codec-accepts-noncanonical", id, map[string]any{"text": mon.Q(mt), "parsed": fmt.Sprint(t2)})
				}
				c.Class("codec:mutated-tree-accepted")
			} else {
				c.Class("codec:mutated-tree-rejected")
			}
		})
		// records
		text := genRecordText(r)
		rid := r.Int64()
		if r.IntN(4) == 0 {
			rid = int64(r.IntN(5))
		}
		if rid < 0 {
			rid = -rid
			if rid < 0 {
				rid = 0
			}
		}
		c.Eval(1)
		c.Guard(id, func() any { return mon.Q(text) }, func() {
			msg, err := tlog.FormatRecord(rid, text)
			valid := validRecordTextRef(text)
			if len(text) > 0 && text[0] == '\n' && validRecordTextRef(text[1:]) {
				// A leading blank line is a "blank line" by the doc comment but accepted by the code; it
				// still round-trips, which is all this property states, so the class is left unspecified.
				valid = err == nil
				c.Class("codec:record-leading-blank-line-unspecified")
			}
			if (err == nil) != valid {
				c.Violation("formatrecord-validity", id, map[string]any{"text": mon.Q(text), "err": fmt.Sprint(err), "valid_by_doc": valid})
				return
			}
			if !valid {
				c.Class("codec:record-text-refused")
				return
			}
			c.Class("codec:record")
			tail := []byte("trailing tree note\n")
			gid, gtext, rest, err := tlog.ParseRecord(append(append([]byte(nil), msg...), tail...))
			if err != nil || gid != rid || !bytes.Equal(gtext, text) || !bytes.Equal(rest, tail) {
				c.Violation("record-codec-roundtrip", id, map[string]any{"id": rid, "text": mon.Q(text), "msg": mon.Q(msg), "got_id": gid, "got_text": mon.Q(gtext), "rest": mon.Q(rest), "err": fmt.Sprint(err)})
			}
		})
	}
}

func min64(a, b int64) int64 {
	if a < b {
		return a
	}
	return b
}

// mutateBytes applies one random byte-level edit.
func mutateBytes(r *rand.Rand, in []byte) []byte {
	b := append([]byte(nil), in...)
	if len(b) == 0 {
		return []byte{byte(r.IntN(256))}
	}
	switch r.IntN(6) {
	case 0:
		i := r.IntN(len(b))
		b = append(b[:i], b[i+1:]...)
	case 1:
		i := r.IntN(len(b) + 1)
		b = append(b[:i:i], append([]byte{byte(r.IntN(256))}, b[i:]...)...)
	case 2:
		b[r.IntN(len(b))] ^= 1 << uint(r.IntN(8))
	case 3:
		i := r.IntN(len(b) + 1)
		ins := [][]byte{[]byte("\n"), []byte("0"), []byte("+"), []byte(" "), []byte("-"), []byte("=")}[r.IntN(6)]
		b = append(b[:i:i], append(ins, b[i:]...)...)
	case 4:
		b = b[:r.IntN(len(b))]
	case 5:
		i, j := r.IntN(len(b)), r.IntN(len(b))
		b[i], b[j] = b[j], b[i]
	}
	return b
}
