package props

import (
	"archive/zip"
	"bytes"
	"fmt"
	"os"
	"os/signal"
	"path/filepath"
	"syscall"

	"golang.org/x/mod/module"
	mzip "golang.org/x/mod/zip"

	"verif/harness/fsbox"
	"verif/harness/mon"
)

// c12FileSizeLimit: extraction while the file system refuses to let any file grow beyond L bytes
// (RLIMIT_FSIZE lowered around the call, SIGXFSZ ignored, so write(2) fails with EFBIG at that
// point — the process-level stand-in for a full disk or a quota). The archives are honest and
// accepted by the zip check. If an entry is larger than L the tree cannot become equal to the
// entries, so extraction must not report success; if every entry fits, nothing is in the way and
// it must succeed. Nothing may appear outside the target either way.
func c12FileSizeLimit(c *mon.Ctx, base string) {
	n := c.Share(c.Scale(320, 6400))
	mv := module.Version{Path: "example.com/m", Version: "v1.0.0"}
	prefix := mv.Path + "@" + mv.Version + "/"
	var old syscall.Rlimit
	if err := syscall.Getrlimit(syscall.RLIMIT_FSIZE, &old); err != nil {
		c.Inconclusive("getrlimit: " + err.Error())
		return
	}
	signal.Ignore(syscall.SIGXFSZ)
	names := []string{"a.go", "sub/b.go", "go.mod", "LICENSE", "sub/deep/c.txt", "z/last.bin"}
	for i := 0; i < n; i++ {
		id := fmt.Sprintf("fsize%d", i)
		r := c.SubRng(id)
		limit := []int{1, 64, 1000, 4096, 70000}[r.IntN(5)]
		k := 1 + r.IntN(len(names))
		perm := r.Perm(len(names))[:k]
		type ent struct {
			name string
			data []byte
		}
		var ents []ent
		over := false
		var buf bytes.Buffer
		zw := zip.NewWriter(&buf)
		for _, j := range perm {
			size := []int{0, 1, limit - 1, limit, limit + 1, 3*limit + 7, 10}[r.IntN(7)]
			if names[j] == "go.mod" && size > 1000 {
				size = 1000
			}
			d := make([]byte, size)
			for x := range d {
				d[x] = byte('a' + (x+j)%26)
			}
			method := zip.Deflate
			if r.IntN(2) == 0 {
				method = zip.Store
			}
			w, err := zw.CreateHeader(&zip.FileHeader{Name: prefix + names[j], Method: method})
			if err != nil {
				panic(err)
			}
			w.Write(d)
			ents = append(ents, ent{names[j], d})
			if size > limit {
				over = true
			}
		}
		zw.Close()
		if !c.Want(id) {
			continue
		}
		c.WAL(id, buf.Bytes())
		box, err := fsbox.New(base, id)
		if err != nil {
			c.Inconclusive("sandbox: " + err.Error())
			return
		}
		if err := os.WriteFile(box.Zip, buf.Bytes(), 0o644); err != nil {
			box.Remove()
			c.Inconclusive("sandbox: " + err.Error())
			return
		}
		before := fsbox.Snapshot(box.Root, false)
		wit := func() any {
			var es []string
			for _, e := range ents {
				es = append(es, fmt.Sprintf("%s (%d bytes)", e.name, len(e.data)))
			}
			return map[string]any{"file-size-limit": limit, "entries": es}
		}
		var czErr, uzErr error
		crashed := c.Guard(id, wit, func() {
			_, czErr = mzip.CheckZip(mv, box.Zip)
			lim := syscall.Rlimit{Cur: uint64(limit), Max: old.Max}
			if err := syscall.Setrlimit(syscall.RLIMIT_FSIZE, &lim); err != nil {
				panic("harness: setrlimit: " + err.Error())
			}
			defer syscall.Setrlimit(syscall.RLIMIT_FSIZE, &old)
			uzErr = mzip.Unzip(box.Target, mv, box.Zip)
		})
		syscall.Setrlimit(syscall.RLIMIT_FSIZE, &old)
		if crashed {
			box.Remove()
			continue
		}
		c.Eval(1)
		after := fsbox.Snapshot(box.Root, false)
		rel, _ := filepath.Rel(box.Root, box.Target)
		rel = filepath.ToSlash(rel)
		if out := fsbox.Outside(before, after, rel); len(out) > 0 {
			c.Violation("created-outside-target", id, map[string]any{"case": wit(), "changes": fmt.Sprintf("%q", out)})
		}
		switch {
		case czErr != nil:
			c.Inconclusive(fmt.Sprintf("harness: honest archive of %s rejected by the zip check: %v", id, czErr))
		case uzErr == nil:
			want := zipcWant{}
			for _, e := range ents {
				want[e.name] = zipcWantOf(int64(len(e.data)), zipcSum(e.data))
			}
			if d := zipcTreeDiff(after.Under(rel), want, nil); d != "" {
				c.Violation("unzip-reports-success-though-writes-failed", id, map[string]any{"case": wit(), "diff": d})
			} else if over {
				c.Inconclusive(fmt.Sprintf("harness: the file size limit did not bite in %s", id))
			} else {
				c.Class("fsize:all-entries-fit:unzip-ok")
			}
		case over:
			c.Class("fsize:entry-over-limit:unzip-fails")
		default:
			c.Violation("unzip-fails-though-check-accepts-and-nothing-in-the-way", id, map[string]any{"case": wit(), "unzip": uzErr.Error()})
		}
		box.Remove()
	}
}
