// Package props holds one engine per property: workload generator, the
// monitors observing golang/mod, and the oracle deciding each observation.
package props

import "verif/harness/mon"

// Registry maps property ids to engines.
var Registry = map[string]func(*mon.Ctx){}
