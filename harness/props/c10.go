package props

import (
	"bytes"
	"fmt"
	"math/rand/v2"
	"sort"
	"sync"
	"sync/atomic"

	"golang.org/x/mod/sumdb/tlog"

	"verif/harness/mon"
	"verif/harness/ref/refmerkle"
)

func init() { Registry["C10"] = runC10 }

func refTile(t tlog.Tile) refmerkle.Tile { return refmerkle.Tile{H: t.H, L: t.L, N: t.N, W: t.W} }

// tileSrv is the harness TileReader: serves the true tile bytes of the reference
// log (possibly altered by the fault plan), logs requests and SaveTiles arguments.
type tileSrv struct {
	h         int
	n         int
	ref       *refmerkle.Log
	forged    *refmerkle.Log // alternative log used by chain forgeries
	forgeLvls int            // tile levels < forgeLvls are served from forged
	published map[refmerkle.Tile]bool
	fault     map[tlog.Tile]func([]byte) []byte
	requested []tlog.Tile
	missing   []tlog.Tile
	savedBad  []string
	savedN    int
	served    map[tlog.Tile][]byte
}

func (s *tileSrv) Height() int { return s.h }

func (s *tileSrv) ReadTiles(tiles []tlog.Tile) ([][]byte, error) {
	out := make([][]byte, len(tiles))
	for i, t := range tiles {
		rt := refTile(t)
		if t.H != s.h || t.L < 0 || !refmerkle.TileExists(rt, int64(s.n)) {
			s.missing = append(s.missing, t)
			return nil, fmt.Errorf("tile %v does not exist in tree of size %d", t, s.n)
		}
		if s.published != nil && !s.published[rt] {
			s.missing = append(s.missing, t)
			return nil, fmt.Errorf("tile %v was never published", t)
		}
		s.requested = append(s.requested, t)
		var d []byte
		if s.forged != nil && t.L < s.forgeLvls {
			d = s.forged.TileBytes(rt)
		} else {
			d = s.ref.TileBytes(rt)
		}
		if f := s.fault[t]; f != nil {
			d = f(append([]byte(nil), d...))
		}
		out[i] = d
		if s.served != nil {
			s.served[t] = d
		}
	}
	return out, nil
}

func (s *tileSrv) SaveTiles(tiles []tlog.Tile, data [][]byte) {
	for i, t := range tiles {
		s.savedN++
		if i >= len(data) || !bytes.Equal(data[i], s.ref.TileBytes(refTile(t))) {
			s.savedBad = append(s.savedBad, t.Path())
		}
	}
}

type tileMut struct {
	name string
	f    func(r *rand.Rand, d []byte, other func() []byte) []byte
}

var tileMutators = []tileMut{
	{"flip-bit", func(r *rand.Rand, d []byte, _ func() []byte) []byte {
		d[r.IntN(len(d))] ^= 1 << uint(r.IntN(8))
		return d
	}},
	{"flip-first-slot", func(r *rand.Rand, d []byte, _ func() []byte) []byte { d[r.IntN(32)] ^= 0x40; return d }},
	{"flip-last-slot", func(r *rand.Rand, d []byte, _ func() []byte) []byte { d[len(d)-1-r.IntN(32)] ^= 0x02; return d }},
	{"truncate-1", func(r *rand.Rand, d []byte, _ func() []byte) []byte { return d[:len(d)-1] }},
	{"truncate-hash", func(r *rand.Rand, d []byte, _ func() []byte) []byte { return d[:len(d)-32] }},
	{"empty", func(r *rand.Rand, d []byte, _ func() []byte) []byte { return nil }},
	{"extend-1", func(r *rand.Rand, d []byte, _ func() []byte) []byte { return append(d, 0) }},
	{"extend-hash", func(r *rand.Rand, d []byte, _ func() []byte) []byte { return append(d, d[:32]...) }},
	{"duplicate-slot", func(r *rand.Rand, d []byte, _ func() []byte) []byte {
		w := len(d) / 32
		if w < 2 {
			d[0] ^= 1
			return d
		}
		i := r.IntN(w - 1)
		copy(d[(i+1)*32:(i+2)*32], d[i*32:(i+1)*32])
		return d
	}},
	{"swap-slots", func(r *rand.Rand, d []byte, _ func() []byte) []byte {
		w := len(d) / 32
		if w < 2 {
			d[31] ^= 1
			return d
		}
		i := r.IntN(w - 1)
		var tmp [32]byte
		copy(tmp[:], d[i*32:])
		copy(d[i*32:(i+1)*32], d[(i+1)*32:(i+2)*32])
		copy(d[(i+1)*32:], tmp[:])
		return d
	}},
	{"zero", func(r *rand.Rand, d []byte, _ func() []byte) []byte {
		for i := range d {
			d[i] = 0
		}
		return d
	}},
	{"other-tile", func(r *rand.Rand, d []byte, other func() []byte) []byte {
		o := other()
		if o == nil || bytes.Equal(o, d) {
			d[0] ^= 0x10
			return d
		}
		// same length as expected so that only content tells
		out := make([]byte, len(d))
		for i := range out {
			out[i] = o[i%len(o)]
		}
		return out
	}},
}

func runC10(c *mon.Ctx) {
	r := c.Rng
	var ns []int
	if c.Quick() {
		for n := 1; n <= 64; n++ {
			ns = append(ns, n)
		}
		ns = append(ns, 65, 127, 128, 129, 255, 256, 257, 600, 1030) // the last two: spans of more than 2^9 hashes inside one tall tile
	} else {
		for n := 1; n <= 520; n++ {
			ns = append(ns, n)
		}
		ns = append(ns, 511, 512, 513, 1023, 1024, 1025, 2047, 2048, 2049, 4095, 4096, 4097)
	}
	hs := []int{1, 2, 3, 4, 8, 9, 10, 30} // 30 is the largest height the tile functions accept
	if !c.Quick() {
		hs = []int{1, 2, 3, 4, 5, 6, 7, 8, 9, 10, 29, 30}
	}
	maxN := ns[len(ns)-1]
	recs := genRecords(c.GlobalRng("records"), maxN)
	ref := refmerkle.New(recs)
	// forged alternatives: same log with exactly one record replaced
	forgedFor := func(rec int) *refmerkle.Log {
		alt := append([][]byte(nil), recs...)
		alt[rec] = append([]byte("forged:"), recs[rec]...)
		return refmerkle.New(alt)
	}

	item := 0
	for _, n := range ns {
		for _, h := range hs {
			mine := c.Mine(item)
			item++
			if !mine {
				continue
			}
			tree := tlog.Tree{N: int64(n), Hash: tlog.Hash(ref.Root(n))}
			stored := ref.StoredAll(n)
			// ---- publisher side: growth sequence 0 -> ... -> n, union of NewTiles --------------
			published := map[refmerkle.Tile]bool{}
			old := 0
			steps := 0
			for old < n {
				nw := old + 1 + r.IntN(1+n/3)
				if nw > n || r.IntN(6) == 0 {
					nw = n
				}
				var tl []tlog.Tile
				c.Guard(fmt.Sprintf("newtiles:%d:%d:%d", h, old, nw), nil, func() { tl = tlog.NewTiles(h, int64(old), int64(nw)) })
				for _, t := range tl {
					published[refTile(t)] = true
					if !refmerkle.TileExists(refTile(t), int64(nw)) {
						c.Violation("newtiles-outside-tree", fmt.Sprintf("newtiles:%d:%d:%d", h, old, nw), t.Path())
					}
				}
				old = nw
				steps++
			}
			// ReadTileData over the true store yields the true tile bytes
			srd := &storeReader{store: toTlog(stored), limit: int64(len(stored))}
			for rt := range published {
				if !refmerkle.TileExists(rt, int64(n)) {
					continue // partial tile superseded by growth
				}
				t := tlog.Tile{H: rt.H, L: rt.L, N: rt.N, W: rt.W}
				d, err := tlog.ReadTileData(t, srd)
				c.Eval(1)
				if err != nil || !bytes.Equal(d, ref.TileBytes(rt)) {
					c.Violation("readtiledata-not-true-tile", fmt.Sprintf("rtd:%d:%d:%s", n, h, t.Path()), fmt.Sprint(err))
				}
				// storage that comes up short (the newest hashes are not written yet) without saying so:
				// the publisher gets a refusal, or the true tile, never something else to publish
				if cut := int(int64(rt.L)+int64(rt.N)+int64(rt.W)) % 4; cut < 2 { // by coordinates: the set is walked in map order
					short := &shortReader{r: srd, drop: 1 + cut*(t.W-1)} // one hash missing, or (cut=1) all of them
					var sd []byte
					var serr error
					c.Guard(fmt.Sprintf("rtd-short:%d:%d:%s", n, h, t.Path()), nil, func() { sd, serr = tlog.ReadTileData(t, short) })
					c.Eval(1)
					switch {
					case serr != nil:
						c.Class("readtiledata:short-storage-reply:refused")
					case bytes.Equal(sd, ref.TileBytes(rt)):
						c.Class("readtiledata:short-storage-reply:true-tile-anyway")
					default:
						c.Violation("readtiledata-hands-out-untrue-tile-on-short-storage-reply", fmt.Sprintf("rtd-short:%d:%d:%s", n, h, t.Path()),
							map[string]any{"tile": t.Path(), "hashes_asked": short.asked, "hashes_returned": short.gave, "got_len": len(sd)})
					}
				}
			}

			// ---- index sets -------------------------------------------------------------------
			type iset struct {
				name string
				idx  []int64
			}
			var sets []iset
			leafBudget, idxBudget := n, len(stored)
			if n > 64 {
				leafBudget, idxBudget = 12, 16
			}
			for k := 0; k < leafBudget; k++ {
				rec := k
				if n > 64 {
					rec = []int{0, n - 1, n / 2}[k%3]
					if k >= 3 {
						rec = r.IntN(n)
					}
				}
				sets = append(sets, iset{fmt.Sprintf("leaf%d", rec), []int64{refmerkle.StoredIndex(0, int64(rec))}})
			}
			for k := 0; k < idxBudget; k++ {
				i := k
				if n > 64 {
					i = r.IntN(len(stored))
				}
				sets = append(sets, iset{fmt.Sprintf("idx%d", i), []int64{int64(i)}})
			}
			for k := 0; k < 8; k++ {
				m := 2 + r.IntN(7)
				var ix []int64
				for j := 0; j < m; j++ {
					ix = append(ix, int64(r.IntN(len(stored))))
				}
				sets = append(sets, iset{fmt.Sprintf("rand%d", k), ix})
			}
			// the empty request (StoredHashes asks for nothing at every even record number)
			sets = append(sets, iset{"empty", nil})
			// the sets the tlog algorithms themselves ask for
			capture := func(name string, f func(hr tlog.HashReader) error) {
				var got []int64
				hr := tlog.HashReaderFunc(func(ix []int64) ([]tlog.Hash, error) {
					got = append(got, ix...)
					out := make([]tlog.Hash, len(ix))
					for i, x := range ix {
						out[i] = tlog.Hash(stored[x])
					}
					return out, nil
				})
				if err := f(hr); err == nil && len(got) > 0 {
					sets = append(sets, iset{name, got})
				}
			}
			for k := 0; k < 3; k++ {
				m := 1 + r.IntN(n)
				capture(fmt.Sprintf("treehash%d", m), func(hr tlog.HashReader) error { _, err := tlog.TreeHash(int64(m), hr); return err })
				rec := r.IntN(n)
				capture(fmt.Sprintf("proverecord%d", rec), func(hr tlog.HashReader) error { _, err := tlog.ProveRecord(int64(n), int64(rec), hr); return err })
				capture(fmt.Sprintf("provetree%d", m), func(hr tlog.HashReader) error { _, err := tlog.ProveTree(int64(n), int64(m), hr); return err })
			}

			for _, set := range sets {
				id := fmt.Sprintf("n%d:h%d:%s", n, h, set.name)
				if !c.Want(id) {
					continue
				}
				c.WAL(id, nil)
				truth := make([]tlog.Hash, len(set.idx))
				for i, x := range set.idx {
					truth[i] = tlog.Hash(stored[x])
				}
				run := func(srv *tileSrv, tr tlog.Tree) (got []tlog.Hash, err error) {
					c.Guard(id, func() any { return set.idx }, func() { got, err = tlog.TileHashReader(tr, srv).ReadHashes(set.idx) })
					return
				}
				judge := func(kind string, srv *tileSrv, got []tlog.Hash, err error, faulted bool) {
					c.Eval(1)
					outcome := "rejected"
					if err == nil {
						outcome = "accepted-harmless"
						if len(got) != len(truth) {
							c.Violation("wrong-hash-count", id, map[string]any{"fault": kind, "got": len(got), "want": len(truth)})
							outcome = "violation"
						} else {
							for i := range got {
								if got[i] != truth[i] {
									c.Violation("unauthentic-hash-returned", id, map[string]any{"fault": kind, "n": n, "h": h, "indexes": set.idx, "position": i,
										"requested_tiles": tilePaths(srv.requested)})
									outcome = "violation"
									break
								}
							}
						}
					}
					if len(srv.savedBad) > 0 {
						c.Violation("unauthentic-tile-saved", id, map[string]any{"fault": kind, "n": n, "h": h, "indexes": set.idx, "saved_bad": srv.savedBad, "err": fmt.Sprint(err)})
						outcome = "violation"
					}
					if faulted {
						c.Class("fault:" + kind + ":" + outcome)
					}
				}
				// honest run
				srv := &tileSrv{h: h, n: n, ref: ref, published: published}
				got, err := run(srv, tree)
				if err != nil {
					c.Violation("honest-read-failed", id, map[string]any{"n": n, "h": h, "indexes": set.idx, "err": err.Error(), "missing_tiles": tilePaths(srv.missing)})
					continue
				}
				judge("none", srv, got, err, false)
				c.Class(fmt.Sprintf("honest:h=%d:tiles=%d", h, len(srv.requested)))
				if srv.savedN != len(srv.requested) {
					c.Count("honest-saved-ne-requested", 1)
				}
				reqs := append([]tlog.Tile(nil), srv.requested...)
				if c.Batch == 0 {
					c.Sample("honest-read", 2, map[string]any{"n": n, "h": h, "indexes": set.idx, "tiles_requested": tilePaths(reqs)})
				}
				// wrong tree hash with honest tiles
				wt := tree
				wt.Hash[r.IntN(32)] ^= 1
				srv = &tileSrv{h: h, n: n, ref: ref}
				got, err = run(srv, wt)
				c.Eval(1)
				if err == nil {
					c.Violation("read-succeeds-against-wrong-tree-hash", id, map[string]any{"n": n, "h": h, "indexes": set.idx})
				} else {
					c.Class("fault:wrong-tree-hash:rejected")
				}
				if len(srv.savedBad) > 0 || (err != nil && srv.savedN > 0) {
					c.Violation("tiles-saved-without-authentication", id, map[string]any{"n": n, "h": h, "saved": srv.savedN})
				}
				// single-tile faults over exactly the tiles the honest run consumed
				muts := tileMutators
				for ti, ft := range reqs {
					for _, m := range muts {
						if n > 64 && r.IntN(3) != 0 {
							continue
						}
						m := m
						other := func() []byte {
							// a sibling, parent or child tile of the same tree, if one exists
							cands := []refmerkle.Tile{{H: h, L: ft.L, N: ft.N + 1, W: ft.W}, {H: h, L: ft.L, N: ft.N - 1, W: 1 << uint(h)},
								{H: h, L: ft.L + 1, N: ft.N >> uint(h), W: 1}, {H: h, L: ft.L - 1, N: ft.N << uint(h), W: 1 << uint(h)}}
							for _, ct := range cands {
								if ct.L >= 0 && ct.N >= 0 && refmerkle.TileExists(ct, int64(n)) {
									return ref.TileBytes(ct)
								}
							}
							return nil
						}
						srv := &tileSrv{h: h, n: n, ref: ref, fault: map[tlog.Tile]func([]byte) []byte{ft: func(d []byte) []byte { return m.f(r, d, other) }}}
						got, err := run(srv, tree)
						judge(fmt.Sprintf("%s@pos%d/L%d", m.name, min(ti, 3), min(ft.L, 3)), srv, got, err, true)
					}
					// every slot of the tile once (small tiles) or four sampled slots
					slots := ft.W
					for sidx := 0; sidx < slots; sidx++ {
						if slots > 8 && r.IntN(slots) >= 4 {
							continue
						}
						sidx := sidx
						srv := &tileSrv{h: h, n: n, ref: ref, fault: map[tlog.Tile]func([]byte) []byte{ft: func(d []byte) []byte {
							d[sidx*32+r.IntN(32)] ^= 1 << uint(r.IntN(8))
							return d
						}}}
						got, err := run(srv, tree)
						judge(fmt.Sprintf("flip-slot@L%d", min(ft.L, 3)), srv, got, err, true)
					}
				}
				// the SAME reader object used twice: an honest first read, then the tile goes bad
				for ti, ft := range reqs {
					if n > 64 && r.IntN(3) != 0 {
						continue
					}
					m := muts[r.IntN(3)]
					srv := &tileSrv{h: h, n: n, ref: ref, fault: map[tlog.Tile]func([]byte) []byte{}}
					hr := tlog.TileHashReader(tree, srv)
					var got []tlog.Hash
					var err error
					c.Guard(id, func() any { return set.idx }, func() { got, err = hr.ReadHashes(set.idx) })
					if err != nil {
						break
					}
					srv.fault[ft] = func(d []byte) []byte { return m.f(r, d, func() []byte { return nil }) }
					srv.requested, srv.savedBad, srv.savedN = nil, nil, 0
					c.Guard(id, func() any { return set.idx }, func() { got, err = hr.ReadHashes(set.idx) })
					judge(fmt.Sprintf("second-read-on-same-reader:%s@pos%d", m.name, min(ti, 3)), srv, got, err, true)
				}
				// pairs of faulted tiles
				if len(reqs) >= 2 {
					for k := 0; k < 3; k++ {
						a, b := reqs[r.IntN(len(reqs))], reqs[r.IntN(len(reqs))]
						ma, mb := muts[r.IntN(3)], muts[r.IntN(len(muts))]
						none := func() []byte { return nil }
						srv := &tileSrv{h: h, n: n, ref: ref, fault: map[tlog.Tile]func([]byte) []byte{
							a: func(d []byte) []byte { return ma.f(r, d, none) }, b: func(d []byte) []byte { return mb.f(r, d, none) }}}
						got, err := run(srv, tree)
						judge("pair", srv, got, err, true)
					}
				}
				// self-consistent forgery of one record through the k lowest tile levels
				if len(set.idx) > 0 && set.idx[0] < int64(len(stored)) {
					lvl, off := tlog.SplitStoredHashIndex(set.idx[0])
					rec := int(off << uint(lvl))
					if rec < n {
						fl := forgedFor(rec)
						topL := 0
						for (n >> uint(h*(topL+1))) > 0 {
							topL++
						}
						for k := 1; k <= topL+1; k++ {
							srv := &tileSrv{h: h, n: n, ref: ref, forged: fl, forgeLvls: k}
							got, err := run(srv, tree)
							judge(fmt.Sprintf("forged-chain:k=%d", min(k, 4)), srv, got, err, true)
						}
					}
				}
			}
		}
	}

	// ---- tile coordinates <-> paths ---------------------------------------------------------
	nPath := c.Share(c.Scale(60_000, 12_000_000))
	for i := 0; i < nPath; i++ {
		id := fmt.Sprintf("path:%d", i)
		if !c.Want(id) {
			continue
		}
		h := 1 + r.IntN(30)
		L := r.IntN(65) - 1
		var N int64
		switch r.IntN(4) {
		case 0:
			N = int64(r.IntN(1000))
		case 1:
			N = int64(999 + r.IntN(3))
		case 2:
			N = r.Int64N(1 << 40)
		default:
			N = []int64{0, 999, 1000, 999999, 1000000, 1234067, 1<<62 - 1}[r.IntN(7)]
		}
		W := 1 << uint(h)
		if r.IntN(2) == 0 {
			W = 1 + r.IntN(W)
		}
		t := tlog.Tile{H: h, L: L, N: N, W: W}
		c.Eval(1)
		c.Guard(id, func() any { return fmt.Sprint(t) }, func() {
			p := t.Path()
			if want := refmerkle.TilePath(refTile(t)); p != want {
				c.Violation("tile-path-format", id, map[string]any{"tile": fmt.Sprint(t), "got": p, "want": want})
				return
			}
			back, err := tlog.ParseTilePath(p)
			if err != nil || back != t {
				c.Violation("tile-path-roundtrip", id, map[string]any{"tile": fmt.Sprint(t), "path": p, "back": fmt.Sprint(back), "err": fmt.Sprint(err)})
			}
			c.Class(fmt.Sprintf("path:groups=%d:partial=%t:data=%t", len(p)/5, W != 1<<uint(h), L == -1))
			// hostile variants: accepted only when canonical
			q := gen4Path(r, p)
			if t2, err := tlog.ParseTilePath(q); err == nil {
				if t2.Path() != q || refmerkle.TilePath(refTile(t2)) != q {
					c.Violation("noncanonical-tile-path-accepted", id, map[string]any{"path": q, "tile": fmt.Sprint(t2)})
				}
				c.Class("path:mutated-accepted")
			} else {
				if rt, ok := refmerkle.ParseTilePath(q); ok {
					c.Violation("canonical-tile-path-rejected", id, map[string]any{"path": q, "ref_tile": fmt.Sprint(rt)})
				}
				c.Class("path:mutated-rejected")
			}
		})
	}
	_ = sort.Ints
	c10Concurrent(c, ref, maxN)
	c10Huge(c)
}

// lockedTiles serialises a tile source that several goroutines use through one reader.
type lockedTiles struct {
	mu    sync.Mutex
	inner *tileSrv
}

func (l *lockedTiles) Height() int { return l.inner.Height() }
func (l *lockedTiles) ReadTiles(t []tlog.Tile) ([][]byte, error) {
	l.mu.Lock()
	defer l.mu.Unlock()
	return l.inner.ReadTiles(t)
}
func (l *lockedTiles) SaveTiles(t []tlog.Tile, d [][]byte) {
	l.mu.Lock()
	defer l.mu.Unlock()
	l.inner.SaveTiles(t, d)
}

// c10Concurrent: honest reads through tiles from eight goroutines at once, each with its own reader and
// tile source over the same reference log, at several heights side by side. Every read must succeed and
// return the true hashes, and only true tiles may be saved (package-level scratch state in the tile code
// would show here, and nowhere in the single-goroutine families).
func c10Concurrent(c *mon.Ctx, ref *refmerkle.Log, maxN int) {
	rounds := c.Share(c.Scale(96, 800))
	for k := 0; k < rounds; k++ {
		id := fmt.Sprintf("conc:%d", k)
		if !c.Want(id) {
			continue
		}
		c.WAL(id, nil)
		rr := c.SubRng(id)
		n := maxN - rr.IntN(maxN/2)
		stored := ref.StoredAll(n)
		tree := tlog.Tree{N: int64(n), Hash: tlog.Hash(ref.Root(n))}
		const G = 8
		type job struct {
			h   int
			idx [][]int64
		}
		jobs := make([]job, G)
		for g := range jobs {
			jobs[g].h = []int{1, 2, 3, 5, 8}[rr.IntN(5)]
			for q := 0; q < 6; q++ {
				var set []int64
				for j, m := 0, 1+rr.IntN(6); j < m; j++ {
					if rr.IntN(2) == 0 {
						set = append(set, tlog.StoredHashIndex(0, int64(rr.IntN(n))))
					} else {
						set = append(set, int64(rr.IntN(len(stored))))
					}
				}
				jobs[g].idx = append(jobs[g].idx, set)
			}
		}
		// every other round the goroutines share ONE reader (and one tile source, then behind a lock)
		var sharedHR tlog.HashReader
		var sharedSrv *tileSrv
		if k%2 == 1 {
			for g := range jobs {
				jobs[g].h = jobs[0].h
			}
			sharedSrv = &tileSrv{h: jobs[0].h, n: n, ref: ref}
			sharedHR = tlog.TileHashReader(tree, &lockedTiles{inner: sharedSrv})
			c.Class("concurrent:one-shared-reader")
		}
		var wg sync.WaitGroup
		bad := make([]string, G)
		// the q'th reads of all goroutines are released together (a goroutine that stops early still counts)
		type gate struct {
			n  atomic.Int32
			ch chan struct{}
		}
		gates := make([]gate, 6)
		for q := range gates {
			gates[q].ch = make(chan struct{})
		}
		arrive := func(q int, wait bool) {
			if gates[q].n.Add(1) == G {
				close(gates[q].ch)
			}
			if wait {
				<-gates[q].ch
			}
		}
		for g := 0; g < G; g++ {
			wg.Add(1)
			go func(g int) {
				defer wg.Done()
				next := 0
				defer func() {
					if e := recover(); e != nil {
						bad[g] = fmt.Sprintf("panic: %v", e)
					}
					for ; next < len(gates); next++ {
						arrive(next, false)
					}
				}()
				srv := &tileSrv{h: jobs[g].h, n: n, ref: ref}
				hr := tlog.TileHashReader(tree, srv)
				if sharedHR != nil {
					hr, srv = sharedHR, &tileSrv{}
				}
				for _, set := range jobs[g].idx {
					next++
					arrive(next-1, true)
					got, err := hr.ReadHashes(set)
					if err != nil {
						bad[g] = fmt.Sprintf("height %d indexes %v: %v", jobs[g].h, set, err)
						return
					}
					for i, x := range set {
						if i >= len(got) || got[i] != tlog.Hash(stored[x]) {
							bad[g] = fmt.Sprintf("height %d index %d: wrong hash returned", jobs[g].h, x)
							return
						}
					}
				}
				if len(srv.savedBad) > 0 {
					bad[g] = fmt.Sprintf("height %d: untrue tiles saved: %v", jobs[g].h, srv.savedBad)
				}
			}(g)
		}
		wg.Wait()
		if sharedSrv != nil && len(sharedSrv.savedBad) > 0 {
			bad[0] = fmt.Sprintf("untrue tiles saved through the shared reader: %v", sharedSrv.savedBad)
		}
		c.Eval(G * 6)
		for g := range bad {
			if bad[g] != "" {
				c.Violation("concurrent-honest-read-failed", id, map[string]any{"n": n, "goroutine": g, "what": bad[g]})
				break
			}
		}
		c.Class("concurrent:8-readers:honest-reads-ok")
	}
}

func gen4Path(r *rand.Rand, p string) string {
	switch r.IntN(8) {
	case 0:
		return p + "/"
	case 1:
		return "/" + p
	case 2:
		return p[:len(p)-1]
	case 3:
		return p + ".p/0"
	case 4:
		return string(mutateBytes(r, []byte(p)))
	case 5:
		return "tile/0" + p[4:]
	case 6:
		return p[:5] + "0" + p[5:]
	default:
		return string(mutateBytes(r, mutateBytes(r, []byte(p))))
	}
}

func tilePaths(ts []tlog.Tile) []string {
	out := make([]string, len(ts))
	for i, t := range ts {
		out[i] = t.Path()
	}
	return out
}
