package props

import (
	"fmt"
	"math/rand/v2"
	"strings"
	"time"

	"golang.org/x/mod/module"
	"golang.org/x/mod/semver"

	"verif/harness/gen"
	"verif/harness/mon"
	"verif/harness/ref/refpseudo"
	"verif/harness/ref/refsemver"
)

func init() { Registry["C18"] = runC18 }

// The domain of the property is UTC years 0001–9999 (DESIGN §5.18 FA): outside
// it the 14-digit yyyymmddhhmmss stamp does not exist.
var (
	c18MinSec = time.Date(1, 1, 1, 0, 0, 0, 0, time.UTC).Unix()
	c18MaxSec = time.Date(9999, 12, 31, 23, 59, 59, 0, time.UTC).Unix()
)

const c18Alnum = "0123456789abcdefghijklmnopqrstuvwxyzABCDEFGHIJKLMNOPQRSTUVWXYZ"

// c18Rev returns an alphanumeric revision of 1…40 characters.
func c18Rev(r *rand.Rand) string {
	switch r.IntN(8) {
	case 0:
		return gen.Pick(r, []string{"abcdef123456", "0", "Z9", "000000000000", "20200101000000", "zzzzzzzzzzzz", "A", "z", "9", "00000000000000",
			"99999999999999", "0000000000000000000000000000000000000000", "zzzzzzzzzzzzzzzzzzzzzzzzzzzzzzzzzzzzzzzz", "incompatible", "0a", "a0", "v1"})
	case 1, 2, 3: // the usual 12 hex digits
		b := make([]byte, 12)
		for i := range b {
			b[i] = "0123456789abcdef"[r.IntN(16)]
		}
		return string(b)
	case 4: // all digits (an all-numeric identifier if it stood alone)
		b := make([]byte, 1+r.IntN(40))
		for i := range b {
			b[i] = byte('0' + r.IntN(10))
		}
		return string(b)
	}
	b := make([]byte, 1+r.IntN(40))
	for i := range b {
		b[i] = c18Alnum[r.IntN(len(c18Alnum))]
	}
	return string(b)
}

// c18Sec returns an instant (seconds since 1970) inside the domain.
func c18Sec(r *rand.Rand) int64 {
	span := c18MaxSec - c18MinSec + 1
	switch r.IntN(10) {
	case 0: // the ends of the domain and the epoch
		return gen.Pick(r, []int64{c18MinSec, c18MinSec + 1, c18MinSec + 50400, c18MinSec + 50399, c18MaxSec, c18MaxSec - 1, c18MaxSec - 50400, c18MaxSec - 50399,
			0, -1, 1, 1<<31 - 1, 1 << 31, -(1 << 31), 1 << 32})
	case 1, 2, 3: // calendar-field edges
		y := gen.Pick(r, []int{1, 2, 4, 99, 100, 400, 999, 1000, 1582, 1600, 1899, 1900, 1969, 1970, 1999, 2000, 2001, 2018, 2020, 2024, 2038, 2100, 9000, 9998, 9999, 1 + r.IntN(9999)})
		mo := gen.Pick(r, []int{1, 2, 2, 3, 9, 10, 11, 12, 1 + r.IntN(12)})
		d := gen.Pick(r, []int{1, 9, 10, 28, 29, 30, 31, 1 + r.IntN(28)})
		h := gen.Pick(r, []int{0, 1, 9, 10, 12, 13, 23, r.IntN(24)})
		mi := gen.Pick(r, []int{0, 1, 9, 10, 59, r.IntN(60)})
		s := gen.Pick(r, []int{0, 1, 9, 10, 59, r.IntN(60)})
		t := time.Date(y, time.Month(mo), d, h, mi, s, 0, time.UTC) // Feb 30 etc. normalise, still a real instant
		sec := t.Unix()
		if sec < c18MinSec || sec > c18MaxSec {
			return c18MinSec + r.Int64N(span)
		}
		return sec
	case 4: // modern times
		return 1_000_000_000 + r.Int64N(1_000_000_000)
	}
	return c18MinSec + r.Int64N(span)
}

// c18Zone returns a location with an offset in −14h…+14h and its class.
func c18Zone(r *rand.Rand) (*time.Location, string) {
	var off int
	switch r.IntN(8) {
	case 0:
		return time.UTC, "utc"
	case 1:
		return time.Local, "local"
	case 2:
		off = gen.Pick(r, []int{-14 * 3600, 14 * 3600, -12 * 3600, 12 * 3600, 13*3600 + 45*60, -(9*3600 + 30*60), 5*3600 + 45*60, 1, -1, 0})
	case 3: // any second
		off = r.IntN(2*14*3600+1) - 14*3600
	case 4: // quarter hours
		off = (r.IntN(2*14*4+1) - 14*4) * 900
	default: // whole hours
		off = (r.IntN(29) - 14) * 3600
	}
	cl := "east"
	if off < 0 {
		cl = "west"
	} else if off == 0 {
		cl = "zero"
	}
	return time.FixedZone(gen.Pick(r, []string{"z", "", "UTC", "X-Y", "+0000"}), off), cl
}

func c18Nsec(r *rand.Rand) int {
	switch r.IntN(5) {
	case 0:
		return 0
	case 1:
		return gen.Pick(r, []int{1, 999_999_999, 500_000_000, 999_999_500, 1000, 1_000_000})
	}
	return r.IntN(1_000_000_000)
}

// c18Major returns "vN" for baseless pseudo-versions.
func c18Major(r *rand.Rand) string {
	switch r.IntN(6) {
	case 0:
		return "v" + gen.Digits(r, 1+r.IntN(40))
	case 1:
		return gen.Pick(r, []string{"v0", "v1", "v2", "v9", "v10", "v99999999999999999999", "v18446744073709551616"})
	}
	return gen.Pick(r, []string{"v0", "v1", "v2", "v3"})
}

// c18Base returns a valid base version and the class of its shape.
func c18Base(r *rand.Rand) string {
	switch r.IntN(12) {
	case 0: // release, patch of 1…40 digits
		return fmt.Sprintf("v%d.%d.%s", r.IntN(3), r.IntN(20), gen.Digits(r, 1+r.IntN(40)))
	case 1: // all-nines patch: the increment needs one more digit
		v := fmt.Sprintf("v%d.%d.%s", r.IntN(3), r.IntN(20), strings.Repeat("9", 1+r.IntN(40)))
		return v + gen.Pick(r, []string{"", "", "+incompatible", "+meta", "-rc1", "+" + gen.BuildMeta(r)})
	case 2: // patch that ends in nines / zeros (carry and borrow chains)
		d := gen.Digits(r, 1+r.IntN(20))
		tail := strings.Repeat(gen.Pick(r, []string{"9", "0"}), 1+r.IntN(20))
		if d == "0" {
			d = "1"
		}
		return fmt.Sprintf("v%d.%d.%s%s", r.IntN(3), r.IntN(20), d, tail) + gen.Pick(r, []string{"", "+incompatible"})
	case 3: // a base that is itself a pseudo-version
		t := time.Unix(c18Sec(r), 0).UTC().Format("20060102150405")
		return gen.Pick(r, []string{
			"v1.2.3-0." + t + "-" + c18Rev(r),
			"v1.0.0-" + t + "-" + c18Rev(r),
			"v1.2.3-pre.0." + t + "-" + c18Rev(r),
			"v2.0.1-0." + t + "-" + c18Rev(r) + "+incompatible",
		})
	case 4: // prerelease edge shapes
		return fmt.Sprintf("v%d.%d.%d-", r.IntN(3), r.IntN(3), r.IntN(3)) + gen.Pick(r, []string{"0", "0.0", "1", "a", "-", "--", "0-", "rc.0", "x.0.0", "0.a",
			"20200101000000", "20200101000000-abcdef123456", "0.20200101000000", "alpha.1.beta-2", "99999999999999999999"}) +
			gen.Pick(r, []string{"", "", "+incompatible", "+meta.1", "+" + gen.BuildMeta(r)})
	}
	return gen.ValidVersion(r, true)
}

func c18BaseClass(base string) string {
	if base == "" {
		return "none"
	}
	p := refsemver.Parse(base)
	core := base
	if i := strings.IndexAny(core, "-+"); i >= 0 {
		core = core[:i]
	}
	shape := "full"
	if n := strings.Count(core, "."); n < 2 {
		shape = fmt.Sprintf("short%d", n+1)
	}
	kind := "release"
	if p.Pre != "" {
		kind = "pre"
	} else {
		ps := p.Pat.String()
		switch {
		case strings.Trim(ps, "9") == "":
			kind += ":carry-grows"
		case strings.HasSuffix(ps, "9"):
			kind += ":carry"
		}
		if len(ps) > 19 {
			kind += ":big"
		}
	}
	build := "nobuild"
	switch {
	case p.Build == "+incompatible":
		build = "incompatible"
	case p.Build != "":
		build = "otherbuild"
	}
	return shape + ":" + kind + ":" + build
}

// c18Less demands a < b from the code under test and from the reference model.
func c18Less(c *mon.Ctx, class, id, a, b string, extra map[string]any) {
	c.Eval(1)
	gs, gr := semver.Compare(a, b), refsemver.Compare(a, b)
	if gs >= 0 || gr >= 0 {
		d := map[string]any{"lower": a, "upper": b, "semver.Compare": gs, "reference.Compare": gr}
		for k, v := range extra {
			d[k] = v
		}
		c.Violation(class, id, d)
	}
}

type c18Parsed struct {
	isPseudo               bool
	base, rev              string
	tm                     time.Time
	baseErr, tmErr, revErr error
}

func c18Accessors(v string) c18Parsed {
	var p c18Parsed
	p.isPseudo = module.IsPseudoVersion(v)
	p.base, p.baseErr = module.PseudoVersionBase(v)
	p.tm, p.tmErr = module.PseudoVersionTime(v)
	p.rev, p.revErr = module.PseudoVersionRev(v)
	return p
}

func c18ErrStr(err error) string {
	if err == nil {
		return "<nil>"
	}
	return err.Error()
}

// One "case" of this engine is a chunk of c18Chunk generated inputs: the
// write-ahead file is written once per chunk (listing every input of the
// chunk) and a replay re-runs the chunk.
const c18Chunk = 64

type c18Item struct {
	major, base, base2 string
	sec                int64
	nsec, nsec2        int
	loc, loc2          *time.Location
	zcl                string
	rev, rev2          string
	delta              int64
}

func c18Draw(r *rand.Rand) c18Item {
	var it c18Item
	if r.IntN(6) > 0 {
		it.base = c18Base(r)
	}
	it.major = c18Major(r)
	if it.base != "" {
		it.major = "v" + refsemver.Parse(it.base).MajS
	}
	it.sec, it.nsec = c18Sec(r), c18Nsec(r)
	it.loc, it.zcl = c18Zone(r)
	it.rev = c18Rev(r)
	// second instant for the monotonicity claim
	it.delta = gen.Pick(r, []int64{1, 1, 2, 9, 10, 59, 60, 61, 3599, 3600, 86399, 86400, 28 * 86400, 29 * 86400, 30 * 86400, 31 * 86400, 365 * 86400, 366 * 86400,
		1 + r.Int64N(100_000), 1 + r.Int64N(1_000_000_000), 1 + r.Int64N(c18MaxSec-c18MinSec)})
	it.loc2, _ = c18Zone(r)
	it.nsec2 = c18Nsec(r)
	switch r.IntN(4) {
	case 0:
		it.rev2 = it.rev
	case 1: // revisions that sort the other way round
		it.rev, it.rev2 = gen.Pick(r, []string{"zzzzzzzzzzzz", "z", "ffffffffffff", "99999999999999999999", "a"}), gen.Pick(r, []string{"0", "000000000000", "A", "00000000000000000000", "1"})
	default:
		it.rev2 = c18Rev(r)
	}
	it.base2 = it.base
	if p := refsemver.Parse(it.base); it.base != "" && r.IntN(4) == 0 {
		it.base2 = p.Canonical + p.Build // the same base, spelled canonically
	}
	return it
}

func (it c18Item) time() time.Time { return time.Unix(it.sec, int64(it.nsec)).In(it.loc) }

func (it c18Item) String() string {
	return fmt.Sprintf("PseudoVersion(%q, %q, unix %d.%09d in %s, %q)", it.major, it.base, it.sec, it.nsec, it.time().Format("-07:00:00"), it.rev)
}

// c18OwnPseudo spells a pseudo-version after the documented forms without
// calling the code under test (seed material for the negative families only,
// never an oracle).
func c18OwnPseudo(r *rand.Rand) string {
	it := c18Draw(r)
	seg := time.Unix(it.sec, 0).UTC().Format("20060102150405") + "-" + it.rev
	if it.base == "" {
		return it.major + ".0.0-" + seg
	}
	p := refsemver.Parse(it.base)
	if p.Pre != "" {
		return p.Canonical + ".0." + seg + p.Build
	}
	next, _ := refpseudo.Next(it.base)
	return next + "-0." + seg + p.Build
}

func runC18(c *mon.Ctx) {
	r := c.Rng
	// The process's local time zone is part of the configuration the property quantifies over ("times ...
	// in any zone"; what is recovered is UTC whatever the surroundings): each batch runs under another one.
	zones := []*time.Location{time.UTC, time.FixedZone("east", 5*3600+1800), time.FixedZone("west", -9*3600), time.FixedZone("far-east", 14*3600), time.FixedZone("odd", -(3*3600 + 1234))}
	time.Local = zones[c.Batch%len(zones)]
	c.Class("local-zone:" + time.Local.String())
	nGen := c.Share(c.Scale(200_000, 10_000_000))
	nNeg := c.Share(c.Scale(60_000, 2_000_000))
	nMut := c.Share(c.Scale(80_000, 3_000_000))
	nZero := c.Share(c.Scale(4_000, 100_000))

	// ---- generated pseudo-versions: round trip and order --------------------------------------
	for start := 0; start < nGen; start += c18Chunk {
		id := fmt.Sprintf("g%d", start)
		items := make([]c18Item, min(c18Chunk, nGen-start))
		for j := range items {
			items[j] = c18Draw(r)
		}
		if !c.Want(id) {
			continue
		}
		var wal strings.Builder
		for _, it := range items {
			wal.WriteString(it.String() + "\n")
		}
		c.WAL(id, []byte(wal.String()))
		for j, it := range items {
			c18Generated(c, id, j, it)
		}
	}

	// ---- ZeroPseudoVersion / IsZeroPseudoVersion ---------------------------------------------------
	for start := 0; start < nZero; start += c18Chunk {
		id := fmt.Sprintf("z%d", start)
		n := min(c18Chunk, nZero-start)
		majors, others := make([]string, n), make([]string, n)
		for j := 0; j < n; j++ {
			majors[j], others[j] = c18Major(r), c18OwnPseudo(r)
		}
		if !c.Want(id) {
			continue
		}
		c.WAL(id, []byte(strings.Join(majors, "\n")+"\n"+strings.Join(others, "\n")))
		for j := 0; j < n; j++ {
			c18Zero(c, id, j, majors[j], others[j])
		}
	}

	// ---- ordinary versions without the pseudo shape are not pseudo-versions; mutated pseudo-versions
	// ---- yield errors, never panics
	for start := 0; start < nNeg+nMut; start += c18Chunk {
		id := fmt.Sprintf("n%d", start)
		n := min(c18Chunk, nNeg+nMut-start)
		vs, kinds := make([]string, n), make([]string, n)
		for j := 0; j < n; j++ {
			if start+j < nNeg {
				kinds[j] = "ordinary"
				switch r.IntN(6) {
				case 0:
					vs[j] = gen.Version(r)
				case 1:
					vs[j] = c18Base(r)
				default:
					vs[j] = gen.ValidVersion(r, true)
				}
			} else {
				m, kind := c18Mutate(r, c18OwnPseudo(r))
				vs[j], kinds[j] = m, "mut:"+kind
			}
		}
		if !c.Want(id) {
			continue
		}
		var wal strings.Builder
		for _, v := range vs {
			wal.WriteString(mon.QS(v) + "\n")
		}
		c.WAL(id, []byte(wal.String()))
		for j := 0; j < n; j++ {
			c18Negative(c, id, j, kinds[j], vs[j])
		}
	}
}

// c18Generated checks one generated (major, base, time, revision) input.
func c18Generated(c *mon.Ctx, id string, item int, it c18Item) {
	major, base, base2, sec, nsec, rev, rev2, delta := it.major, it.base, it.base2, it.sec, it.nsec, it.rev, it.rev2, it.delta
	t := it.time()
	wantBase, ok := refpseudo.WantBase(base)
	if !ok || sec < c18MinSec || sec > c18MaxSec {
		c.Inconclusive(fmt.Sprintf("harness defect: C18 generator left its domain: base=%q sec=%d", base, sec))
		return
	}
	wantTime := time.Unix(sec, 0).UTC()
	witness := func() any {
		return map[string]any{"item": item, "major": major, "base": base, "time": t.Format(time.RFC3339Nano), "unix": sec, "nsec": nsec, "rev": rev}
	}
	c.Guard(id, witness, func() {
		pv := module.PseudoVersion(major, base, t, rev)
		bcl := c18BaseClass(base)
		c.Class("gen:" + bcl)
		_, lm, ld := t.Date()
		_, um, ud := t.UTC().Date()
		dayDiffers := lm != um || ld != ud
		c.Class(fmt.Sprintf("time:zone=%s:utc-date-differs=%t:subsecond=%t", it.zcl, dayDiffers, nsec != 0))
		if y := t.Year(); y < 1 || y > 9999 {
			c.Class("time:local-year-outside-0001-9999")
		}
		switch {
		case len(rev) == 12:
			c.Class("rev:len12")
		case len(rev) == 40:
			c.Class("rev:len40")
		case len(rev) == 1:
			c.Class("rev:len1")
		}
		if strings.Trim(rev, "0123456789") == "" {
			c.Class("rev:all-digits")
		}
		if item < 3 {
			skind := "baseless"
			if f := strings.SplitN(bcl, ":", 3); len(f) > 1 {
				skind = f[1]
			}
			c.Sample("pseudo-version:"+skind, 2, map[string]any{"in": witness(), "out": pv})
		}

		// valid, recognised
		c.Eval(1)
		vs, vr, isP := semver.IsValid(pv), refsemver.Parse(pv).OK, module.IsPseudoVersion(pv)
		if !vs || !vr || !isP {
			c.Violation("generated-not-valid-pseudo-version", id, map[string]any{"in": witness(), "pv": mon.QS(pv), "semver.IsValid": vs, "reference.valid": vr, "IsPseudoVersion": isP})
			return
		}
		// round trip
		c.Eval(3)
		a := c18Accessors(pv)
		if a.baseErr != nil || a.base != wantBase {
			c.Violation("base-not-recovered", id, map[string]any{"in": witness(), "pv": pv, "got": a.base, "err": c18ErrStr(a.baseErr), "want": wantBase})
		}
		_, off := a.tm.Zone()
		if a.tmErr != nil || !a.tm.Equal(wantTime) || a.tm.Unix() != sec || a.tm.Nanosecond() != 0 || off != 0 {
			c.Violation("time-not-recovered", id, map[string]any{"in": witness(), "pv": pv, "got": a.tm.Format(time.RFC3339Nano), "err": c18ErrStr(a.tmErr), "want": wantTime.Format(time.RFC3339Nano)})
		}
		if a.revErr != nil || a.rev != rev {
			c.Violation("rev-not-recovered", id, map[string]any{"in": witness(), "pv": pv, "got": a.rev, "err": c18ErrStr(a.revErr), "want": rev})
		}
		// order against base and next release
		if base != "" {
			next, _ := refpseudo.Next(base)
			if refsemver.Compare(base, next) >= 0 {
				c.Inconclusive(fmt.Sprintf("harness defect: C18 next(%q)=%q is not above the base in the reference order", base, next))
				return
			}
			c18Less(c, "not-above-base", id, base, pv, map[string]any{"in": witness()})
			c18Less(c, "not-below-next-release", id, pv, next, map[string]any{"in": witness(), "base": base})
			c.Class("order:base<pv<next:" + strings.SplitN(bcl, ":", 2)[1])
		} else {
			c18Less(c, "baseless-not-below-vX.0.0", id, pv, major+".0.0", map[string]any{"in": witness()})
			// "for the given major version": the bottom of the vX range, not of another one
			if got := "v" + refsemver.Parse(pv).MajS; got != major {
				c.Violation("baseless-wrong-major", id, map[string]any{"in": witness(), "pv": pv})
			}
			if len(major) > 20 {
				c.Class("order:baseless<vX.0.0:big-major")
			} else {
				c.Class("order:baseless<vX.0.0")
			}
		}
		// later time => higher version, whatever the revisions
		sec2 := sec + delta
		first := 1
		if sec2 > c18MaxSec {
			sec2 = sec - delta
			first = 2
		}
		if sec2 < c18MinSec || sec2 > c18MaxSec {
			c.Class("mono:skipped-no-room")
			return
		}
		t2 := time.Unix(sec2, int64(it.nsec2)).In(it.loc2)
		pv2 := module.PseudoVersion(major, base2, t2, rev2)
		lo, hi, revLo, revHi := pv, pv2, rev, rev2
		if first == 2 {
			lo, hi, revLo, revHi = pv2, pv, rev2, rev
		}
		dcl := "far"
		switch {
		case delta == 1:
			dcl = "1s"
		case delta < 60:
			dcl = "<1m"
		case delta < 3600:
			dcl = "<1h"
		case delta < 86400:
			dcl = "<1d"
		case delta <= 31*86400:
			dcl = "<=31d"
		case delta <= 366*86400:
			dcl = "<=1y"
		}
		rcl := "rev-equal"
		if revLo > revHi {
			rcl = "rev-descending"
		} else if revLo < revHi {
			rcl = "rev-ascending"
		}
		c.Class("mono:" + dcl + ":" + rcl)
		if base2 != base {
			c.Class("mono:base-spelled-differently")
		}
		c18Less(c, "later-time-not-higher", id, lo, hi, map[string]any{"in": witness(), "base2": base2, "unix2": sec2, "time2": t2.Format(time.RFC3339Nano), "rev2": rev2})
	})
}

// c18Zero checks ZeroPseudoVersion / IsZeroPseudoVersion for one major version.
func c18Zero(c *mon.Ctx, id string, item int, major, other string) {
	c.Guard(id, func() any { return map[string]any{"item": item, "major": major, "other": other} }, func() {
		z := module.ZeroPseudoVersion(major)
		c.Eval(1)
		a := c18Accessors(z)
		ok := a.isPseudo && refsemver.Parse(z).OK && a.baseErr == nil && a.base == "" && a.tmErr == nil && a.tm.Equal(time.Time{}) &&
			a.revErr == nil && a.rev != "" && strings.Trim(a.rev, "0") == "" && strings.HasPrefix(z, major+".")
		if !ok {
			c.Violation("zero-pseudo-version-not-zero", id, map[string]any{"item": item, "major": major, "got": mon.QS(z), "base": a.base, "time": a.tm.Format(time.RFC3339Nano), "rev": a.rev,
				"errs": []string{c18ErrStr(a.baseErr), c18ErrStr(a.tmErr), c18ErrStr(a.revErr)}})
			return
		}
		c.Class("zero:roundtrip")
		c18Less(c, "baseless-not-below-vX.0.0", id, z, major+".0.0", map[string]any{"item": item, "zero": true})
		if !module.IsZeroPseudoVersion(z) {
			c.Violation("zero-not-recognised", id, map[string]any{"item": item, "major": major, "z": z})
		}
		// a pseudo-version with a base, a non-zero time or a non-zero revision is not "zero"
		o := c18Accessors(other)
		if o.baseErr != nil || o.tmErr != nil || o.revErr != nil {
			c.Class("zero:other-not-parsed-skipped")
			return
		}
		nonzero := o.base != "" || !o.tm.Equal(time.Time{}) || strings.Trim(o.rev, "0") != ""
		c.Eval(1)
		got := module.IsZeroPseudoVersion(other)
		switch {
		case nonzero && got:
			c.Violation("nonzero-recognised-as-zero", id, map[string]any{"item": item, "v": other})
		case nonzero:
			c.Class("zero:nonzero-rejected")
		default:
			c.Class("zero:other-zero-spelling-unspecified") // e.g. another number of zero digits in the revision
		}
	})
}

// c18Negative runs the recogniser and the three accessors on a string that did
// not come out of PseudoVersion and checks what can be demanded of it.
func c18Negative(c *mon.Ctx, id string, item int, kind, v string) {
	c.Guard(id, func() any { return map[string]any{"item": item, "v": mon.QS(v)} }, func() {
		sh := refpseudo.Shape(v)
		c.Eval(1)
		a := c18Accessors(v)
		if !a.isPseudo && (a.baseErr == nil || a.tmErr == nil || a.revErr == nil) {
			c.Violation("accessor-succeeds-on-non-pseudo-version", id, map[string]any{"item": item, "v": mon.QS(v), "base": a.base, "baseErr": c18ErrStr(a.baseErr), "timeErr": c18ErrStr(a.tmErr), "rev": a.rev, "revErr": c18ErrStr(a.revErr)})
			return
		}
		switch sh.Shape {
		case "invalid", "none":
			if a.isPseudo {
				c.Violation("recognised-without-pseudo-shape", id, map[string]any{"item": item, "v": mon.QS(v), "shape": sh.Shape})
				return
			}
			c.Class(kind + ":" + sh.Shape + ":rejected")
			c.Sample("not-a-pseudo-version:"+sh.Shape, 2, v)
			return
		}
		// The string has one of the documented shapes but was not produced by
		// PseudoVersion: whether it is recognised is outside the statement. What
		// is documented: a time stamp that is not a valid time is an error.
		if a.isPseudo && a.tmErr == nil && !refpseudo.ValidTimestamp(sh.Timestamp) {
			c.Violation("invalid-timestamp-accepted", id, map[string]any{"item": item, "v": mon.QS(v), "timestamp": sh.Timestamp, "got": a.tm.Format(time.RFC3339Nano)})
			return
		}
		out := "recognised"
		switch {
		case !a.isPseudo:
			out = "not-recognised"
		case a.tmErr != nil && !refpseudo.ValidTimestamp(sh.Timestamp):
			out = "bad-timestamp-error"
		case a.baseErr != nil || a.tmErr != nil || a.revErr != nil:
			out = "recognised-accessor-error"
		default:
			// informational only: re-synthesis from the recovered parts
			major := "v" + refsemver.Parse(v).MajS
			if a.tm.Year() >= 1 && a.tm.Year() <= 9999 && module.PseudoVersion(major, a.base, a.tm, a.rev) == v {
				c.Count("shape-positive:resynthesis-equal", 1)
			} else {
				c.Count("shape-positive:resynthesis-differs", 1)
				c.Sample("shape-positive-resynthesis-differs(informational)", 3, v)
			}
		}
		c.Class(kind + ":" + sh.Shape + ":" + out)
	})
}

// c18Mutate breaks (or tries to break) one element of a pseudo-version.
func c18Mutate(r *rand.Rand, pv string) (string, string) {
	build := ""
	body := pv
	if i := strings.IndexByte(pv, '+'); i >= 0 {
		body, build = pv[:i], pv[i:]
	}
	j := strings.LastIndexByte(body, '-')
	if j < 14 {
		return gen.MutateString(r, pv), "random"
	}
	head, ts, rev := body[:j-14], body[j-14:j], body[j+1:] // head ends in "-" (form 1) or "." (forms 2–5)
	join := func(h, t, rv string) string { return h + t + "-" + rv + build }
	switch r.IntN(16) {
	case 0:
		k := r.IntN(14)
		return join(head, ts[:k]+ts[k+1:], rev), "timestamp-13-digits"
	case 1:
		k := r.IntN(15)
		return join(head, ts[:k]+string(byte('0'+r.IntN(10)))+ts[k:], rev), "timestamp-15-digits"
	case 2:
		k := r.IntN(14)
		return join(head, ts[:k]+gen.Pick(r, []string{"a", "-", ".", " ", "+", "Z"})+ts[k+1:], rev), "timestamp-non-digit"
	case 3: // a stamp that is 14 digits but no calendar second (year kept ≥ 0001)
		y := ts[:4]
		if y == "0000" {
			y = "0001"
		}
		bad := gen.Pick(r, []string{"1301000000", "0001000000", "0100000000", "0132000000", "0230000000", "0431000000", "0101240000", "0101006000", "0101000060", "9999999999", "0229000000"})
		if bad == "0229000000" {
			y = gen.Pick(r, []string{"2019", "1900", "2100", "0001"})
		}
		return join(head, y+bad, rev), "timestamp-not-a-time"
	case 4:
		if strings.HasSuffix(head, "0.") {
			return join(head[:len(head)-2]+gen.Pick(r, []string{"1.", "00.", ".", "", "a.", "0", "0-", "0.."}), ts, rev), "zero-segment-changed"
		}
		return join(head+gen.Pick(r, []string{"1.", "00.", ".", "-"}), ts, rev), "form1-segment-inserted"
	case 5:
		return head + ts + "-" + build, "revision-empty"
	case 6:
		k := r.IntN(len(rev) + 1)
		return join(head, ts, rev[:k]+gen.Pick(r, []string{"_", "-", ".", "+", " ", "é", "/", "\n", "\x00"})+rev[k:]), "revision-non-alphanumeric"
	case 7:
		return gen.Pick(r, []string{"V", "", "v0", "vv", " v"}) + pv[1:], "prefix-changed"
	case 8:
		return pv + gen.Pick(r, []string{"\n", "+", "+incompatible", "+a..b", ".", "-", " ", "+meta"}), "suffix-appended"
	case 9: // core number edits: leading zeros, dropped fields
		k := strings.IndexByte(pv, '.')
		return gen.Pick(r, []string{pv[:1] + "0" + pv[1:], pv[:k+1] + "0" + pv[k+1:], pv[:k] + pv[strings.IndexByte(pv[k+1:], '.')+k+1:], pv[:k] + "." + pv[k:]}), "core-changed"
	case 10: // patch forced to zero in form 2: the base would have a negative patch
		if strings.HasSuffix(head, "-0.") {
			k := strings.LastIndexByte(head[:len(head)-3], '.')
			return join(head[:k+1]+"0-0.", ts, rev), "form2-patch-zero"
		}
		return join(head, ts, rev) + "+incompatible", "baseless-or-pre-with-build"
	case 11: // move the separating hyphen
		return head + ts[:13] + "-" + ts[13:] + rev + build, "hyphen-moved"
	case 12: // a prerelease after the revision
		return join(head, ts, rev+gen.Pick(r, []string{".0", ".1", "-x", ".0." + ts + "-" + rev})), "tail-after-revision"
	case 13:
		return strings.Replace(pv, "-", gen.Pick(r, []string{"", "--", ".", "+"}), 1), "first-hyphen-changed"
	}
	return gen.MutateString(r, pv), "random"
}
