package props

// Helpers shared by the module-zip engines C05, C12 and C17 (prefix zipc).

import (
	"archive/zip"
	"bytes"
	"crypto/sha256"
	"fmt"
	"io"
	"io/fs"
	"sort"
	"strings"

	mzip "golang.org/x/mod/zip"

	"verif/harness/fsbox"
	"verif/harness/gen"
	"verif/harness/mon"
	"verif/harness/ref/refzip"
)

func zipcKind(m fs.FileMode) refzip.Kind {
	switch {
	case m.IsRegular():
		return refzip.Regular
	case m.IsDir():
		return refzip.Directory
	case m&fs.ModeType == fs.ModeSymlink:
		return refzip.Symlink
	}
	return refzip.Irregular
}

// zipcRef converts a generated list into the reference model's input.
func zipcRef(files []*gen.ZFile) []refzip.File {
	out := make([]refzip.File, len(files))
	for i, f := range files {
		out[i] = refzip.File{Path: f.P, Kind: zipcKind(f.M), Size: f.Sz, GoVersion: f.GoVersion}
	}
	return out
}

func zipcFiles(files []*gen.ZFile) []mzip.File {
	out := make([]mzip.File, len(files))
	for i, f := range files {
		out[i] = f
	}
	return out
}

// zipcDescribe renders a list for witnesses and the write-ahead file.
func zipcDescribe(files []*gen.ZFile) []string {
	out := make([]string, len(files))
	for i, f := range files {
		s := fmt.Sprintf("%q mode=%v size=%d len=%d", f.P, f.M, f.Sz, len(f.Data))
		if f.Zeros > 0 {
			s += fmt.Sprintf(" zeros=%d", f.Zeros)
		}
		if strings.EqualFold(zipcBase(f.P), "go.mod") {
			s += fmt.Sprintf(" gomod=%q", f.Data)
		}
		out[i] = s
	}
	return out
}

func zipcBase(p string) string {
	if i := strings.LastIndex(p, "/"); i >= 0 {
		return p[i+1:]
	}
	return p
}

// zipcEntry is an archive entry as read by the harness's own reader (archive/zip of the standard library).
type zipcEntry struct {
	Name string
	Size uint64
	Sum  string // sha256 of the content
	Err  string // error reading the content
}

func zipcSum(b []byte) string { return fmt.Sprintf("%x", sha256.Sum256(b)) }

// zipcZeroSum is the sha256 of n zero bytes, computed without holding them.
func zipcZeroSum(n int64) string {
	h := sha256.New()
	buf := make([]byte, 1<<16)
	for n > 0 {
		k := int64(len(buf))
		if n < k {
			k = n
		}
		h.Write(buf[:k])
		n -= k
	}
	return fmt.Sprintf("%x", h.Sum(nil))
}

func zipcReadArchive(b []byte) ([]zipcEntry, error) {
	zr, err := zip.NewReader(bytes.NewReader(b), int64(len(b)))
	if err != nil {
		return nil, err
	}
	var out []zipcEntry
	for _, f := range zr.File {
		e := zipcEntry{Name: f.Name, Size: f.UncompressedSize64}
		rc, err := f.Open()
		if err != nil {
			e.Err = err.Error()
		} else {
			h := sha256.New()
			n, err := io.Copy(h, rc)
			rc.Close()
			if err != nil {
				e.Err = err.Error()
			} else if uint64(n) != f.UncompressedSize64 {
				e.Err = fmt.Sprintf("read %d bytes, declared %d", n, f.UncompressedSize64)
			}
			e.Sum = fmt.Sprintf("%x", h.Sum(nil))
		}
		out = append(out, e)
	}
	return out, nil
}

func zipcRefEntries(es []zipcEntry) []refzip.Entry {
	out := make([]refzip.Entry, len(es))
	for i, e := range es {
		out[i] = refzip.Entry{Name: e.Name, Size: e.Size}
	}
	return out
}

// zipcWant is the expected content of an extracted tree: relative path -> (size, sha256).
type zipcWant map[string][2]string

func zipcWantOf(size int64, sum string) [2]string { return [2]string{fmt.Sprint(size), sum} }

// zipcTreeDiff compares the snapshot of an extracted tree with the expected
// files: exactly these regular files with exactly this content, directories
// only as far as they lead to a file, nothing else. It returns "" when equal.
func zipcTreeDiff(tree fsbox.Snap, want zipcWant, allowDirs map[string]bool) string {
	var diffs []string
	needDir := map[string]bool{}
	for p := range want {
		for i := strings.LastIndex(p, "/"); i > 0; i = strings.LastIndex(p[:i], "/") {
			needDir[p[:i]] = true
		}
	}
	for p, n := range tree {
		switch n.Type {
		case "file":
			w, ok := want[p]
			if !ok {
				diffs = append(diffs, fmt.Sprintf("unexpected file %q", p))
			} else if w != zipcWantOf(n.Size, n.Sum) {
				diffs = append(diffs, fmt.Sprintf("content of %q differs (size %d, want %s)", p, n.Size, w[0]))
			}
		case "dir":
			if !needDir[p] && !allowDirs[p] {
				diffs = append(diffs, fmt.Sprintf("unexpected directory %q", p))
			}
		default:
			diffs = append(diffs, fmt.Sprintf("unexpected %s %q", n.Type, p))
		}
	}
	for p := range want {
		if n, ok := tree[p]; !ok || n.Type != "file" {
			diffs = append(diffs, fmt.Sprintf("missing file %q", p))
		}
	}
	sort.Strings(diffs)
	if len(diffs) > 8 {
		diffs = append(diffs[:8], fmt.Sprintf("... %d more", len(diffs)-8))
	}
	return strings.Join(diffs, "; ")
}

// zipcErrPaths lists the paths of a FileError list.
func zipcErrPaths(fe []mzip.FileError) []string {
	out := make([]string, len(fe))
	for i, e := range fe {
		out[i] = e.Path
	}
	return out
}

func zipcSorted(s []string) []string {
	t := append([]string(nil), s...)
	sort.Strings(t)
	return t
}

func zipcSetKeys(m map[string]bool) []string {
	var t []string
	for k := range m {
		t = append(t, k)
	}
	sort.Strings(t)
	return t
}

func zipcEqual(a, b []string) bool {
	if len(a) != len(b) {
		return false
	}
	for i := range a {
		if a[i] != b[i] {
			return false
		}
	}
	return true
}

func zipcDedup(s []string) []string {
	t := zipcSorted(s)
	out := t[:0]
	for i, x := range t {
		if i == 0 || x != t[i-1] {
			out = append(out, x)
		}
	}
	return out
}

func zipcQ(s []string) []string {
	out := make([]string, len(s))
	for i, x := range s {
		out[i] = mon.QS(x)
	}
	return out
}

func zipcErrStr(err error) string {
	if err == nil {
		return "<nil>"
	}
	s := err.Error()
	if len(s) > 400 {
		s = s[:400] + "..."
	}
	return s
}

func zipcBucket(n int) string {
	switch {
	case n == 0:
		return "0"
	case n == 1:
		return "1"
	case n <= 4:
		return "2-4"
	case n <= 12:
		return "5-12"
	}
	return "13+"
}
