package props

import (
	"archive/zip"
	"bytes"
	"fmt"
	"os"
	"path/filepath"
	"strings"
	"sync"
	"sync/atomic"

	"golang.org/x/mod/module"
	mzip "golang.org/x/mod/zip"

	"verif/harness/fsbox"
	"verif/harness/mon"
)

// c12Swap: the archive file is replaced (atomic rename) by another process while Unzip runs,
// alternating between a valid archive and one whose entry would escape the target directory.
// Whatever Unzip observes, (a) nothing may appear outside the target, and (b) if it reports
// success the extracted tree is exactly the valid archive's (the hostile one never passes the
// check, so a success that extracted from it means that what was checked is not what was extracted).
func c12Swap(c *mon.Ctx, base string) {
	iters := c.Share(c.Scale(1920, 19200))
	const perBox = 24
	mv := module.Version{Path: "example.com/m", Version: "v1.0.0"}
	prefix := mv.Path + "@" + mv.Version + "/"
	mk := func(names []string, data string) []byte {
		var buf bytes.Buffer
		zw := zip.NewWriter(&buf)
		for _, n := range names {
			w, _ := zw.Create(n)
			w.Write([]byte(data))
		}
		zw.Close()
		return buf.Bytes()
	}
	valid := mk([]string{prefix + "a.go", prefix + "sub/b.go"}, "package a\n")
	hostiles := [][]byte{
		mk([]string{prefix + "../../escaped.txt"}, "escaped\n"),
		mk([]string{prefix + "a.go", prefix + "../../../escaped2.txt"}, "escaped\n"),
		mk([]string{prefix + "a.go", "/abs-escape.txt"}, "escaped\n"),
		mk([]string{prefix + "A.go", prefix + "a.go"}, "collide\n"),
	}
	done := 0
	for b := 0; done < iters; b++ {
		id := fmt.Sprintf("swap%d", b)
		if !c.Want(id) {
			done += perBox
			continue
		}
		c.WAL(id, valid)
		box, err := fsbox.New(base, id)
		if err != nil {
			c.Inconclusive("sandbox: " + err.Error())
			return
		}
		os.Mkdir(box.Target, 0o777)
		os.WriteFile(box.Zip, valid, 0o644)
		before := fsbox.Snapshot(box.Root, false)
		var stop atomic.Bool
		var swaps atomic.Int64
		var wg sync.WaitGroup
		wg.Add(1)
		go func() {
			defer wg.Done()
			tmp := box.Zip + ".swap-tmp"
			for k := 0; !stop.Load(); k++ {
				data := valid
				if k%2 == 0 {
					data = hostiles[(k/2)%len(hostiles)]
				}
				if os.WriteFile(tmp, data, 0o644) == nil && os.Rename(tmp, box.Zip) == nil {
					swaps.Add(1)
				}
			}
		}()
		for j := 0; j < perBox; j++ {
			dir := filepath.Join(box.Target, fmt.Sprintf("attempt%d", j))
			var uzErr error
			c.Guard(id, nil, func() { uzErr = mzip.Unzip(dir, mv, box.Zip) })
			c.Eval(1)
			if uzErr == nil {
				got := fsbox.Snapshot(dir, true)
				var names []string
				for p, n := range got {
					if n.Type == "file" {
						names = append(names, p)
					}
				}
				ok := len(names) == 2
				for _, p := range names {
					if p != "a.go" && p != "sub/b.go" {
						ok = false
					}
				}
				if !ok {
					c.Violation("unzip-succeeded-but-tree-is-not-the-checked-archive", id, map[string]any{"attempt": j, "files": names})
				}
				c.Class("swap:unzip-succeeded")
			} else {
				c.Class("swap:unzip-failed")
			}
		}
		stop.Store(true)
		wg.Wait()
		os.WriteFile(box.Zip, valid, 0o644)
		os.Remove(box.Zip + ".swap-tmp")
		after := fsbox.Snapshot(box.Root, false)
		var out []fsbox.Change
		for _, ch := range fsbox.Outside(before, after, "l1/l2/target") {
			if strings.HasPrefix(ch.Path, "m.zip") {
				continue
			}
			out = append(out, ch)
		}
		if len(out) > 0 {
			c.Violation("created-outside-target", id, map[string]any{"scenario": "archive replaced while Unzip runs", "changes": fmt.Sprintf("%q", out)})
		}
		// the hostile entries aim above the sandbox root too
		for _, esc := range []string{filepath.Join(filepath.Dir(box.Root), "escaped.txt"), filepath.Join(box.Root, "..", "..", "escaped2.txt"), "/abs-escape.txt"} {
			if _, err := os.Lstat(esc); err == nil {
				c.Violation("created-outside-target", id, map[string]any{"scenario": "archive replaced while Unzip runs", "path": esc})
				os.Remove(esc)
			}
		}
		c.Count("swap:renames-observed", int(swaps.Load()))
		if swaps.Load() > perBox {
			c.Class("swap:archive-replaced-during-run")
		}
		box.Remove()
		done += perBox
	}
}
