package props

import (
	"archive/zip"
	"bytes"
	"fmt"
	"os"
	"path/filepath"
	"syscall"

	"golang.org/x/mod/sumdb/dirhash"
	modzip "golang.org/x/mod/zip"

	"verif/harness/mon"
	"verif/harness/ref/refhash"
)

// c19AfterRefusals is the history "many refused hashes, then a good one". A
// refusal (a name with a newline, an entry that cannot be read) must not use
// anything up: after several hundred of them, with the process allowed only a
// few dozen more open files than it has now, hashing a module zip made by the
// zip package and hashing the directory it extracts to still succeed and
// agree with the formula. The verdict is the outcome of those last calls; the
// descriptor counts are reported as an observation only.
func c19AfterRefusals(c *mon.Ctx, base string) {
	const id = "after-refusals"
	if !c.Mine(1) || !c.Want(id) {
		return
	}
	c.WAL(id, nil)
	root := filepath.Join(base, id)
	defer os.RemoveAll(root)
	if err := os.MkdirAll(root, 0o777); err != nil {
		return
	}
	// the refused inputs
	nlZip := filepath.Join(root, "newline.zip")
	crcZip := filepath.Join(root, "badcrc.zip")
	nlDir := filepath.Join(root, "nldir")
	mk := func(path string, names []string, spoil bool) error {
		var buf bytes.Buffer
		zw := zip.NewWriter(&buf)
		for _, n := range names {
			w, err := zw.CreateHeader(&zip.FileHeader{Name: n, Method: zip.Store})
			if err != nil {
				return err
			}
			w.Write([]byte("content of a file, stored\n"))
		}
		if err := zw.Close(); err != nil {
			return err
		}
		data := buf.Bytes()
		if spoil {
			// a stored entry whose bytes no longer match its checksum: reading it fails at the end
			k := bytes.Index(data, []byte("content of"))
			if k < 0 {
				return fmt.Errorf("stored content not found")
			}
			data[k] ^= 0x20
		}
		return os.WriteFile(path, data, 0o666)
	}
	if err := mk(nlZip, []string{"m@v1.0.0/a.go", "m@v1.0.0/b\nc.go", "m@v1.0.0/d.go"}, false); err != nil {
		c.Inconclusive("harness: cannot write the refused archives: " + err.Error())
		return
	}
	if err := mk(crcZip, []string{"m@v1.0.0/a.go", "m@v1.0.0/b.go"}, true); err != nil {
		c.Inconclusive("harness: cannot write the refused archives: " + err.Error())
		return
	}
	if err := c19WriteTree(nlDir, c19Set{{Name: "a.go", Data: []byte("a")}, {Name: "sub/b\nc.go", Data: []byte("b")}, {Name: "z.go", Data: []byte("z")}}); err != nil {
		c.Class("storm:newline-file-name-not-creatable-skipped")
		nlDir = ""
	}
	// the good module
	m := c19Modules[0]
	set := c19Set{{Name: "go.mod", Data: []byte("module " + m.Path + "\n")}, {Name: "a.go", Data: []byte("package a\n")}, {Name: "sub/b.go", Data: []byte("package sub\n")}}
	var files []modzip.File
	for _, f := range set {
		files = append(files, c19MemFile{f.Name, f.Data})
	}
	var buf bytes.Buffer
	if err := modzip.Create(&buf, m, files); err != nil {
		c.Inconclusive("harness: the plain module of the refusal history is not accepted by Create: " + err.Error())
		return
	}
	good := filepath.Join(root, "good.zip")
	if err := os.WriteFile(good, buf.Bytes(), 0o666); err != nil {
		return
	}
	entries, err := c19ReadZip(good)
	if err != nil {
		c.Inconclusive("harness: cannot read back the good archive: " + err.Error())
		return
	}
	want, _ := refhash.Hash1(entries)

	fds := func() int {
		l, err := os.ReadDir("/proc/self/fd")
		if err != nil {
			return -1
		}
		return len(l) - 1 // the directory handle itself
	}
	before := fds()
	var old syscall.Rlimit
	if before < 0 || syscall.Getrlimit(syscall.RLIMIT_NOFILE, &old) != nil {
		c.Class("storm:no-descriptor-limit-available-skipped")
		return
	}
	low := old
	low.Cur = uint64(before + 48)
	if low.Cur > old.Cur {
		low.Cur = old.Cur
	}
	if syscall.Setrlimit(syscall.RLIMIT_NOFILE, &low) != nil {
		c.Class("storm:no-descriptor-limit-available-skipped")
		return
	}
	defer syscall.Setrlimit(syscall.RLIMIT_NOFILE, &old)

	const rounds = 150
	refused, accepted := 0, 0
	var firstOdd string
	for i := 0; i < rounds; i++ {
		for _, z := range []string{nlZip, crcZip} {
			if _, err := dirhash.HashZip(z, dirhash.Hash1); err != nil {
				refused++
			} else {
				accepted++
				if firstOdd == "" {
					firstOdd = filepath.Base(z)
				}
			}
		}
		if nlDir != "" {
			if _, err := dirhash.HashDir(nlDir, "m@v1.0.0", dirhash.Hash1); err != nil {
				refused++
			} else {
				accepted++
				if firstOdd == "" {
					firstOdd = "nldir"
				}
			}
		}
	}
	c.Eval(refused + accepted)
	after := fds()
	wit := func(extra map[string]any) map[string]any {
		mm := map[string]any{"refused_calls": refused, "accepted_calls": accepted, "open_descriptors_before": before, "open_descriptors_after": after,
			"descriptor_limit": low.Cur, "module": m.String(), "want": want}
		for k, v := range extra {
			mm[k] = v
		}
		return mm
	}
	if accepted > 0 {
		// judged by the ordinary newline and read-error cases; here it only means the history is not the intended one
		c.Class("storm:some-refusals-accepted:" + firstOdd)
	}
	gz, err := dirhash.HashZip(good, dirhash.Hash1)
	c.Eval(1)
	if err != nil || gz != want {
		c.Violation("good-archive-not-hashed-after-refused-ones", id, wit(map[string]any{"HashZip": gz, "err": c19ErrStr(err)}))
		return
	}
	out := filepath.Join(root, "out")
	if err := modzip.Unzip(out, m, good); err != nil {
		c.Class("storm:unzip-rejected-skipped")
		c.Sample("storm-unzip-rejected", 1, wit(map[string]any{"err": err.Error()}))
		return
	}
	gd, err := dirhash.HashDir(out, m.Path+"@"+m.Version, dirhash.Hash1)
	c.Eval(1)
	if err != nil || gd != gz {
		c.Violation("good-archive-not-hashed-after-refused-ones", id, wit(map[string]any{"HashZip": gz, "HashDir": gd, "err": c19ErrStr(err)}))
		return
	}
	c.Class(fmt.Sprintf("storm:good-hashes-agree-after-%d-refusals", refused/100*100))
	c.Sample("after-refusals", 1, wit(map[string]any{"h1": gz}))
}
