package props

import (
	"os"
	"sync"

	"verif/harness/mon"
)

// modfileWAL has the contract of mon.Ctx.WAL (case id, newline, input bytes in the
// write-ahead file before hostile input reaches golang/mod) but keeps the file open:
// one pwrite (plus an ftruncate when the record shrinks) instead of
// open(O_TRUNC)/write/write/close. On this machine that is ~3 µs instead of ~400 µs per
// call, which matters for the engines that hand 10^5..10^7 small inputs to the parser
// (C02, C20). Falls back to c.WAL when the file cannot be opened.
var modfileWALState struct {
	mu   sync.Mutex
	path string
	f    *os.File
	last int
	buf  []byte
	// identity of the record already in the file (same case, same backing array): skip the syscalls
	id  string
	ptr *byte
	n   int
}

func modfileWAL(c *mon.Ctx, caseID string, data []byte) {
	if c.WALPath == "" {
		return
	}
	s := &modfileWALState
	s.mu.Lock()
	defer s.mu.Unlock()
	if s.f == nil || s.path != c.WALPath {
		f, err := os.OpenFile(c.WALPath, os.O_CREATE|os.O_WRONLY|os.O_TRUNC, 0o644)
		if err != nil {
			c.WAL(caseID, data)
			return
		}
		s.f, s.path, s.last, s.id, s.ptr, s.n = f, c.WALPath, 0, "", nil, 0
	}
	var ptr *byte
	if len(data) > 0 {
		ptr = &data[0]
	}
	if caseID == s.id && ptr == s.ptr && len(data) == s.n && s.last > 0 {
		return // the file already holds exactly this case and input (several calls on one input)
	}
	s.id, s.ptr, s.n = caseID, ptr, len(data)
	s.buf = append(append(append(s.buf[:0], caseID...), '\n'), data...)
	if _, err := s.f.WriteAt(s.buf, 0); err != nil {
		c.WAL(caseID, data)
		return
	}
	if len(s.buf) < s.last {
		s.f.Truncate(int64(len(s.buf)))
	}
	s.last = len(s.buf)
	if cap(s.buf) > 1<<22 {
		s.buf = nil
	}
}
