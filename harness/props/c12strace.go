package props

// strace monitor of C12: a sub-batch of extractions is run in a child of the
// worker under `strace -f`, and the syscall log is checked offline: every
// successful create-type syscall issued while zip.Unzip runs must name a path
// under that case's target directory.

import (
	"bufio"
	"encoding/json"
	"fmt"
	"os"
	"os/exec"
	"path/filepath"
	"regexp"
	"strconv"
	"strings"

	"golang.org/x/mod/module"
	mzip "golang.org/x/mod/zip"

	"verif/harness/mon"
)

const (
	c12MarkBegin = "/VERIF-C12-MARK/begin/"
	c12MarkEnd   = "/VERIF-C12-MARK/end/"
)

type c12StraceCase struct {
	I      int    `json:"i"`
	Root   string `json:"root"`
	Target string `json:"target"` // the only directory under which anything may be created
	Dir    string `json:"dir"`    // what was handed to Unzip
	OK     bool   `json:"ok"`
	Err    string `json:"err"`
	Label  string `json:"label"`
	Wit    any    `json:"wit"`
}

// c12StraceChild runs in the traced process: k extractions, each bracketed by two marker syscalls.
func c12StraceChild(c *mon.Ctx) {
	k, _ := strconv.Atoi(strings.TrimPrefix(c.ReplayCase, "strace-child:"))
	dir := os.Getenv("VERIF_C12_STRACE_DIR")
	if dir == "" || k <= 0 {
		c.Inconclusive("strace child started without VERIF_C12_STRACE_DIR")
		return
	}
	r := c.SubRng("strace")
	var out []c12StraceCase
	for i := 0; i < k; i++ {
		cs := c12Generate(r, fmt.Sprintf("s%d", i), c.Scale(8, 16), c.Scale(64, 256))
		if cs.target == "nonempty" || cs.target == "file" {
			cs.target = "missing"
		}
		box, udir, err := c12Prepare(cs, dir)
		if err != nil {
			continue
		}
		c.WAL(cs.id, cs.zip)
		mv := module.Version{Path: cs.mod.Path, Version: cs.mod.Version}
		if f, err := os.Open(c12MarkBegin + strconv.Itoa(i)); err == nil {
			f.Close()
		}
		uerr := mzip.Unzip(udir, mv, box.Zip)
		if f, err := os.Open(c12MarkEnd + strconv.Itoa(i)); err == nil {
			f.Close()
		}
		out = append(out, c12StraceCase{I: i, Root: box.Root, Target: box.Target, Dir: udir, OK: uerr == nil, Err: zipcErrStr(uerr), Label: c12FaultLabel(cs), Wit: cs.witness()})
		box.Remove()
	}
	b, _ := json.Marshal(out)
	os.WriteFile(filepath.Join(dir, "cases.json"), b, 0o644)
}

var c12CreateCalls = map[string]bool{"openat": true, "open": true, "creat": true, "mkdir": true, "mkdirat": true, "symlink": true, "symlinkat": true,
	"link": true, "linkat": true, "rename": true, "renameat": true, "renameat2": true, "mknod": true, "mknodat": true}

var (
	c12LineRE       = regexp.MustCompile(`^(\d+)\s+(\w+)\((.*)\)\s+=\s+(-?\d+|\?)(.*)$`)
	c12UnfinishedRE = regexp.MustCompile(`^(\d+)\s+(\w+)\((.*) <unfinished \.\.\.>$`)
	c12ResumedRE    = regexp.MustCompile(`^(\d+)\s+<\.\.\. (\w+) resumed>(.*)$`)
)

// c12Args splits strace's argument list; quoted strings are unescaped.
func c12Args(s string) []string {
	var out []string
	i := 0
	for i < len(s) {
		for i < len(s) && (s[i] == ' ' || s[i] == ',') {
			i++
		}
		if i >= len(s) {
			break
		}
		if s[i] == '"' {
			i++
			var b []byte
			for i < len(s) && s[i] != '"' {
				if s[i] == '\\' && i+1 < len(s) {
					i++
					switch ch := s[i]; {
					case ch >= '0' && ch <= '7':
						v, n := 0, 0
						for n < 3 && i < len(s) && s[i] >= '0' && s[i] <= '7' {
							v = v*8 + int(s[i]-'0')
							i++
							n++
						}
						b = append(b, byte(v))
						continue
					case ch == 'x' && i+2 < len(s):
						v, _ := strconv.ParseUint(s[i+1:i+3], 16, 8)
						b = append(b, byte(v))
						i += 3
						continue
					case ch == 'n':
						b = append(b, '\n')
					case ch == 't':
						b = append(b, '\t')
					case ch == 'r':
						b = append(b, '\r')
					case ch == 'v':
						b = append(b, '\v')
					case ch == 'f':
						b = append(b, '\f')
					default:
						b = append(b, ch)
					}
					i++
					continue
				}
				b = append(b, s[i])
				i++
			}
			i++ // closing quote
			for i < len(s) && s[i] == '.' {
				i++ // "..." of a truncated string
			}
			out = append(out, "\x00"+string(b)) // leading NUL marks a string argument
			continue
		}
		j := i
		depth := 0
		for j < len(s) {
			if s[j] == '<' {
				depth++
			} else if s[j] == '>' && depth > 0 {
				depth--
			} else if s[j] == ',' && depth == 0 {
				break
			}
			j++
		}
		out = append(out, s[i:j])
		i = j
	}
	return out
}

func c12Resolve(dirfd, p string) string {
	if strings.HasPrefix(p, "/") {
		return filepath.Clean(p)
	}
	if dirfd == "" || dirfd == "AT_FDCWD" {
		if wd, err := os.Getwd(); err == nil {
			return filepath.Join(wd, p) // the traced child inherits the working directory
		}
	}
	return "?/" + p
}

type c12Event struct {
	call   string
	path   string // resolved path of the object that would be created
	create bool   // create-type call (for openat: O_CREAT in the flags)
	ok     bool
}

// c12ParseEvent turns one complete strace line (call, args, result) into an event.
func c12ParseEvent(call, args, result string) (c12Event, bool) {
	a := c12Args(args)
	str := func(i int) (string, bool) {
		if i < len(a) && strings.HasPrefix(a[i], "\x00") {
			return a[i][1:], true
		}
		return "", false
	}
	ev := c12Event{call: call, ok: !strings.HasPrefix(result, "-") && result != "?"}
	var p string
	var ok bool
	switch call {
	case "openat":
		if p, ok = str(1); ok && len(a) > 2 {
			ev.path, ev.create = c12Resolve(a[0], p), strings.Contains(a[2], "O_CREAT") || strings.Contains(a[2], "O_TMPFILE")
		}
	case "open":
		if p, ok = str(0); ok && len(a) > 1 {
			ev.path, ev.create = c12Resolve("", p), strings.Contains(a[1], "O_CREAT") || strings.Contains(a[1], "O_TMPFILE")
		}
	case "creat", "mkdir", "mknod":
		if p, ok = str(0); ok {
			ev.path, ev.create = c12Resolve("", p), true
		}
	case "mkdirat", "mknodat":
		if p, ok = str(1); ok {
			ev.path, ev.create = c12Resolve(a[0], p), true
		}
	case "symlink", "link", "rename":
		if p, ok = str(1); ok {
			ev.path, ev.create = c12Resolve("", p), true
		}
	case "symlinkat":
		if p, ok = str(2); ok {
			ev.path, ev.create = c12Resolve(a[1], p), true
		}
	case "linkat", "renameat", "renameat2":
		if p, ok = str(3); ok {
			ev.path, ev.create = c12Resolve(a[2], p), true
		}
	}
	return ev, ok
}

// c12StraceParent runs the traced sub-batch and checks its log.
func c12StraceParent(c *mon.Ctx, base string) {
	if c.ReplayCase != "" && !strings.HasPrefix(c.ReplayCase, "strace:") {
		return
	}
	k := 0
	if c.Quick() {
		if c.Batch == 0 {
			k = 60
		}
	} else {
		k = c.Share(16_000)
	}
	if k == 0 {
		return
	}
	unavailable := func(why string) {
		c.Count("strace-unavailable", 1)
		c.Sample("strace-unavailable", 2, why)
		if !c.Quick() {
			c.Inconclusive("strace monitor unavailable: " + why)
		}
	}
	stracePath, err := exec.LookPath("strace")
	if err != nil {
		unavailable("strace not found")
		return
	}
	dir, err := os.MkdirTemp("", fmt.Sprintf("c12-strace-b%d-", c.Batch))
	if err != nil {
		unavailable(err.Error())
		return
	}
	defer os.RemoveAll(dir)
	logPath := filepath.Join(dir, "strace.log")
	calls := "openat,open,creat,mkdir,mkdirat,symlink,symlinkat,link,linkat,rename,renameat,renameat2,mknod,mknodat"
	cmd := exec.Command(stracePath, "-f", "-qq", "-o", logPath, "-e", "trace="+calls, "-e", "signal=none",
		os.Args[0], "-prop", "C12", "-tier", c.Tier, "-seed", fmt.Sprint(c.Seed), "-batch", fmt.Sprint(c.Batch), "-nbatch", fmt.Sprint(c.NBatch),
		"-out", filepath.Join(dir, "child-report.json"), "-wal", filepath.Join(dir, "child.wal"), "-case", fmt.Sprintf("strace-child:%d", k))
	cmd.Env = append(os.Environ(), "VERIF_C12_STRACE_DIR="+dir)
	outb, err := cmd.CombinedOutput()
	raw, rerr := os.ReadFile(filepath.Join(dir, "cases.json"))
	if err != nil || rerr != nil {
		msg := fmt.Sprintf("traced child failed: %v / %v: %s", err, rerr, string(outb))
		if len(msg) > 1500 {
			msg = msg[:1500]
		}
		unavailable(msg)
		return
	}
	var cases []c12StraceCase
	if json.Unmarshal(raw, &cases) != nil {
		unavailable("cases.json unreadable")
		return
	}
	byI := map[int]*c12StraceCase{}
	for i := range cases {
		byI[cases[i].I] = &cases[i]
	}
	f, err := os.Open(logPath)
	if err != nil {
		unavailable(err.Error())
		return
	}
	defer f.Close()

	pending := map[string][2]string{} // pid -> (call, args so far)
	cur := -1
	windows := 0
	flagged := map[int]bool{}
	handle := func(call, args, result string) {
		if !c12CreateCalls[call] {
			return
		}
		ev, ok := c12ParseEvent(call, args, result)
		if !ok {
			c.Count("strace:unparsed-lines", 1)
			c.Sample("strace-unparsed", 3, call+"("+args+") = "+result)
			return
		}
		if call == "openat" && strings.HasPrefix(ev.path, c12MarkBegin) {
			cur, _ = strconv.Atoi(ev.path[len(c12MarkBegin):])
			windows++
			return
		}
		if call == "openat" && strings.HasPrefix(ev.path, c12MarkEnd) {
			cur = -1
			return
		}
		if cur < 0 {
			if ev.create && ev.ok {
				c.Count("strace:harness-creates-outside-windows", 1)
			}
			return
		}
		cs := byI[cur]
		if cs == nil {
			return
		}
		c.Eval(1)
		inside := ev.path == cs.Target || strings.HasPrefix(ev.path, cs.Target+"/")
		switch {
		case !ev.create:
			c.Count("strace:opens-without-create", 1)
			c.Class("strace:open-read-only")
		case !ev.ok:
			c.Count("strace:failed-create-attempts", 1)
			c.Class(fmt.Sprintf("strace:failed-create-attempt:%s:inside=%t", call, inside))
		case inside:
			c.Count("strace:creates-inside-target", 1)
			c.Class("strace:create-inside-target:" + call)
		default:
			c.Count("strace:creates-outside-target", 1)
			id := fmt.Sprintf("strace:%d", cur)
			if c.Want(id) && !flagged[cur] {
				flagged[cur] = true
				c.Violation("strace-create-outside-target", id, map[string]any{"syscall": call + "(" + args + ") = " + result, "resolved-path": mon.QS(ev.path),
					"target": cs.Target, "case": cs.Wit, "unzip": cs.Err})
			}
		}
	}
	sc := bufio.NewScanner(f)
	sc.Buffer(make([]byte, 1<<20), 1<<24)
	for sc.Scan() {
		line := sc.Text()
		if m := c12UnfinishedRE.FindStringSubmatch(line); m != nil {
			pending[m[1]] = [2]string{m[2], m[3]}
			continue
		}
		if m := c12ResumedRE.FindStringSubmatch(line); m != nil {
			p, ok := pending[m[1]]
			if !ok || p[0] != m[2] {
				continue
			}
			delete(pending, m[1])
			line = m[1] + " " + p[0] + "(" + p[1] + m[3]
		}
		if m := c12LineRE.FindStringSubmatch(line); m != nil {
			handle(m[2], m[3], m[4])
		}
	}
	for _, cs := range cases {
		c.Class(fmt.Sprintf("strace:window:unzip-ok=%t", cs.OK))
	}
	c.Count("strace:windows", windows)
	c.Count("strace:cases", len(cases))
	if windows != len(cases) {
		unavailable(fmt.Sprintf("strace log has %d windows for %d cases", windows, len(cases)))
	}
}
