package props

import (
	"bytes"
	"fmt"

	"golang.org/x/mod/sumdb/tlog"

	"verif/harness/mon"
	"verif/harness/ref/refmerkle"
)

// c10VirtualTiles serves the tiles of a virtual log (ref/refmerkle.Virtual) of n records.
type c10VirtualTiles struct {
	v        *refmerkle.Virtual
	n        int64
	h        int
	missing  []string
	savedBad []string
	reads    int
}

func (s *c10VirtualTiles) Height() int { return s.h }

func (s *c10VirtualTiles) bytesOf(t tlog.Tile) ([]byte, bool) {
	if t.H != s.h || t.L < 0 || t.W < 1 || t.W > 1<<uint(t.H) || t.H*t.L > 62 {
		return nil, false
	}
	level := uint(t.H * t.L)
	have := s.n >> level // complete subtrees of that level in the tree
	first := t.N << uint(t.H)
	if t.N < 0 || first+int64(t.W) > have {
		return nil, false
	}
	out := make([]byte, 0, 32*t.W)
	for i := 0; i < t.W; i++ {
		h := s.v.Sub(int(level), first+int64(i))
		out = append(out, h[:]...)
	}
	return out, true
}

func (s *c10VirtualTiles) ReadTiles(tiles []tlog.Tile) ([][]byte, error) {
	s.reads++
	out := make([][]byte, len(tiles))
	for i, t := range tiles {
		d, ok := s.bytesOf(t)
		if !ok {
			s.missing = append(s.missing, t.Path())
			return nil, fmt.Errorf("tile %s does not exist in a tree of %d records", t.Path(), s.n)
		}
		out[i] = d
	}
	return out, nil
}

func (s *c10VirtualTiles) SaveTiles(tiles []tlog.Tile, data [][]byte) {
	for i, t := range tiles {
		d, ok := s.bytesOf(t)
		if !ok || i >= len(data) || !bytes.Equal(d, data[i]) {
			s.savedBad = append(s.savedBad, t.Path())
		}
	}
}

// c10Huge: honest reads through tiles on trees of 2^31 … 2^61 records (virtual: all records equal but
// for a few): every read must return, and return the true stored hashes — also for the hashes of level
// 33 and above and for positions just after a multiple of 2^33 records, which no real tree ever has.
func c10Huge(c *mon.Ctx) {
	r := c.GlobalRng("huge-tiles")
	item := 0
	for _, k := range []uint{31, 32, 33, 34, 40, 48, 53, 61} {
		p := int64(1) << k
		for _, N := range []int64{p - 1, p, p + 1, p + p/2 + 77, 3*p/2 - 1, p + int64(r.Int64N(p))} {
			for _, h := range []int{1, 3, 8} {
				mine := c.Mine(item)
				item++
				id := fmt.Sprintf("huge-tiles:%d:h%d", N, h)
				sp := map[int64][]byte{0: []byte("first\n"), N - 1: []byte("last\n"), r.Int64N(N): []byte("somewhere\n")}
				var idx []int64
				for _, m := range []int64{0, N - 1, r.Int64N(N), int64(1)<<33 - 1, int64(1) << 33, int64(1)<<33 + 1} {
					if m >= 0 && m < N {
						idx = append(idx, refmerkle.StoredIndex(0, m))
					}
				}
				for _, lv := range []int{1, 7, 31, 32, 33, 34, 40, int(k) - 1, int(k)} {
					if lv >= 0 && lv <= 61 && N>>uint(lv) > 0 {
						idx = append(idx, refmerkle.StoredIndex(lv, r.Int64N(N>>uint(lv))))
					}
				}
				if !mine || !c.Want(id) {
					continue
				}
				c.WAL(id, []byte(fmt.Sprint(idx)))
				v := refmerkle.NewVirtual(N, []byte("base record\n"), sp)
				tree := tlog.Tree{N: N, Hash: tlog.Hash(v.Root(N))}
				c.Guard(id, func() any { return map[string]any{"n": N, "h": h, "indexes": idx} }, func() {
					for _, x := range idx {
						srv := &c10VirtualTiles{v: v, n: N, h: h}
						got, err := tlog.TileHashReader(tree, srv).ReadHashes([]int64{x})
						c.Eval(1)
						lv, off, ok := refmerkle.SplitStored(x)
						if !ok {
							c.Inconclusive(fmt.Sprintf("harness: %d is not a stored position", x))
							return
						}
						if err != nil || len(got) != 1 || got[0] != tlog.Hash(v.Sub(lv, off)) {
							c.Violation("honest-read-failed", id, map[string]any{"n": N, "h": h, "index": x, "level": lv, "offset": off, "err": fmt.Sprint(err), "missing-tiles-asked": srv.missing})
							return
						}
						if len(srv.savedBad) > 0 {
							c.Violation("unauthentic-tile-saved", id, map[string]any{"n": N, "h": h, "index": x, "tiles": srv.savedBad})
							return
						}
					}
					c.Class(fmt.Sprintf("huge-virtual-tiles:bits=%d:h=%d", k, h))
				})
			}
		}
	}
}
