package props

import (
	"bytes"
	"encoding/base64"
	"fmt"
	"math/rand/v2"
	"runtime"
	"strings"
	"sync"
	"sync/atomic"
	"time"

	"golang.org/x/mod/sumdb"

	"verif/harness/mon"
	"verif/harness/ref/refmerkle"
	"verif/harness/world"
)

func init() { Registry["C13"] = runC13 }

// c13Excl returns the set of branches a head is exclusive to (empty for common heads,
// nil,false for unauthentic ones).
func c13Branches(w *world.World, msg []byte) (on []bool, n int64, ok bool) {
	if len(msg) == 0 {
		on = make([]bool, len(w.Logs))
		for i := range on {
			on[i] = true
		}
		return on, 0, true
	}
	n, on, ok = w.HeadOn(msg)
	return
}

func c13Consistent(a, b []bool) bool {
	for i := range a {
		if a[i] && b[i] {
			return true
		}
	}
	return false
}

func c13Unindent(s string) string { return strings.ReplaceAll(s, "\n\t", "\n") }

// c13SecurityHeads extracts the two signed notes from a security message as checkTrees formats it.
func c13SecurityHeads(msg string) (older, newer string, ok bool) {
	i := strings.Index(msg, "old database:\n\t")
	j := strings.Index(msg, "new database:\n\t")
	k := strings.Index(msg, "proof of misbehavior:")
	if i < 0 || j < i || k < j {
		return "", "", false
	}
	older = c13Unindent(msg[i+len("old database:\n\t") : j])
	newer = c13Unindent(msg[j+len("new database:\n\t") : k])
	// each section ends with the note's final newline (indented) plus the separating newline
	older = strings.TrimSuffix(older, "\n")
	newer = strings.TrimSuffix(newer, "\n")
	return older, newer, true
}

// c13LongCosig is a well-formed signature line by an unknown key, 70 KiB long.
var c13LongCosig = []byte("\u2014 witness.example/cosigner " + base64.StdEncoding.EncodeToString(bytes.Repeat([]byte{0xab, 0x01, 0x7f}, 70*1024/4)) + "\n")

type c13Client struct {
	cl *sumdb.Client
	id int
}

func runC13(c *mon.Ctx) {
	key := world.NewKey(c01Name, 7)
	Nmax := c.Scale(8, 14)
	hs := []int{1, 2, 3, 8}
	item := 0
	logs := map[string]*world.Log{}
	getLog := func(tag string, n, p int) *world.Log {
		k := fmt.Sprintf("%s:%d:%d", tag, n, p)
		if l, ok := logs[k]; ok {
			return l
		}
		l := world.NewLog(tag, n, p, key)
		logs[k] = l
		return l
	}
	type triple struct{ p, a, b int }
	var triples []triple
	for p := 0; p <= Nmax; p++ {
		for a := p; a <= Nmax; a++ {
			for b := p; b <= Nmax; b++ {
				if b == 0 || (a == p && b == p) {
					continue
				}
				triples = append(triples, triple{p, a, b})
			}
		}
	}
	// shapes in which two tree-hash subtrees share a tile (the tile planned next is only reachable through
	// its parent) — the old head's hashes then live in exactly that tile
	special := []triple{{16, 19, 23}, {16, 19, 22}, {17, 19, 23}, {12, 15, 23}, {4, 7, 11}, {64, 67, 71}}
	triples = append(triples, special...)
	if !c.Quick() {
		// sampled larger triples
		gr := c.GlobalRng("big-triples")
		for k := 0; k < 400; k++ {
			p := gr.IntN(40)
			triples = append(triples, triple{p, p + gr.IntN(41-p), p + 1 + gr.IntN(40-p)})
		}
	}
	if c.Batch == 0 {
		c13KnownUnreconciled(c, key)
	}
	c13BogusEmptyHead(c, key)
	for i := 0; i < c.Share(c.Scale(480, 12000)); i++ {
		c13Growing(c, key, i)
	}
	for _, t := range triples {
		for _, h := range hs {
			mine := c.Mine(item)
			item++
			if !mine {
				continue
			}
			A, B := getLog("A", t.a, t.p), getLog("B", t.b, t.p)
			for _, long := range []bool{true, false} {
				for _, warm := range []string{"all", "alternate", "last-only"} {
					if c.Quick() && (t.a+t.b+h)%3 != map[string]int{"all": 0, "alternate": 1, "last-only": 2}[warm] && t.a > 3 {
						continue
					}
					c13Sequential(c, A, B, t.p, t.a, t.b, h, long, warm, "")
					if t.a > t.p && t.b > t.p && t.b >= t.a {
						// the forking server answers tile requests with the OTHER branch's hashes wherever that
						// branch has the complete subtree (it may pick per hash slot) ...
						c13Sequential(c, A, B, t.p, t.a, t.b, h, long, warm, "slot")
						// ... or does so only in the widest copy of a tile it is asked for, and answers requests
						// for narrower copies of the same tile honestly (two answers for one coordinate)
						c13Sequential(c, A, B, t.p, t.a, t.b, h, long, warm, "widest-copy")
						c13Sequential(c, A, B, t.p, t.a, t.b, h, long, warm, "narrower-copies")
					}
				}
			}
			if t.a > t.p && t.b > t.p {
				for _, pol := range []string{"random", "cas-conflict"} {
					c13Concurrent(c, A, B, t.p, t.a, t.b, h, pol)
				}
				for _, pol := range []string{"random", "install-race", "install-race-small-held"} {
					c13OneClient(c, A, B, t.p, t.a, t.b, h, pol)
				}
			}
		}
	}
}

// c13Lookup runs one lookup and judges it against the timeline rules.
func c13Lookup(c *mon.Ctx, caseID string, w *world.World, cc *c13Client, path, vers, phase string, info map[string]any) {
	before, _ := w.CloneStore()
	_ = before
	_, cfgBefore := w.CloneStore()
	cfg0 := cfgBefore[c01Name+"/latest"]
	tr0, _ := w.Snapshot()
	nsec0 := len(w.Security)
	var lines []string
	var err error
	c.Guard(caseID, func() any { return info }, func() { lines, err = cc.cl.Lookup(path, vers) })
	c.Eval(1)
	tr1, _ := w.Snapshot()
	_, cfgAfter := w.CloneStore()
	cfg1 := cfgAfter[c01Name+"/latest"]
	viol := func(class string, d map[string]any) {
		for k, v := range info {
			d[k] = v
		}
		d["phase"], d["path"] = phase, path
		d["err"] = fmt.Sprint(err)
		d["trace_tail"] = w.TraceTail(20)
		c.Violation(class, caseID, d)
	}
	// did this call consume a lookup response?
	consumed := false
	file := w.Name + "/lookup/" + path + "@" + vers
	for _, e := range tr1[len(tr0):] {
		if (e.Op == "ReadRemoteDone" && e.Res == "ok" && e.Arg == "/lookup/"+path+"@"+vers) || (e.Op == "ReadCache" && e.Res == "hit" && e.Arg == file) {
			consumed = true
		}
	}
	onCfg, _, okCfg := c13Branches(w, cfg0)
	if !okCfg {
		return // config monitor already complained
	}
	dependsOnInconsistent := false
	if consumed {
		_, _, rest, ok := world.ParseLookup(w.Delivered(cc.id, file))
		if ok {
			if onResp, _, okResp := c13Branches(w, rest); okResp && !c13Consistent(onCfg, onResp) {
				dependsOnInconsistent = true
			}
		}
	}
	switch {
	case dependsOnInconsistent && err == nil:
		viol("lookup-succeeded-on-inconsistent-head", map[string]any{"lines": lines})
		c.Class("fork:" + phase + ":violation")
	case dependsOnInconsistent:
		c.Class("fork:" + phase + ":refused")
		if !bytes.Equal(cfg0, cfg1) {
			viol("stored-head-changed-by-refused-fork", map[string]any{"config_before": string(cfg0), "config_after": string(cfg1)})
		}
	case err == nil && consumed:
		c.Class("consistent:" + phase + ":served")
	case err == nil:
		c.Class("consistent:" + phase + ":served-from-memory")
	default:
		c.Class("consistent:" + phase + ":failed")
	}
	if err != nil && strings.Contains(err.Error(), sumdb.ErrSecurity.Error()) && len(tr1) == len(tr0) {
		// answered from the client's in-memory record cache (a remembered error): nothing was presented now
		c.Class("security-error-remembered:" + phase)
	} else if err != nil && strings.Contains(err.Error(), sumdb.ErrSecurity.Error()) {
		c.Class("security-error:" + phase)
		if len(w.Security) == nsec0 {
			viol("security-error-without-callback", map[string]any{})
		} else {
			m := w.Security[len(w.Security)-1]
			o, nw, ok := c13SecurityHeads(m)
			good := false
			if ok {
				on1, _, ok1 := c13Branches(w, []byte(o))
				on2, _, ok2 := c13Branches(w, []byte(nw))
				good = ok1 && ok2 && len(o) > 0 && len(nw) > 0 && !c13Consistent(on1, on2)
			}
			if !good {
				viol("security-callback-lacks-both-inconsistent-heads", map[string]any{"message": m})
			}
		}
	}
	if len(w.Security) > nsec0 && (err == nil || !strings.Contains(err.Error(), sumdb.ErrSecurity.Error())) {
		// a security callback for a lookup that then did not report a security error
		if err == nil {
			viol("lookup-succeeded-after-security-callback", map[string]any{})
		}
	}
}

func c13Drain(c *mon.Ctx, caseID string, w *world.World, info map[string]any) {
	_, viols := w.Snapshot()
	for _, v := range viols {
		d := map[string]any{}
		for k, x := range v.Detail {
			d[k] = x
		}
		for k, x := range info {
			d[k] = x
		}
		d["trace_tail"] = w.TraceTail(20)
		c.Violation(v.Class, caseID, d)
	}
	// every security report ever raised carries two authentic, mutually inconsistent signed heads
	for _, m := range w.SecurityMessages() {
		o, nw, ok := c13SecurityHeads(m)
		good := false
		if ok {
			on1, _, ok1 := c13Branches(w, []byte(o))
			on2, _, ok2 := c13Branches(w, []byte(nw))
			good = ok1 && ok2 && len(o) > 0 && len(nw) > 0 && !c13Consistent(on1, on2)
		}
		c.Eval(1)
		if !good {
			d := map[string]any{"message": m}
			for k, x := range info {
				d[k] = x
			}
			c.Violation("security-callback-lacks-both-inconsistent-heads", caseID, d)
			break
		}
		c.Class("security-report:both-inconsistent-heads-present")
	}
	// one timeline: all installed heads lie on one branch
	w2 := w
	count := make([]int, len(w2.Logs))
	for _, hmsg := range w2.ConfigHistory {
		on, _, ok := c13Branches(w2, hmsg)
		if !ok {
			continue
		}
		for i := range on {
			if on[i] {
				count[i]++
			}
		}
	}
	single := len(w2.ConfigHistory) == 0
	for i := range count {
		if count[i] == len(w2.ConfigHistory) {
			single = true
		}
	}
	if !single {
		var hist []string
		for _, hmsg := range w2.ConfigHistory {
			hist = append(hist, string(hmsg))
		}
		d := map[string]any{"history": hist}
		for k, x := range info {
			d[k] = x
		}
		c.Violation("two-inconsistent-heads-installed", caseID, d)
	}
}

func c13Sequential(c *mon.Ctx, A, B *world.Log, p, a, b, h int, long bool, warm string, mixTiles string) {
	caseID := fmt.Sprintf("seq:p%d:a%d:b%d:h%d:long=%t:%s:mix=%s", p, a, b, h, long, warm, mixTiles)
	if !c.Want(caseID) {
		return
	}
	c.WAL(caseID, nil)
	r := c.SubRng(caseID)
	info := map[string]any{"p": p, "a": a, "b": b, "h": h, "long_lived": long, "warm": warm}
	w := world.New(c01Name, A.Key, A, B)
	cur, size := A, a
	mixing := false
	cosig := r.IntN(5) == 0
	if cosig {
		c.Class("scenario:fork-heads-carry-a-70KiB-cosignature-line")
	}
	w.Remote = func(cl int, path string) ([]byte, error) {
		if mixing && strings.HasPrefix(path, "/tile/") {
			// per hash slot: the other branch's hash wherever that branch has the complete subtree
			if t, ok := refmerkle.ParseTilePath(path[1:]); ok && t.L >= 0 && refmerkle.TileExists(t, int64(b)) {
				lvl := uint(t.H * t.L)
				avail := int64(b)>>lvl - t.N<<uint(t.H) // hashes of this tile that exist in tree b
				widest := int64(t.W) >= avail || t.W == 1<<uint(t.H)
				if mixTiles == "widest-copy" && !widest || mixTiles == "narrower-copies" && widest {
					return world.ServeLog(cur, func() int { return size })(cl, path)
				}
				out := make([]byte, 0, 32*t.W)
				for i := 0; i < t.W; i++ {
					off := t.N<<uint(t.H) + int64(i)
					var hsh [32]byte
					if (off+1)<<lvl <= int64(a) {
						hsh = A.M.Subtree(int(lvl), off)
					} else {
						hsh = B.M.Subtree(int(lvl), off)
					}
					out = append(out, hsh[:]...)
				}
				return out, nil
			}
		}
		d, err := world.ServeLog(cur, func() int { return size })(cl, path)
		if cosig && cur == B && err == nil && (strings.HasPrefix(path, "/lookup/") || path == "/latest") {
			// B's operator has its heads co-signed by a witness this client does not know; the witness's
			// signature line is very long (70 KiB) and stands before the database's own
			if i := bytes.LastIndex(d, []byte("\n\n")); i >= 0 {
				d = append(append(append([]byte(nil), d[:i+2]...), c13LongCosig...), d[i+2:]...)
			}
		}
		return d, err
	}
	nextID := 1
	var cc *c13Client
	mk := func() {
		cl := sumdb.NewClient(w.Client(nextID))
		cl.SetTileHeight(h)
		w.Register(cl, nextID)
		cc = &c13Client{cl, nextID}
		nextID++
	}
	mk()
	// phase 1: branch A at size a
	for id := 0; id < a; id++ {
		switch warm {
		case "alternate":
			if id%2 == 1 && id != a-1 {
				continue
			}
		case "last-only":
			if id != a-1 {
				continue
			}
		}
		if !long {
			mk()
		}
		c13Lookup(c, caseID, w, cc, A.Mods[id].Path, A.Mods[id].Vers, "phase1-A", info)
	}
	// phase 1c (restarting clients only): the configuration directory is lost or rolled back to the common
	// prefix while the cache survives; the next process is served a record from that cache, whose signed
	// head is then as much "accepted" as one from the server
	if !long && a > 0 && r.IntN(3) == 0 {
		var keep []byte
		if p > 0 && r.IntN(2) == 0 {
			keep = A.Head(p)
		}
		w.LoseLatest(keep)
		mk()
		c13Lookup(c, caseID, w, cc, A.Mods[a-1].Path, A.Mods[a-1].Vers, "phase1c-A-from-cache-after-config-loss", info)
		c.Class(fmt.Sprintf("scenario:config-lost-cache-kept:rolled-back-to-prefix=%t", keep != nil))
	}
	// phase 2: the server now presents branch B at size b
	cur, size = B, b
	mixing = mixTiles != ""
	order := r.Perm(b)
	for _, id := range order {
		if !long {
			mk()
		}
		c13Lookup(c, caseID, w, cc, B.Mods[id].Path, B.Mods[id].Vers, "phase2-B", info)
	}
	// phase 2b: a restarted client whose init-time read of the stored head fails once (transient I/O
	// error); the server still presents B. The client must not silently start from an empty timeline.
	if r.IntN(2) == 0 && b > 0 {
		mk()
		w.ArmConfigReadFault()
		for k := 0; k < 3; k++ {
			id := (b - 1 + k*(b/2+1)) % b
			c13Lookup(c, caseID, w, cc, B.Mods[id].Path, B.Mods[id].Vers, "phase2b-B-after-failed-config-read", info)
		}
		c.Class("scenario:restart-with-failed-config-read")
	}
	// phase 3: back to A (possibly grown view of the same branch)
	mixing = false
	cur, size = A, a
	for k := 0; k < 2 && a > 0; k++ {
		id := r.IntN(a)
		if !long {
			mk()
		}
		c13Lookup(c, caseID, w, cc, A.Mods[id].Path, A.Mods[id].Vers, "phase3-A", info)
	}
	c13Drain(c, caseID, w, info)
	kind := "extension"
	if a > p && b > p {
		kind = "fork"
	} else if b <= p && a > p || b < a && a == p {
		kind = "older-prefix"
	}
	c.Class(fmt.Sprintf("scenario:%s:long=%t:%s", kind, long, warm))
	if c.Batch == 0 && kind == "fork" {
		c.Sample("fork-scenario", 2, map[string]any{"case": caseID, "security_messages": len(w.Security), "config_writes": len(w.ConfigHistory), "trace_tail": w.TraceTail(12)})
	}
}

// c13Concurrent: two long-lived clients on one config store, one fed by A, one by B.
func c13Concurrent(c *mon.Ctx, A, B *world.Log, p, a, b, h int, policy string) {
	caseID := fmt.Sprintf("conc:p%d:a%d:b%d:h%d:%s", p, a, b, h, policy)
	if !c.Want(caseID) {
		return
	}
	c.WAL(caseID, nil)
	r := c.SubRng(caseID)
	info := map[string]any{"p": p, "a": a, "b": b, "h": h, "policy": policy}
	w := world.New(c01Name, A.Key, A, B)
	servA, servB := world.ServeLog(A, func() int { return a }), world.ServeLog(B, func() int { return b })
	w.Remote = func(cl int, path string) ([]byte, error) {
		if cl == 1 {
			return servA(cl, path)
		}
		return servB(cl, path)
	}
	// schedule policy
	var gmu sync.Mutex
	grng := rand.New(rand.NewPCG(r.Uint64(), r.Uint64()))
	held := make(chan struct{})
	var releaseOnce sync.Once
	release := func() { releaseOnce.Do(func() { close(held) }) }
	forced := false
	w.Gate = func(ev world.Event) {
		switch policy {
		case "random":
			gmu.Lock()
			k := grng.IntN(8)
			gmu.Unlock()
			switch {
			case k < 3:
				runtime.Gosched()
			case k == 3:
				time.Sleep(time.Duration(50+k*20) * time.Microsecond)
			}
		case "cas-conflict":
			// client 1 is held right before its config write until client 2's write went through
			if ev.Op == "Yield" && ev.Arg == "mergecfg:before-write" && ev.Client == 1 {
				select {
				case <-held:
				case <-time.After(2 * time.Second):
				}
			}
			if ev.Op == "WriteConfig" && ev.Client == 2 && strings.HasPrefix(ev.Res, "ok") {
				gmu.Lock()
				forced = true
				gmu.Unlock()
				release()
			}
		}
	}
	world.Activate(w)
	defer world.Deactivate()
	type res struct {
		client int
		path   string
		vers   string
		lines  []string
		err    error
	}
	var mu sync.Mutex
	var results []res
	retired := 0
	var wg sync.WaitGroup
	for ci, lg := range []*world.Log{A, B} {
		id := ci + 1
		cl := sumdb.NewClient(w.Client(id))
		cl.SetTileHeight(h)
		w.Register(cl, id)
		n := a
		if ci == 1 {
			n = b
		}
		ids := []int{n - 1, r.IntN(n), r.IntN(n)}
		wg.Add(1)
		go func(lg *world.Log, ids []int) {
			defer wg.Done()
			w.Bind(id)
			for _, rid := range ids {
				nInst := len(w.Installs(id))
				lines, err := cl.Lookup(lg.Mods[rid].Path, lg.Mods[rid].Vers)
				mu.Lock()
				results = append(results, res{id, lg.Mods[rid].Path, lg.Mods[rid].Vers, lines, err})
				mu.Unlock()
				if err != nil && len(w.Installs(id)) > nInst {
					// Domain restriction (known finding unreconciled-head-after-failed-config-merge): the
					// client advanced its in-memory head during this call and then failed to reconcile it
					// with the shared config; such a client is retired here. The designated regression
					// scenario c13KnownUnreconciled keeps using it.
					mu.Lock()
					retired++
					mu.Unlock()
					break
				}
			}
			if id == 2 {
				release() // never leave client 1 waiting for a write that will not come
			}
		}(lg, ids)
	}
	wg.Wait()
	release()
	c.Eval(len(results))
	// Every successful lookup consumed a response carrying a signed head. All those heads and the
	// config history must lie on ONE branch (the shared cache may legitimately hand a client the
	// other server's authentic data, so the branch is read off the response, not off the client).
	used := make([]bool, 2)
	for _, rs := range results {
		if rs.err != nil {
			if strings.Contains(rs.err.Error(), sumdb.ErrSecurity.Error()) {
				c.Class("conc:security-error")
			}
			continue
		}
		del := w.Delivered(rs.client, w.Name+"/lookup/"+rs.path+"@"+rs.vers)
		bi, rid, ok := w.AuthenticLookup(del)
		if !ok {
			c.Violation("concurrent-lookup-succeeded-on-unauthentic-response", caseID, map[string]any{"client": rs.client, "path": rs.path, "delivered": string(del)})
			continue
		}
		_, _, rest, _ := world.ParseLookup(del)
		on, _, _ := c13Branches(w, rest)
		if !(on[0] && on[1]) {
			if on[0] {
				used[0] = true
			}
			if on[1] {
				used[1] = true
			}
		}
		// the record itself tells the branch too, when it is not a common record
		if rid >= p {
			used[bi] = true
		}
		if strings.Join(rs.lines, "|") != strings.Join(w.Logs[bi].Mods[rid].Lines(rs.path+" "+rs.vers+" "), "|") {
			c.Violation("concurrent-lookup-wrong-lines", caseID, map[string]any{"client": rs.client, "lines": rs.lines})
		}
	}
	histOn := make([]bool, 2)
	for _, hmsg := range w.ConfigHistory {
		on, _, ok := c13Branches(w, hmsg)
		if ok && !(on[0] && on[1]) {
			if on[0] {
				histOn[0] = true
			}
			if on[1] {
				histOn[1] = true
			}
		}
	}
	if (used[0] || histOn[0]) && (used[1] || histOn[1]) {
		var rr []string
		for _, rs := range results {
			rr = append(rr, fmt.Sprintf("client %d %s: err=%v", rs.client, rs.path, rs.err))
		}
		d := map[string]any{"results": rr, "config_history_len": len(w.ConfigHistory), "trace_tail": w.TraceTail(40)}
		for k, v := range info {
			d[k] = v
		}
		c.Violation("both-branches-accepted-by-clients-sharing-config", caseID, d)
	}
	c13Drain(c, caseID, w, info)
	winner := "none"
	if used[0] {
		winner = "A"
	} else if used[1] {
		winner = "B"
	}
	gmu.Lock()
	f := forced
	gmu.Unlock()
	c.Class(fmt.Sprintf("conc:%s:winner=%s", policy, winner))
	if retired > 0 {
		c.Class("conc:client-retired-after-unreconciled-install")
	}
	if policy == "cas-conflict" {
		conflicts := 0
		tr, _ := w.Snapshot()
		for _, e := range tr {
			if e.Op == "WriteConfig" && e.Res == "conflict" {
				conflicts++
			}
		}
		if f && conflicts > 0 {
			c.Class("conc:cas-conflict-forced")
		}
		c.Count("cas-conflicts-observed", conflicts)
	}
}

// c13KnownUnreconciled is the designated regression scenario of the known finding
// unreconciled-head-after-failed-config-merge: two clients share one config; client 1 is
// initialised while the config is still empty, client 2 (shown branch B) installs B's head in the
// config, client 1 (shown branch A) then installs A's head in memory, fails to reconcile it with the
// config (error), and nevertheless serves the next lookup from branch A.
func c13KnownUnreconciled(c *mon.Ctx, key *world.Key) {
	const id = "unreconciled-head-after-failed-config-merge"
	if !c.Want(id) {
		return
	}
	A, B := world.NewLog("A", 5, 2, key), world.NewLog("B", 7, 2, key)
	w := world.New(c01Name, key, A, B)
	servA, servB := world.ServeLog(A, func() int { return 5 }), world.ServeLog(B, func() int { return 7 })
	w.Remote = func(cl int, path string) ([]byte, error) {
		if cl == 1 {
			return servA(cl, path)
		}
		return servB(cl, path)
	}
	world.Activate(w)
	defer world.Deactivate()
	c1 := sumdb.NewClient(w.Client(1))
	c1.SetTileHeight(3)
	w.Register(c1, 1)
	c2 := sumdb.NewClient(w.Client(2))
	c2.SetTileHeight(3)
	w.Register(c2, 2)
	_, e0 := c1.Lookup("example.com/absent", "v1.0.0")  // initialises client 1 against the empty config
	_, e1 := c2.Lookup(B.Mods[6].Path, B.Mods[6].Vers)  // config := B(7)
	_, e2 := c1.Lookup(A.Mods[4].Path, A.Mods[4].Vers)  // installs A(5) in memory, cannot reconcile with B(7)
	l3, e3 := c1.Lookup(A.Mods[3].Path, A.Mods[3].Vers) // A-only record served although the stored head is B's
	still := e0 != nil && e1 == nil && e2 != nil && e3 == nil && len(l3) == 1
	c.Eval(1)
	c.Finding(id, still, map[string]any{"init_err": fmt.Sprint(e0), "client2_B": fmt.Sprint(e1), "client1_A_first": fmt.Sprint(e2), "client1_A_second": fmt.Sprint(e3),
		"lines": l3, "config_history_len": len(w.ConfigHistory), "trace_tail": w.TraceTail(30)})
}

// c13OneClient: ONE long-lived client, two goroutines; the forking server shows branch A to one
// goroutine and branch B to the other. Under "install-race" the goroutine holding the larger head is
// stopped between its consistency check and its install until the other goroutine has installed its
// (smaller, inconsistent) head; it must then notice that the head it checked against is gone.
func c13OneClient(c *mon.Ctx, A, B *world.Log, p, a, b, h int, policy string) {
	caseID := fmt.Sprintf("one:p%d:a%d:b%d:h%d:%s", p, a, b, h, policy)
	if !c.Want(caseID) {
		return
	}
	// the goroutine with the larger tree is the one that is held; with equal sizes neither head "looks new"
	big, small, nBig, nSmall := A, B, a, b
	if b > a {
		big, small, nBig, nSmall = B, A, b, a
	}
	idBig, idSmall := nBig-1, nSmall-1
	if idBig == idSmall {
		idSmall = p // another record exclusive to the smaller branch, under a different file name
		if idSmall == idBig {
			return
		}
	}
	if policy == "install-race-small-held" {
		// roles swapped: the goroutine with the SMALLER (or equal) head is held after its consistency
		// check while the larger head is installed; it looks up a record of the common prefix, so only
		// the comparison of its head with the newly installed one can stop it
		if p == 0 || nBig == nSmall {
			return
		}
		big, small, nBig, nSmall = small, big, nSmall, nBig
		idBig, idSmall = p-1, nSmall-1
	}
	racePolicy := strings.HasPrefix(policy, "install-race")
	c.WAL(caseID, nil)
	r := c.SubRng(caseID)
	info := map[string]any{"p": p, "a": a, "b": b, "h": h, "policy": policy, "one_client": true}
	w := world.New(c01Name, A.Key, A, B)
	servBig, servSmall := world.ServeLog(big, func() int { return nBig }), world.ServeLog(small, func() int { return nSmall })
	var gmu sync.Mutex
	branchOf := map[int64]int{} // gid -> 0 big, 1 small; tile goroutines inherit via the request in flight
	var curBig, curSmall int64
	w.Remote = func(cl int, path string) ([]byte, error) {
		// lookups are dispatched by the goroutine that asked; tile requests are answered from whichever
		// branch has that tile content requested first (the forking server cannot tell either)
		g := world.Gid()
		gmu.Lock()
		br, ok := branchOf[g]
		gmu.Unlock()
		if strings.HasPrefix(path, "/lookup/") && ok && br == 1 {
			return servSmall(cl, path)
		}
		if strings.HasPrefix(path, "/lookup/") {
			return servBig(cl, path)
		}
		// tiles: a partial tile's width tells which tree it belongs to; full tiles with equal content are
		// the same on both; otherwise answer from the branch whose lookup is in flight right now
		dB, eB := servBig(cl, path)
		dS, eS := servSmall(cl, path)
		natural := func(n int) bool {
			t, ok := refmerkle.ParseTilePath(strings.TrimPrefix(path, "/"))
			if !ok {
				return false
			}
			rest := int64(n)>>uint(t.H*t.L) - t.N<<uint(t.H)
			if rest > 1<<uint(t.H) {
				rest = 1 << uint(t.H)
			}
			return int64(t.W) == rest
		}
		switch {
		case eB != nil && eS != nil:
			return nil, eB
		case eS != nil:
			return dB, nil
		case eB != nil:
			return dS, nil
		case bytes.Equal(dB, dS):
			return dB, nil
		case natural(nBig) && !natural(nSmall):
			return dB, nil
		case natural(nSmall) && !natural(nBig):
			return dS, nil
		case atomic.LoadInt64(&curSmall) > 0 && atomic.LoadInt64(&curBig) == 0:
			return dS, nil
		}
		return dB, nil
	}
	grng := rand.New(rand.NewPCG(r.Uint64(), r.Uint64()))
	heldArrived := make(chan struct{})
	var arrivedOnce, relOnce sync.Once
	release := make(chan struct{})
	var bigGid int64
	forced := false
	w.Gate = func(ev world.Event) {
		switch policy {
		case "random":
			gmu.Lock()
			k := grng.IntN(8)
			gmu.Unlock()
			if k < 3 {
				runtime.Gosched()
			} else if k == 3 {
				time.Sleep(time.Duration(40+k*20) * time.Microsecond)
			}
		case "install-race", "install-race-small-held":
			if ev.Op == "Yield" && ev.Arg == "merge:before-install" && ev.Gid == atomic.LoadInt64(&bigGid) {
				arrivedOnce.Do(func() { close(heldArrived) })
				select {
				case <-release:
					gmu.Lock()
					forced = true
					gmu.Unlock()
				case <-time.After(2 * time.Second):
				}
			}
		}
	}
	world.Activate(w)
	defer world.Deactivate()
	cl := sumdb.NewClient(w.Client(1))
	cl.SetTileHeight(h)
	w.Register(cl, 1)
	// warm-up on a common record (if there is one) so that the client holds the common head
	if p > 0 {
		gmu.Lock()
		branchOf[world.Gid()] = 0
		gmu.Unlock()
		w.Bind(1)
		saveBig := nBig
		_ = saveBig
		wsrv := world.ServeLog(big, func() int { return p })
		old := w.Remote
		w.Remote = func(c2 int, path string) ([]byte, error) { return wsrv(c2, path) }
		if _, err := cl.Lookup(big.Mods[0].Path, big.Mods[0].Vers); err != nil {
			c.Violation("honest-lookup-failed", caseID, map[string]any{"stage": "warm-up", "err": err.Error()})
			return
		}
		w.Remote = old
	}
	type res struct {
		which string
		path  string
		vers  string
		lines []string
		err   error
	}
	var mu sync.Mutex
	var results []res
	var wg sync.WaitGroup
	wg.Add(2)
	go func() {
		defer wg.Done()
		g := world.Gid()
		atomic.StoreInt64(&bigGid, g)
		gmu.Lock()
		branchOf[g] = 0
		gmu.Unlock()
		w.Bind(1)
		atomic.AddInt64(&curBig, 1)
		lines, err := cl.Lookup(big.Mods[idBig].Path, big.Mods[idBig].Vers)
		atomic.AddInt64(&curBig, -1)
		mu.Lock()
		results = append(results, res{"big", big.Mods[idBig].Path, big.Mods[idBig].Vers, lines, err})
		mu.Unlock()
	}()
	go func() {
		defer wg.Done()
		g := world.Gid()
		gmu.Lock()
		branchOf[g] = 1
		gmu.Unlock()
		w.Bind(1)
		if racePolicy {
			select {
			case <-heldArrived:
			case <-time.After(2 * time.Second):
			}
		}
		atomic.AddInt64(&curSmall, 1)
		if racePolicy {
			// release the held goroutine as soon as this one has installed its head in memory (it may or
			// may not have flushed the configuration by then: both orders occur)
			go func() {
				for i := 0; i < 20000; i++ {
					for _, n := range w.Installs(1) {
						if n == int64(nSmall) {
							relOnce.Do(func() { close(release) })
							return
						}
					}
					time.Sleep(100 * time.Microsecond)
				}
			}()
		}
		lines, err := cl.Lookup(small.Mods[idSmall].Path, small.Mods[idSmall].Vers)
		atomic.AddInt64(&curSmall, -1)
		mu.Lock()
		results = append(results, res{"small", small.Mods[idSmall].Path, small.Mods[idSmall].Vers, lines, err})
		mu.Unlock()
		relOnce.Do(func() { close(release) })
	}()
	wg.Wait()
	relOnce.Do(func() { close(release) })
	c.Eval(len(results))
	used := make([]bool, 2)
	for _, rs := range results {
		if rs.err != nil {
			if strings.Contains(rs.err.Error(), sumdb.ErrSecurity.Error()) {
				c.Class("one-client:security-error")
			}
			continue
		}
		del := w.Delivered(1, w.Name+"/lookup/"+rs.path+"@"+rs.vers)
		bi, rid, ok := w.AuthenticLookup(del)
		if !ok {
			c.Violation("concurrent-lookup-succeeded-on-unauthentic-response", caseID, map[string]any{"path": rs.path, "delivered": string(del)})
			continue
		}
		_, _, rest, _ := world.ParseLookup(del)
		on, _, _ := c13Branches(w, rest)
		if !(on[0] && on[1]) {
			if on[0] {
				used[0] = true
			}
			if on[1] {
				used[1] = true
			}
		}
		if rid >= p {
			used[bi] = true
		}
	}
	if used[0] && used[1] {
		var rr []string
		for _, rs := range results {
			rr = append(rr, fmt.Sprintf("%s %s: err=%v", rs.which, rs.path, rs.err))
		}
		d := map[string]any{"results": rr, "installs": w.Installs(1), "trace_tail": w.TraceTail(40)}
		for k, v := range info {
			d[k] = v
		}
		c.Violation("both-branches-accepted-by-one-client", caseID, d)
	}
	c13Drain(c, caseID, w, info)
	gmu.Lock()
	f := forced
	gmu.Unlock()
	c.Class("one-client:" + policy)
	if racePolicy && f {
		c.Class("one-client:" + policy + "-forced")
		tr, _ := w.Snapshot()
		for _, e := range tr {
			if e.Op == "Yield" && e.Arg == "merge:retry" {
				c.Class("one-client:install-race-retry-observed")
				break
			}
		}
	}
}

// c13Growing: an honest log that grows with every lookup, several clients and goroutines sharing one
// config store under schedule noise. The stored head must move forward only (world's compare-and-swap
// monitor: every successful write extends the previous head on the same branch and never shrinks).
func c13Growing(c *mon.Ctx, key *world.Key, i int) {
	caseID := fmt.Sprintf("growing:%d", i)
	r := c.SubRng(caseID)
	if !c.Want(caseID) {
		return
	}
	c.WAL(caseID, nil)
	const N = 24
	lg := world.NewLog("A", N, N, key)
	w := world.New(c01Name, key, lg)
	var size atomic.Int64
	size.Store(int64(1 + r.IntN(3)))
	serve := world.ServeLog(lg, func() int { return int(size.Load()) })
	w.Remote = func(cl int, path string) ([]byte, error) {
		if strings.HasPrefix(path, "/lookup/") {
			// the log grows underneath the clients: each lookup is answered from a larger tree
			for {
				cur := size.Load()
				if cur >= N || size.CompareAndSwap(cur, cur+1) {
					break
				}
			}
			// make sure the requested record is inside the served tree
			mv := strings.TrimPrefix(path, "/lookup/")
			if id := lg.Find(mv[:strings.LastIndex(mv, "@")], mv[strings.LastIndex(mv, "@")+1:], N); id >= 0 {
				for {
					cur := size.Load()
					if cur > int64(id) || size.CompareAndSwap(cur, int64(id)+1) {
						break
					}
				}
			}
		}
		return serve(cl, path)
	}
	var gmu sync.Mutex
	grng := rand.New(rand.NewPCG(r.Uint64(), r.Uint64()))
	w.Gate = func(ev world.Event) {
		gmu.Lock()
		k := grng.IntN(10)
		gmu.Unlock()
		switch {
		case k < 3:
			runtime.Gosched()
		case k == 3:
			runtime.Gosched()
			runtime.Gosched()
		case k == 4:
			time.Sleep(time.Duration(30+k*25) * time.Microsecond)
		}
	}
	world.Activate(w)
	defer world.Deactivate()
	K := 1 + r.IntN(3)
	G := 2 + r.IntN(3)
	h := []int{1, 2, 3, 8}[r.IntN(4)]
	var wg sync.WaitGroup
	var failed atomic.Int64
	var firstErr atomic.Value
	for k := 0; k < K; k++ {
		cl := sumdb.NewClient(w.Client(k + 1))
		cl.SetTileHeight(h)
		w.Register(cl, k+1)
		for g := 0; g < G; g++ {
			ids := []int{r.IntN(N), r.IntN(N), r.IntN(N)}
			wg.Add(1)
			go func(k int) {
				defer wg.Done()
				w.Bind(k + 1)
				for _, id := range ids {
					if _, err := cl.Lookup(lg.Mods[id].Path, lg.Mods[id].Vers); err != nil {
						failed.Add(1)
						firstErr.CompareAndSwap(nil, err.Error())
					}
				}
			}(k)
		}
	}
	wg.Wait()
	c.Eval(K * G * 3)
	info := map[string]any{"clients": K, "goroutines": G, "h": h}
	if failed.Load() > 0 {
		c.Violation("honest-growing-log-lookup-failed", caseID, map[string]any{"failed": failed.Load(), "first_error": firstErr.Load(), "info": info, "trace_tail": w.TraceTail(30)})
	}
	c13Drain(c, caseID, w, info)
	c.Class(fmt.Sprintf("growing:clients=%d", K))
	c.Count("growing:config-writes", len(w.ConfigHistory))
	tr, _ := w.Snapshot()
	for _, e := range tr {
		if e.Op == "WriteConfig" && e.Res == "conflict" {
			c.Class("growing:write-conflict-observed")
			break
		}
	}
}

// c13BogusEmptyHead: the operator signs a head of size 0 whose hash is not the hash of the empty tree.
// No log has such a head, so it is inconsistent with every tree, the client's own included: (0) served
// with a record to a client whose stored head is A#5, (1) found as the stored head by a starting client.
// Either way the lookup that meets it must fail and the stored head must stay what it was.
func c13BogusEmptyHead(c *mon.Ctx, key *world.Key) {
	item := 0
	for _, h := range []int{1, 2, 3, 8} {
		for variant := 0; variant < 2; variant++ {
			mine := c.Mine(item)
			item++
			id := fmt.Sprintf("bogus-empty-head:h%d:v%d", h, variant)
			if !mine || !c.Want(id) {
				continue
			}
			c.WAL(id, nil)
			const a = 5
			A := world.NewLog("A", a, a, key)
			w := world.New(c01Name, key, A)
			bogus := world.Sign(world.FormatTreeText(0, [32]byte{1, 2, 3, 4}), key)
			serv := world.ServeLog(A, func() int { return a })
			poison := false
			w.Remote = func(cl int, path string) ([]byte, error) {
				d, err := serv(cl, path)
				if poison && err == nil && strings.HasPrefix(path, "/lookup/") {
					if _, _, rest, ok := world.ParseLookup(d); ok {
						return append(append([]byte(nil), d[:len(d)-len(rest)]...), bogus...), nil
					}
				}
				return d, err
			}
			world.Activate(w)
			cl := sumdb.NewClient(w.Client(1))
			cl.SetTileHeight(h)
			w.Register(cl, 1)
			info := map[string]any{"h": h, "variant": variant}
			var e1, e2 error
			c.Guard(id, func() any { return info }, func() {
				if variant == 0 {
					_, e1 = cl.Lookup(A.Mods[0].Path, A.Mods[0].Vers)
				} else {
					w.Config[c01Name+"/latest"] = append([]byte(nil), bogus...)
				}
				before := append([]byte(nil), w.Config[c01Name+"/latest"]...)
				poison = variant == 0
				_, e2 = cl.Lookup(A.Mods[1].Path, A.Mods[1].Vers)
				after := w.Config[c01Name+"/latest"]
				c.Eval(1)
				info["first_lookup"], info["second_lookup"] = fmt.Sprint(e1), fmt.Sprint(e2)
				info["trace_tail"] = w.TraceTail(16)
				switch {
				case e1 != nil:
					c.Violation("honest-lookup-failed", id, info)
				case e2 == nil:
					c.Violation("lookup-succeeded-on-inconsistent-head", id, info)
				case !bytes.Equal(before, after):
					info["config_before"], info["config_after"] = string(before), string(after)
					c.Violation("stored-head-changed-by-refused-fork", id, info)
				default:
					c.Class(fmt.Sprintf("bogus-empty-head:variant=%d:refused", variant))
				}
			})
			world.Deactivate()
		}
	}
}
