package props

import (
	"fmt"
	"sort"
	"strings"

	"golang.org/x/mod/module"
	"golang.org/x/mod/semver"

	"verif/harness/gen"
	"verif/harness/mon"
	"verif/harness/ref/refsemver"
)

func init() { Registry["C04"] = runC04 }

// invalidKind names the rule a string most visibly breaks (coverage accounting only).
func invalidKind(v string) string {
	switch {
	case v == "":
		return "empty"
	case v[0] != 'v':
		return "no-v"
	case strings.ContainsAny(v, " \n\x00\xff/!_~"):
		return "bad-char"
	case strings.Contains(v, ".."), strings.HasSuffix(v, "."), strings.HasPrefix(v, "v."):
		return "empty-field"
	case strings.HasSuffix(v, "-") || strings.HasSuffix(v, "+") || strings.Contains(v, "-.") || strings.Contains(v, "+."):
		return "empty-ident"
	}
	core := v[1:]
	if i := strings.IndexAny(core, "-+"); i >= 0 {
		if strings.Count(core[:i], ".") < 2 {
			return "short-with-suffix"
		}
		rest := core[i:]
		core = core[:i]
		for _, f := range strings.Split(core, ".") {
			if len(f) > 1 && f[0] == '0' {
				return "leading-zero-core"
			}
		}
		if rest[0] == '-' {
			return "bad-prerelease"
		}
		return "bad-build"
	}
	for _, f := range strings.Split(core, ".") {
		if len(f) > 1 && f[0] == '0' {
			return "leading-zero-core"
		}
	}
	if strings.Count(core, ".") > 2 {
		return "too-many-fields"
	}
	return "other"
}

func cmpKind(a, b string) string {
	pa, pb := refsemver.Parse(a), refsemver.Parse(b)
	switch {
	case !pa.OK && !pb.OK:
		return "both-invalid"
	case !pa.OK || !pb.OK:
		return "one-invalid"
	}
	long := func(s string) string {
		if len(s) > 19 {
			return "big"
		}
		return "small"
	}
	if c := pa.Maj.Cmp(pb.Maj); c != 0 {
		return "major-" + long(pa.Maj.String()) + "-" + long(pb.Maj.String())
	}
	if c := pa.Min.Cmp(pb.Min); c != 0 {
		return "minor-" + long(pa.Min.String()) + "-" + long(pb.Min.String())
	}
	if c := pa.Pat.Cmp(pb.Pat); c != 0 {
		return "patch-" + long(pa.Pat.String()) + "-" + long(pb.Pat.String())
	}
	switch {
	case pa.Pre == pb.Pre:
		if a == b {
			return "identical"
		}
		return "equal-differs-in-build-or-short"
	case pa.Pre == "" || pb.Pre == "":
		return "release-vs-prerelease"
	}
	x, y := strings.Split(pa.Pre[1:], "."), strings.Split(pb.Pre[1:], ".")
	for i := 0; i < len(x) && i < len(y); i++ {
		if x[i] == y[i] {
			continue
		}
		nx, ny := isDigits(x[i]), isDigits(y[i])
		switch {
		case nx && ny:
			if len(x[i]) != len(y[i]) {
				return "pre-num-num-difflen"
			}
			return "pre-num-num-samelen"
		case nx != ny:
			return "pre-num-vs-alpha"
		default:
			return "pre-alpha-alpha"
		}
	}
	return "pre-prefix"
}

func isDigits(s string) bool {
	if s == "" {
		return false
	}
	for i := 0; i < len(s); i++ {
		if s[i] < '0' || s[i] > '9' {
			return false
		}
	}
	return true
}

func sign(c int) int {
	switch {
	case c < 0:
		return -1
	case c > 0:
		return 1
	}
	return 0
}

func runC04(c *mon.Ctx) {
	r := c.Rng
	nStr := c.Share(c.Scale(240_000, 32_000_000))
	nPair := c.Share(c.Scale(1_000_000, 160_000_000))
	nTriple := c.Share(c.Scale(300_000, 48_000_000))

	checkString := func(id, v string) {
		if !c.Want(id) {
			return
		}
		c.WAL(id, []byte(v))
		c.Guard(id, func() any { return mon.QS(v) }, func() {
			p := refsemver.Parse(v)
			c.Eval(1)
			got := semver.IsValid(v)
			if got != p.OK {
				c.Violation("isvalid", id, map[string]any{"v": mon.QS(v), "IsValid": got, "grammar": p.OK})
				return
			}
			if !p.OK {
				c.Class("invalid:" + invalidKind(v))
				if s := semver.Canonical(v) + semver.Major(v) + semver.MajorMinor(v) + semver.Prerelease(v) + semver.Build(v); s != "" {
					c.Violation("accessor-nonempty-for-invalid", id, map[string]any{"v": mon.QS(v), "got": s})
				}
				if s := module.CanonicalVersion(v); s != "" {
					c.Violation("module.CanonicalVersion-nonempty-for-invalid", id, map[string]any{"v": mon.QS(v), "got": s})
				}
				return
			}
			kind := fmt.Sprintf("valid:dots=%d:pre=%t:build=%t", strings.Count(strings.SplitN(strings.SplitN(v, "-", 2)[0], "+", 2)[0], "."), p.Pre != "", p.Build != "")
			c.Class(kind)
			c.Sample("valid-version", 2, v)
			if g := semver.Canonical(v); g != p.Canonical {
				c.Violation("canonical", id, map[string]any{"v": v, "got": g, "want": p.Canonical})
			}
			if g := semver.Major(v); g != "v"+p.MajS {
				c.Violation("major", id, map[string]any{"v": v, "got": g})
			}
			if g := semver.MajorMinor(v); g != "v"+p.MajS+"."+p.MinS {
				c.Violation("majorminor", id, map[string]any{"v": v, "got": g, "want": "v" + p.MajS + "." + p.MinS})
			}
			if g := semver.Prerelease(v); g != p.Pre {
				c.Violation("prerelease", id, map[string]any{"v": v, "got": g, "want": p.Pre})
			}
			if g := semver.Build(v); g != p.Build {
				c.Violation("build", id, map[string]any{"v": v, "got": g, "want": p.Build})
			}
			want := p.Canonical
			if p.Build == "+incompatible" {
				want += "+incompatible"
			}
			if g := module.CanonicalVersion(v); g != want {
				c.Violation("module.CanonicalVersion", id, map[string]any{"v": v, "got": g, "want": want})
			}
			if semver.Compare(v, v) != 0 {
				c.Violation("reflexive", id, map[string]any{"v": v})
			}
		})
	}

	// Strings: generator mix + single-rule mutations of valid versions + random soup.
	pool := make([]string, 0, 4096)
	for i := 0; i < nStr; i++ {
		var v string
		switch r.IntN(10) {
		case 0, 1, 2, 3:
			v = gen.Version(r)
		case 4, 5:
			v = gen.ValidVersion(r, true)
		case 6, 7, 8:
			v = gen.MutateString(r, gen.ValidVersion(r, true))
		default:
			v = gen.RandString(r, 12)
		}
		checkString(fmt.Sprintf("s%d", i), v)
		if len(pool) < 3000 {
			pool = append(pool, v)
		} else if r.IntN(50) == 0 {
			pool[r.IntN(len(pool))] = v
		}
	}
	if len(pool) == 0 {
		return
	}

	// neighbourhood: versions that differ in exactly one place, so that orderings are non-trivial.
	neighbour := func(v string) string {
		p := refsemver.Parse(v)
		if !p.OK {
			return gen.MutateString(r, v)
		}
		core := fmt.Sprintf("v%s.%s.%s", p.Maj, p.Min, p.Pat)
		switch r.IntN(7) {
		case 0:
			return core
		case 1:
			return core + "-" + gen.Pick(r, []string{"0", "1", "2", "10", "a", "A", "alpha", "alpha.1", "alpha.beta", "rc1", "rc1.0", "-", "1a", "a.b.c", "99999999999999999999", "100000000000000000000"})
		case 2:
			if p.Pre != "" {
				return core + p.Pre + "." + gen.Pick(r, []string{"0", "1", "a", "10"})
			}
			return core + "-0"
		case 3:
			return core + p.Pre + "+" + gen.Pick(r, []string{"meta", "incompatible", "1"})
		case 4:
			return fmt.Sprintf("v%s.%s.%s%s", p.Maj, p.Min, gen.Pick(r, []string{"0", "1", "2", "9", "10", "99999999999999999999", "100000000000000000000"}), p.Pre)
		case 5:
			if p.Min.Sign() == 0 && p.Pat.Sign() == 0 && p.Pre == "" {
				return "v" + p.Maj.String()
			}
			if p.Pat.Sign() == 0 && p.Pre == "" {
				return fmt.Sprintf("v%s.%s", p.Maj, p.Min)
			}
			return core + p.Pre
		default:
			return gen.MutateString(r, v)
		}
	}

	for i := 0; i < nPair; i++ {
		id := fmt.Sprintf("p%d", i)
		a := pool[r.IntN(len(pool))]
		var b string
		if r.IntN(3) > 0 {
			b = neighbour(a)
		} else {
			b = pool[r.IntN(len(pool))]
		}
		if !c.Want(id) {
			continue
		}
		c.Eval(1)
		got := semver.Compare(a, b)
		want := refsemver.Compare(a, b)
		c.Class(fmt.Sprintf("cmp:%s:%d", cmpKind(a, b), want))
		if got != want {
			c.Violation("compare", id, map[string]any{"a": mon.QS(a), "b": mon.QS(b), "got": got, "want": want})
			continue
		}
		if back := semver.Compare(b, a); got != -back {
			c.Violation("antisymmetric", id, map[string]any{"a": mon.QS(a), "b": mon.QS(b), "ab": got, "ba": back})
		}
		if (got == 0) != (semver.Canonical(a) == semver.Canonical(b)) {
			c.Violation("zero-iff-canonical-equal", id, map[string]any{"a": mon.QS(a), "b": mon.QS(b), "cmp": got})
		}
		if i < 3 {
			c.Sample("pair", 3, map[string]any{"a": a, "b": b, "cmp": got})
		}
	}

	for i := 0; i < nTriple; i++ {
		id := fmt.Sprintf("t%d", i)
		a := pool[r.IntN(len(pool))]
		b := neighbour(a)
		x := neighbour(b)
		if r.IntN(4) == 0 {
			x = pool[r.IntN(len(pool))]
		}
		if !c.Want(id) {
			continue
		}
		c.Eval(1)
		ab, bx, ax := semver.Compare(a, b), semver.Compare(b, x), semver.Compare(a, x)
		c.Class(fmt.Sprintf("triple:%d:%d:%d", ab, bx, ax))
		// transitivity of <= in every rotation that applies
		if ab <= 0 && bx <= 0 && ax > 0 || ab >= 0 && bx >= 0 && ax < 0 {
			c.Violation("transitive", id, map[string]any{"a": mon.QS(a), "b": mon.QS(b), "c": mon.QS(x), "ab": ab, "bc": bx, "ac": ax})
		}
		if ab == 0 && sign(bx) != sign(ax) {
			c.Violation("equivalence-class-consistency", id, map[string]any{"a": mon.QS(a), "b": mon.QS(b), "c": mon.QS(x), "ab": ab, "bc": bx, "ac": ax})
		}
	}

	// Sort: permutation ordered by (Compare, string).
	checkSort := func(id, family string, l []string) {
		in := append([]string(nil), l...)
		semver.Sort(l)
		c.Eval(1)
		c.Class(family)
		a, b := append([]string(nil), in...), append([]string(nil), l...)
		sort.Strings(a)
		sort.Strings(b)
		perm := len(a) == len(b)
		for j := range a {
			if perm && a[j] != b[j] {
				perm = false
			}
		}
		ordered := sort.SliceIsSorted(l, func(x, y int) bool {
			cc := refsemver.Compare(l[x], l[y])
			return cc < 0 || cc == 0 && l[x] < l[y]
		})
		if !perm || !ordered {
			c.Violation("sort", id, map[string]any{"in": fmt.Sprintf("%q", in), "out": fmt.Sprintf("%q", l), "permutation": perm, "ordered": ordered})
		}
		// semver.ByVersion agrees
		l2 := append([]string(nil), in...)
		sort.Sort(semver.ByVersion(l2))
		for j := range l2 {
			if l2[j] != l[j] {
				c.Violation("byversion-vs-sort", id, map[string]any{"in": fmt.Sprintf("%q", in)})
				break
			}
		}
	}
	nSort := c.Scale(40, 2400)
	for i := 0; i < c.Share(nSort); i++ {
		id := fmt.Sprintf("sort%d", i)
		n := 2 + r.IntN(300)
		l := make([]string, n)
		for j := range l {
			if j > 0 && r.IntN(2) == 0 {
				l[j] = neighbour(l[r.IntN(j)])
			} else {
				l[j] = pool[r.IntN(len(pool))]
			}
		}
		if !c.Want(id) {
			continue
		}
		checkSort(id, "sort", l)
	}
	// short lists that arrive almost in order: ascending by precedence already, with the members of a
	// tie (v1, v1.0, v1.0.0+a, v1.0.0+b; invalid strings) in descending string order
	nShort := c.Scale(20_000, 1_000_000)
	for i := 0; i < c.Share(nShort); i++ {
		id := fmt.Sprintf("sorts%d", i)
		n := 2 + r.IntN(4)
		l := make([]string, n)
		for j := range l {
			if j > 0 && r.IntN(3) > 0 {
				l[j] = neighbour(l[r.IntN(j)])
			} else {
				l[j] = pool[r.IntN(len(pool))]
			}
		}
		family := "sort:short"
		if r.IntN(3) > 0 {
			sort.SliceStable(l, func(x, y int) bool {
				cc := refsemver.Compare(l[x], l[y])
				return cc < 0 || cc == 0 && l[x] > l[y]
			})
			family = "sort:short:ascending-with-ties-reversed"
		}
		if !c.Want(id) {
			continue
		}
		checkSort(id, family, l)
	}
}
