package props

import (
	"bytes"
	"encoding/base64"
	"encoding/binary"
	"errors"
	"fmt"
	"hash/crc32"
	"math/rand/v2"
	"sort"
	"strings"
	"unicode"
	"unicode/utf8"

	"golang.org/x/mod/sumdb/note"

	"verif/harness/gen"
	"verif/harness/mon"
	"verif/harness/ref/refnote"
)

// C07 — a signed note opens only with verified signatures over exactly its text.
//
// The monitor is a call-log oracle: every note.Verifier handed to note.Open is an
// instrumented wrapper that records each Verify(msg, sig) call and its result (and
// can be scripted to lie); every note.Verifiers is a wrapper that can be scripted
// to return a mismatched verifier or an arbitrary error. Messages are produced by
// note.Sign (round trips) or by ref/refnote (adversarial layouts, corrupted
// signatures, byte-level mutations).

func init() { Registry["C07"] = runC07 }

// ---------------------------------------------------------------------------------------------
// instrumented verifiers

type c07NH struct {
	name string
	hash uint32
}

func (k c07NH) String() string { return fmt.Sprintf("%s+%08x", k.name, k.hash) }

const (
	c07Honest   = iota // answers with the real note.NewVerifier verifier of its key
	c07LieTrue         // accepts everything
	c07LieFalse        // rejects everything
)

var c07ModeName = []string{"honest", "lie-true", "lie-false"}

type c07Call struct {
	ver      *c07Ver
	msg, sig []byte
	res      bool
}

// c07Ver is an instrumented note.Verifier. name/hash are what it reports; key is
// the Ed25519 key it verifies with in honest mode.
type c07Ver struct {
	name string
	hash uint32
	key  *refnote.Key
	real note.Verifier // note.NewVerifier(key.VerifierString()); nil if that failed
	mode int
	w    *c07World
}

func (v *c07Ver) Name() string    { return v.name }
func (v *c07Ver) KeyHash() uint32 { return v.hash }
func (v *c07Ver) id() c07NH       { return c07NH{v.name, v.hash} }

// verdict is what this verifier answers for (text, sig): the oracle's prediction.
func (v *c07Ver) verdict(text string, sig []byte) bool {
	switch v.mode {
	case c07LieTrue:
		return true
	case c07LieFalse:
		return false
	}
	return v.w.refVerify(v.key, text, sig)
}

type c07VKey struct {
	k         *refnote.Key
	text, sig string
}

// refVerify is key.Verify, memoised per case (the oracle asks the same question several times).
func (w *c07World) refVerify(k *refnote.Key, text string, sig []byte) bool {
	if w.memo == nil {
		w.memo = map[c07VKey]bool{}
	}
	mk := c07VKey{k, text, string(sig)}
	if r, ok := w.memo[mk]; ok {
		return r
	}
	r := k.Verify(text, sig)
	w.memo[mk] = r
	return r
}

func (v *c07Ver) Verify(msg, sig []byte) bool {
	call := c07Call{ver: v, msg: append([]byte{}, msg...), sig: append([]byte{}, sig...)}
	switch v.mode {
	case c07LieTrue:
		call.res = true
	case c07LieFalse:
		call.res = false
	default:
		want := v.w.refVerify(v.key, string(call.msg), call.sig)
		call.res = want
		if v.real != nil {
			call.res = v.real.Verify(msg, sig)
			if call.res != want {
				v.w.realDiff = append(v.w.realDiff, fmt.Sprintf("%s: NewVerifier verifier says %t, crypto/ed25519 says %t for msg=%q sig=%x", v.id(), call.res, want, call.msg, call.sig))
			}
		}
	}
	v.w.log = append(v.w.log, call)
	return call.res
}

const (
	c07Unknown = iota
	c07Known
	c07Mismatch
	c07LookupErr
)

type c07Resp struct {
	v   *c07Ver
	err error
}

// c07World is the set of known verifiers of one case: either a real
// note.VerifierList over instrumented verifiers (list mode) or a scripted
// note.Verifiers (custom mode). It owns the call log.
type c07World struct {
	vers       []*c07Ver
	list       note.Verifiers
	custom     map[c07NH]c07Resp
	useNil     bool
	log        []c07Call
	lookups    int
	lookupDiff []string
	realDiff   []string
	memo       map[c07VKey]bool
}

func (e *c07Env) ver(w *c07World, k *refnote.Key, mode int) *c07Ver {
	return &c07Ver{name: k.Name, hash: k.KeyHash(), key: k, real: e.realVerifier(k), mode: mode, w: w}
}

// listWorld builds a list-mode world from (key, mode) pairs.
func (e *c07Env) listWorld(keys []*refnote.Key, modes []int) *c07World {
	w := &c07World{}
	var l []note.Verifier
	for i, k := range keys {
		m := c07Honest
		if modes != nil {
			m = modes[i]
		}
		v := e.ver(w, k, m)
		w.vers = append(w.vers, v)
		l = append(l, v)
	}
	w.list = note.VerifierList(l...)
	// the caller's slice is the caller's: reusing it afterwards must not change what the list knows
	for i := range l {
		l[i] = e.decoy
	}
	return w
}

// customWorld builds a scripted world; entries are added with set.
func (e *c07Env) customWorld() *c07World { return &c07World{custom: map[c07NH]c07Resp{}} }

func (w *c07World) set(k c07NH, r c07Resp) { w.custom[k] = r }

func (w *c07World) known() note.Verifiers {
	if w.useNil {
		return nil
	}
	return w
}

// expect predicts what a lookup of (name, hash) yields.
func (w *c07World) expect(name string, hash uint32) (int, *c07Ver) {
	k := c07NH{name, hash}
	if w.useNil {
		return c07Unknown, nil
	}
	if w.custom != nil {
		r, ok := w.custom[k]
		switch {
		case !ok:
			return c07Unknown, nil
		case r.err != nil:
			return c07LookupErr, nil
		case r.v.id() != k:
			return c07Mismatch, r.v
		}
		return c07Known, r.v
	}
	var found *c07Ver
	n := 0
	for _, v := range w.vers {
		if v.id() == k {
			found = v
			n++
		}
	}
	switch n {
	case 0:
		return c07Unknown, nil
	case 1:
		return c07Known, found
	}
	return c07LookupErr, nil // ambiguous
}

func (w *c07World) Verifier(name string, hash uint32) (note.Verifier, error) {
	w.lookups++
	if w.custom != nil {
		r, ok := w.custom[c07NH{name, hash}]
		if !ok {
			return nil, &note.UnknownVerifierError{Name: name, KeyHash: hash}
		}
		if r.err != nil {
			return nil, r.err
		}
		return r.v, nil
	}
	v, err := w.list.Verifier(name, hash)
	kind, want := w.expect(name, hash)
	_, unk := err.(*note.UnknownVerifierError)
	okay := false
	switch kind {
	case c07Unknown:
		okay = unk
	case c07Known:
		okay = err == nil && v == note.Verifier(want)
	case c07LookupErr:
		okay = err != nil && !unk
	}
	if !okay {
		w.lookupDiff = append(w.lookupDiff, fmt.Sprintf("VerifierList lookup %s+%08x: got verifier=%v err=%v, %d list entries carry that name and hash", name, hash, v != nil, err, w.count(c07NH{name, hash})))
	}
	return v, err
}

func (w *c07World) count(k c07NH) int {
	n := 0
	for _, v := range w.vers {
		if v.id() == k {
			n++
		}
	}
	return n
}

func (w *c07World) describe() []string {
	var out []string
	if w.useNil {
		return []string{"<nil Verifiers>"}
	}
	if w.custom != nil {
		for k, r := range w.custom {
			switch {
			case r.err != nil:
				out = append(out, fmt.Sprintf("custom %s -> error %q", k, r.err))
			default:
				out = append(out, fmt.Sprintf("custom %s -> verifier %s (%s)", k, r.v.id(), c07ModeName[r.v.mode]))
			}
		}
		sort.Strings(out)
		return out
	}
	for _, v := range w.vers {
		out = append(out, fmt.Sprintf("list %s (%s)", v.id(), c07ModeName[v.mode]))
	}
	return out
}

// ---------------------------------------------------------------------------------------------
// environment of one batch: keys, real verifiers and signers

type c07Env struct {
	c      *mon.Ctx
	pool   []*refnote.Key  // named keys, incl. two different keys named "alice"
	col    [2]*refnote.Key // two different keys with the same name AND the same key hash
	many   []*refnote.Key  // 110 further keys for the signature-count family
	reals  map[*refnote.Key]note.Verifier
	decoy  note.Verifier // a verifier for a key no case uses; written over slices handed to VerifierList
	signer map[*refnote.Key]note.Signer
}

var c07PoolNames = []string{"alice", "bob", "alice", "carol/x", "sum.golang.org", "世界", "é.example/p-q_r", "—",
	// runes whose low byte is the space or the plus sign, and a letter whose UTF-8 form ends in the byte 0xA0
	"\u0120\u4e20.example", "\u012b\u4e2b.example/\u042b", "voil\u00e0.example"}

func c07NewEnv(c *mon.Ctx) *c07Env {
	e := &c07Env{c: c, reals: map[*refnote.Key]note.Verifier{}, signer: map[*refnote.Key]note.Signer{}}
	g := c.GlobalRng("keys")
	for _, n := range c07PoolNames {
		e.pool = append(e.pool, refnote.NewKey(n, refnote.Seed("c07-pool", g.Uint64())))
	}
	// found offline: equal 32-bit key hash 3cdacc03 for the same name
	e.col[0] = refnote.NewKey("alice", refnote.Seed("c07-collide", 57139))
	e.col[1] = refnote.NewKey("alice", refnote.Seed("c07-collide", 97334))
	dk := refnote.NewKey("decoy.example", refnote.Seed("c07-decoy", 1))
	e.decoy = &c07Ver{name: dk.Name, hash: dk.KeyHash(), key: dk, mode: c07Honest, w: &c07World{}}
	for i := 0; i < 110; i++ {
		e.many = append(e.many, refnote.NewKey(fmt.Sprintf("k%d.example", i), refnote.Seed("c07-many", g.Uint64())))
	}
	return e
}

func (e *c07Env) allKeys() []*refnote.Key {
	out := append([]*refnote.Key{}, e.pool...)
	out = append(out, e.col[0], e.col[1])
	return append(out, e.many...)
}

func (e *c07Env) realVerifier(k *refnote.Key) note.Verifier {
	if v, ok := e.reals[k]; ok {
		return v
	}
	v, err := note.NewVerifier(k.VerifierString())
	e.c.Eval(1)
	if err != nil || v == nil || v.Name() != k.Name || v.KeyHash() != k.KeyHash() {
		e.c.Violation("newverifier-rejects-or-misreads-documented-key", "key:"+k.VerifierString(), map[string]any{"vkey": k.VerifierString(), "err": fmt.Sprint(err)})
		v = nil
	} else {
		e.c.Class("keys:newverifier-accepts-reference-key")
	}
	e.reals[k] = v
	return v
}

// c07Signer is a harness note.Signer backed by the reference key; it records what it was asked to sign.
type c07Signer struct {
	name   string
	key    *refnote.Key
	signed *[]string
}

func (s *c07Signer) Name() string    { return s.name }
func (s *c07Signer) KeyHash() uint32 { return s.key.KeyHash() }
func (s *c07Signer) Sign(msg []byte) ([]byte, error) {
	*s.signed = append(*s.signed, string(msg))
	return s.key.SignText(string(msg)), nil
}

// c07FailSigner always fails; c07BadNameSigner has a name Sign must refuse.
type c07FailSigner struct{ key *refnote.Key }

func (s *c07FailSigner) Name() string    { return s.key.Name }
func (s *c07FailSigner) KeyHash() uint32 { return s.key.KeyHash() }
func (s *c07FailSigner) Sign(msg []byte) ([]byte, error) {
	return nil, errors.New("signer unavailable")
}

// c07PoisonSign performs a Sign call that fails only after an earlier signer has already produced
// its signature (a later signer errors, or has an invalid name). Whatever state such a call leaves
// behind must not leak into later Sign calls, which are checked right afterwards.
func (e *c07Env) c07PoisonSign(r *rand.Rand) {
	perm := r.Perm(len(e.pool))
	A, B := e.pool[perm[0]], e.pool[perm[1]]
	good := e.realSigner(A)
	if good == nil {
		return
	}
	var bad note.Signer = &c07FailSigner{key: B}
	if r.IntN(2) == 0 {
		bad = &c07Signer{name: "bad name+x", key: B, signed: new([]string)}
	}
	_, err := note.Sign(&note.Note{Text: "poison text of an earlier, failed call\n"}, good, bad)
	if err == nil {
		e.c.Class("unspecified:sign-with-failing-signer-succeeded")
		return
	}
	e.c.Class("rt:failed-sign-call-before-the-checked-one")
}

// c07OddNames: names the message format cannot carry (spaces, '+', invalid UTF-8, empty) and unusual
// ones it can, given to a co-signer or to a signature the note already carries. Sign may refuse; when
// it returns a message, the holder of the good signer's key must be able to open it and get the text
// back ("signing with any set of signers and opening ... returns the same text").
var c07OddNameList = []string{"witness\xff", "x\xc3", "\xe2\x80", "a b", "a+b", "", "nbsp\u00a0x", "tab\tname", "nl\nname", "em\u2003sp", " lead", "\u00a0lead", "\n\n\u2014 odd", "\u3000x", "trail ", "ok-name", "名前", "é", "\ufffd", "a\u200bb"}

func (e *c07Env) c07OddNames(r *rand.Rand, id, text string) {
	c := e.c
	perm := r.Perm(len(e.pool))
	A, B := e.pool[perm[0]], e.pool[perm[1]]
	good := e.realSigner(A)
	if good == nil {
		return
	}
	name := gen.Pick(r, c07OddNameList)
	n := &note.Note{Text: text}
	signers := []note.Signer{good}
	how := "co-signer"
	carried := note.Signature{Name: name, Hash: B.KeyHash(), Base64: refnote.EncodeSig(B.KeyHash(), B.SignText(text))}
	switch r.IntN(3) {
	case 0:
		odd := &c07Signer{name: name, key: B, signed: new([]string)}
		if r.IntN(2) == 0 {
			signers = []note.Signer{odd, good}
		} else {
			signers = append(signers, odd)
		}
	case 1:
		how = "existing-verified-sig"
		n.Sigs = []note.Signature{carried}
	default:
		how = "existing-unverified-sig"
		n.UnverifiedSigs = []note.Signature{carried}
	}
	ctx := map[string]any{"family": "rt-odd-names", "how": how, "name": mon.QS(name), "text": mon.QS(text), "good": A.Name}
	var msg []byte
	var err error
	if c.Guard(id, func() any { return ctx }, func() { msg, err = note.Sign(n, signers...) }) {
		return
	}
	c.Eval(1)
	kind := "odd-but-carriable"
	if name == "" || !utf8.ValidString(name) || strings.ContainsAny(name, "+") || strings.IndexFunc(name, unicode.IsSpace) >= 0 {
		kind = "uncarriable"
	}
	if err != nil {
		if kind == "odd-but-carriable" {
			// non-empty, valid UTF-8, no Unicode space, no '+': a name the format carries, so a valid signer
			ctx["err"] = err.Error()
			c.Violation("sign-refuses-a-valid-signer-name", id, ctx)
			return
		}
		c.Class("oddname:" + how + ":" + kind + ":sign-refused")
		return
	}
	if kind == "uncarriable" {
		// "The server name must be non-empty, well-formed UTF-8 containing neither Unicode spaces nor
		// plus": a message with such a name in a signature line is not a signed note, whoever wrote it
		ctx["msg"] = mon.QS(string(msg))
		c.Violation("sign-accepts-a-name-the-format-cannot-carry", id, ctx)
		return
	}
	var got *note.Note
	var oerr error
	w := e.listWorld([]*refnote.Key{A}, nil)
	if c.Guard(id, func() any { return ctx }, func() { got, oerr = note.Open(msg, w.known()) }) {
		return
	}
	if oerr != nil || got == nil || got.Text != text {
		ctx["msg"] = mon.QS(string(msg))
		ctx["open_err"] = fmt.Sprint(oerr)
		c.Violation("signed-message-does-not-open-with-the-same-text", id, ctx)
		return
	}
	c.Class("oddname:" + how + ":" + kind + ":signed-and-opens")
}

func (e *c07Env) realSigner(k *refnote.Key) note.Signer {
	if s, ok := e.signer[k]; ok {
		return s
	}
	s, err := note.NewSigner(k.SignerString())
	e.c.Eval(1)
	if err != nil || s == nil || s.Name() != k.Name || s.KeyHash() != k.KeyHash() {
		e.c.Violation("newsigner-rejects-or-misreads-documented-key", "key:"+k.VerifierString(), map[string]any{"vkey": k.VerifierString(), "err": fmt.Sprint(err)})
		s = nil
	} else {
		e.c.Class("keys:newsigner-accepts-reference-key")
	}
	e.signer[k] = s
	return s
}

// ---------------------------------------------------------------------------------------------
// the oracle

// c07Origin describes a case whose signature lines were all made honestly over
// one text and whose verifiers are all honest: then no other text may ever open.
type c07Origin struct {
	text     string
	embedded []string // further texts of which the message contains an honest signature (inside its text)
}

func (o *c07Origin) allows(t string) bool {
	if t == o.text {
		return true
	}
	for _, e := range o.embedded {
		if t == e {
			return true
		}
	}
	return false
}

type c07Res struct {
	opened      bool
	n           *note.Note
	err         error
	outcome     string
	refOK       bool
	refText     string
	refSigs     []refnote.Sig
	mustFail    string
	unspecified string
	knownGood   int
	violated    bool
}

func c07NoteDesc(n *note.Note) any {
	if n == nil {
		return nil
	}
	f := func(l []note.Signature) []string {
		var o []string
		for _, s := range l {
			o = append(o, fmt.Sprintf("%s+%08x %s", s.Name, s.Hash, s.Base64))
		}
		return o
	}
	return map[string]any{"text": mon.QS(n.Text), "sigs": f(n.Sigs), "unverified": f(n.UnverifiedSigs)}
}

func c07ErrKind(err error) string {
	var u *note.UnverifiedNoteError
	var i *note.InvalidSignatureError
	switch {
	case err == nil:
		return "opened"
	case errors.As(err, &u):
		return "rejected-unverified"
	case errors.As(err, &i):
		return "rejected-invalid-signature"
	case err.Error() == "malformed note":
		return "rejected-malformed"
	}
	return "rejected-other-error"
}

// judge opens msg against w and applies every monitor of the property.
func (e *c07Env) judge(id string, msg []byte, w *c07World, org *c07Origin, ctx any) c07Res {
	c := e.c
	var res c07Res
	snapshot := append([]byte{}, msg...)
	w.log, w.lookupDiff, w.realDiff = nil, nil, nil
	c.WAL(id, snapshot)
	// a third of the messages are opened twice with the very same verifier objects; the second opening
	// is the one judged, and it must end like the first (a retry of a rejected message stays rejected)
	rehearsal := ""
	if len(snapshot)%3 == 0 {
		var n0 *note.Note
		var err0 error
		if c.Guard(id, func() any { return mon.Q(snapshot) }, func() { n0, err0 = note.Open(append([]byte{}, snapshot...), w.known()) }) {
			res.violated = true
			res.outcome = "panic"
			return res
		}
		rehearsal = c07ErrKind(err0)
		if err0 == nil && n0 != nil {
			rehearsal += ":" + n0.Text
		}
		w.log, w.lookupDiff, w.realDiff = nil, nil, nil
	}
	panicked := c.Guard(id, func() any { return mon.Q(snapshot) }, func() { res.n, res.err = note.Open(msg, w.known()) })
	c.Eval(1)
	if panicked {
		res.violated = true
		res.outcome = "panic"
		return res
	}
	msg = snapshot
	res.opened = res.err == nil
	res.outcome = c07ErrKind(res.err)
	if rehearsal != "" {
		second := res.outcome
		if res.err == nil && res.n != nil {
			second += ":" + res.n.Text
		}
		if second != rehearsal {
			res.violated = true
			c.Violation("same-message-opens-differently-the-second-time", id, map[string]any{"msg": mon.Q(msg), "known": w.describe(), "first": mon.QS(rehearsal), "second": mon.QS(second), "case": ctx})
		} else {
			c.Class("opened-twice:same-outcome")
		}
	}
	viol := func(class string, extra any) {
		res.violated = true
		c.Violation(class, id, map[string]any{"msg": mon.Q(msg), "known": w.describe(), "err": fmt.Sprint(res.err), "note": c07NoteDesc(res.n),
			"case": ctx, "why": extra, "verify_calls": c07LogDesc(w.log)})
	}
	if res.opened && res.n == nil {
		viol("open-returned-nil-note-and-nil-error", nil)
		res.opened = false
		return res
	}

	// ---- predictions from the documented format and the verifiers' (scripted) behaviour -------
	res.refText, res.refSigs, res.refOK = refnote.Parse(msg)
	expVer := map[c07NH]bool{}
	expUnv := map[string]bool{}
	hasMismatch := false
	if res.refOK {
		if len(res.refSigs) > 100 {
			res.unspecified = "more-than-100-signature-lines" // "an implementation can reject"
		}
		first := map[c07NH]bool{}
		for _, s := range res.refSigs {
			if len(s.Sig) == 0 {
				res.unspecified = "empty-signature" // "4+n bytes": n = 0 is not ruled in or out by the doc
			}
			k := c07NH{s.Name, s.Hash}
			kind, v := w.expect(s.Name, s.Hash)
			switch kind {
			case c07Unknown:
				expUnv[fmt.Sprintf("%s %08x %s", s.Name, s.Hash, s.Base64)] = true
			case c07LookupErr:
				if res.mustFail == "" {
					res.mustFail = "verifiers-error"
				}
			case c07Mismatch:
				hasMismatch = true
				if res.unspecified == "" {
					res.unspecified = "mismatched-verifier-returned"
				}
			case c07Known:
				good := v.verdict(res.refText, s.Sig)
				if !first[k] {
					first[k] = true
					if good {
						res.knownGood++
						expVer[k] = true
					} else if res.mustFail == "" {
						res.mustFail = "bad-first-signature-of-known-key"
					}
				} else if !good && res.unspecified == "" {
					// documented de-duplication: a repeated line of a known key need not be looked at
					res.unspecified = "repeated-line-of-known-key-is-bad"
				}
			}
		}
	}
	for _, d := range w.lookupDiff {
		viol("verifierlist-lookup-wrong", d)
	}
	for _, d := range w.realDiff {
		viol("newverifier-verdict-differs-from-ed25519", d)
	}

	if !res.opened {
		if res.refOK && res.mustFail == "" && res.unspecified == "" && res.knownGood > 0 {
			viol("valid-verified-note-rejected", fmt.Sprintf("%d known keys have a good first signature over the text, nothing is wrong with the message", res.knownGood))
		}
		return res
	}

	// ---- Open returned a note --------------------------------------------------------------
	n := res.n
	if len(n.Sigs) == 0 {
		viol("opened-without-verified-signature", nil)
	}
	if !res.refOK {
		// The documented message form (valid UTF-8 without control characters, text ending in a newline,
		// blank line, signature lines) is what Open enforces today, but the property statement does not
		// require rejecting other forms as long as every listed signature was verified over the returned
		// text (checked below from the call log). Counted, not judged.
		c.Class("unspecified:opened-message-not-in-documented-form")
	} else if n.Text != res.refText {
		viol("returned-text-is-not-the-text-of-the-message", map[string]any{"text_of_message": mon.QS(res.refText)})
	}
	if org != nil && !org.allows(n.Text) {
		viol("modified-text-opened", map[string]any{"signed_text": mon.QS(org.text), "texts_signed_inside_the_text": len(org.embedded)})
	}
	if res.mustFail != "" {
		viol("opened-despite-"+res.mustFail, nil)
	}
	firstCall := map[*c07Ver]bool{}
	for _, cl := range w.log {
		if !firstCall[cl.ver] {
			firstCall[cl.ver] = true
			if !cl.res {
				viol("opened-although-first-verify-of-a-known-key-returned-false", cl.ver.id().String())
			}
		}
	}
	inMsg := map[string]bool{}
	for _, s := range res.refSigs {
		inMsg[s.Name+" "+s.Base64] = true
	}
	gotVer := map[c07NH]bool{}
	for _, s := range n.Sigs {
		c.Eval(1)
		c.Class("oracle:listed-signature-checked-against-call-log")
		gotVer[c07NH{s.Name, s.Hash}] = true
		raw, err := base64.StdEncoding.DecodeString(s.Base64)
		if err != nil || len(raw) < 4 || binary.BigEndian.Uint32(raw) != s.Hash {
			viol("listed-signature-inconsistent", fmt.Sprintf("%s+%08x %s", s.Name, s.Hash, s.Base64))
			continue
		}
		if res.refOK && !inMsg[s.Name+" "+s.Base64] {
			viol("listed-signature-not-in-message", fmt.Sprintf("%s %s", s.Name, s.Base64))
		}
		found := false
		for _, cl := range w.log {
			if cl.res && cl.ver.name == s.Name && cl.ver.hash == s.Hash && bytes.Equal(cl.msg, []byte(n.Text)) && bytes.Equal(cl.sig, raw[4:]) {
				found = true
				break
			}
		}
		if !found {
			viol("listed-signature-not-verified-over-returned-text", fmt.Sprintf("no Verify(msg == Note.Text, sig == %x) == true by the verifier of %s+%08x in the call log", raw[4:], s.Name, s.Hash))
		}
		// ground truth where the verifier of that key is honest
		if kind, v := w.expect(s.Name, s.Hash); kind == c07Known && v.mode == c07Honest && !w.refVerify(v.key, n.Text, raw[4:]) {
			viol("listed-signature-is-not-a-signature-of-returned-text", fmt.Sprintf("%s+%08x", s.Name, s.Hash))
		}
	}
	if res.refOK && !hasMismatch && len(res.refSigs) <= 100 {
		gotUnv := map[string]bool{}
		for _, s := range n.UnverifiedSigs {
			gotUnv[fmt.Sprintf("%s %08x %s", s.Name, s.Hash, s.Base64)] = true
		}
		if !c07SameSet(gotUnv, expUnv) {
			viol("unverified-signatures-are-not-the-unknown-key-lines", map[string]any{"want": c07Keys(expUnv)})
		}
		ev := map[string]bool{}
		for k := range expVer {
			ev[k.String()] = true
		}
		gv := map[string]bool{}
		for k := range gotVer {
			gv[k.String()] = true
		}
		if res.mustFail == "" && !c07SameSet(gv, ev) {
			viol("verified-signatures-are-not-the-known-key-lines", map[string]any{"want": c07Keys(ev)})
		}
	}
	return res
}

func c07SameSet(a, b map[string]bool) bool {
	if len(a) != len(b) {
		return false
	}
	for k := range a {
		if !b[k] {
			return false
		}
	}
	return true
}

func c07Keys(m map[string]bool) []string {
	var o []string
	for k := range m {
		o = append(o, k)
	}
	sort.Strings(o)
	return o
}

func c07LogDesc(l []c07Call) []string {
	var o []string
	for i, cl := range l {
		if i == 8 {
			o = append(o, fmt.Sprintf("... %d more", len(l)-8))
			break
		}
		m := cl.msg
		if len(m) > 200 {
			m = m[:200]
		}
		o = append(o, fmt.Sprintf("%s.Verify(msg=%q, sig=%x) = %t", cl.ver.id(), m, cl.sig, cl.res))
	}
	return o
}

// ---------------------------------------------------------------------------------------------
// text generator (valid by construction + rule-targeted invalidations)

var c07Words = []string{"hello", "world", "go.sum database tree", "12345", "a b c", "line+plus", "x", "The quick brown fox",
	"h1:abcdefghijklmnopqrstuvwxyzABCDEFGHIJKLMNOPQ=", "example.com/m v1.0.0/go.mod h1:AAAA=", " leading space", "trailing space ", "~", "\x7f"}
var c07Uni = []string{"世界", "é", "—", "— ", " ", "�", "\U0001F600", "\u0085", " ", "ａｂｃ", "é", "　", "– x y"}

func c07Bytes(r *rand.Rand, n int) []byte {
	b := make([]byte, n)
	for i := range b {
		b[i] = byte(r.IntN(256))
	}
	return b
}

// sigLike returns a line (without newline) that looks like a signature line.
func (e *c07Env) sigLike(r *rand.Rand, prefix string, emb *[]string) string {
	k := e.pool[r.IntN(len(e.pool))]
	switch r.IntN(9) {
	case 0:
		return "— fake AAAAAAAA"
	case 1:
		return "— name x"
	case 2:
		return "— "
	case 3:
		return "—"
	case 4:
		return "— a b c"
	case 5: // a real signature of the text so far: the text embeds a complete signed note
		*emb = append(*emb, prefix)
		return strings.TrimSuffix(refnote.SigLine(k, prefix), "\n")
	case 6:
		*emb = append(*emb, "some other text\n")
		return strings.TrimSuffix(refnote.SigLine(k, "some other text\n"), "\n")
	case 7:
		return strings.TrimSuffix(refnote.RawLine(k.Name, k.KeyHash(), c07Bytes(r, 64)), "\n")
	}
	return strings.TrimSuffix(refnote.RawLine("nobody", r.Uint32(), c07Bytes(r, 64)), "\n")
}

var c07TextClasses = []string{"plain", "blank-lines", "sig-like", "blank-then-sig-like", "nested-note", "unicode", "ends-blank", "only-newlines", "long", "mixed"}

func c07Insert(lines []string, pos int, s string) []string {
	out := append([]string{}, lines[:pos]...)
	out = append(out, s)
	return append(out, lines[pos:]...)
}

func (e *c07Env) validText(r *rand.Rand) (string, string) {
	t, cls, _ := e.validTextEmb(r)
	return t, cls
}

// validTextEmb also returns the texts of which the generated text contains an honest signature line.
func (e *c07Env) validTextEmb(r *rand.Rand) (string, string, []string) {
	var emb []string
	cls := c07TextClasses[r.IntN(len(c07TextClasses))]
	var lines []string
	for i, n := 0, 1+r.IntN(4); i < n; i++ {
		lines = append(lines, c07Words[r.IntN(len(c07Words))])
	}
	join := func() string { return strings.Join(lines, "\n") + "\n" }
	apply := func(cls string) {
		switch cls {
		case "blank-lines":
			for i, n := 0, 1+r.IntN(2); i < n; i++ {
				lines = c07Insert(lines, r.IntN(len(lines)), "") // never last: that is "ends-blank"
			}
		case "sig-like":
			pos := r.IntN(len(lines) + 1)
			lines = c07Insert(lines, pos, e.sigLike(r, strings.Join(lines[:pos], "\n")+"\n", &emb))
		case "blank-then-sig-like":
			lines = append(lines, "")
			for i, n := 0, 1+r.IntN(2); i < n; i++ {
				lines = append(lines, e.sigLike(r, "x\n", &emb))
			}
		case "nested-note":
			inner := join()
			emb = append(emb, inner)
			k := e.pool[r.IntN(len(e.pool))]
			lines = append(lines, "", strings.TrimSuffix(refnote.SigLine(k, inner), "\n"))
		case "unicode":
			for i, n := 0, 1+r.IntN(3); i < n; i++ {
				j := r.IntN(len(lines))
				lines[j] += c07Uni[r.IntN(len(c07Uni))]
			}
			if r.IntN(3) == 0 {
				lines = c07Insert(lines, r.IntN(len(lines)+1), c07Uni[r.IntN(len(c07Uni))])
			}
		case "ends-blank":
			for i, n := 0, 1+r.IntN(2); i < n; i++ {
				lines = append(lines, "")
			}
		case "only-newlines":
			lines = make([]string, 1+r.IntN(3))
		case "long":
			lines[r.IntN(len(lines))] = strings.Repeat(c07Words[r.IntN(len(c07Words))]+" ", 100+r.IntN(400))
		}
	}
	if cls == "mixed" {
		for i := 0; i < 2+r.IntN(2); i++ {
			apply(c07TextClasses[r.IntN(len(c07TextClasses)-3)]) // not only-newlines/long/mixed
		}
	} else {
		apply(cls)
	}
	return join(), cls, emb
}

var c07Ctl = []string{"\t", "\r", "\x00", "\x1f", "\x0b", "\x1b", "\r\n"}
var c07BadUTF8 = []string{"\xff", "\xc0\x80", "\xed\xa0\x80", "\xe4\xb8", "\x80", "\xf8\x88\x80\x80\x80"}

// invalidText breaks exactly one rule of a valid text.
func (e *c07Env) invalidText(r *rand.Rand) (string, string) {
	t, _ := e.validText(r)
	at := func(ins string) string {
		ru := []rune(t)
		p := r.IntN(len(ru) + 1)
		return string(ru[:p]) + ins + string(ru[p:])
	}
	switch r.IntN(3) {
	case 0:
		if r.IntN(2) == 0 {
			t = strings.TrimRight(t, "\n")
		} else {
			t += c07Words[r.IntN(len(c07Words))]
		}
		if t == "" {
			return t, "invalid:empty"
		}
		return t, "invalid:no-final-newline"
	case 1:
		return at(c07Ctl[r.IntN(len(c07Ctl))]), "invalid:control"
	}
	return at(c07BadUTF8[r.IntN(len(c07BadUTF8))]), "invalid:utf8"
}

// ---------------------------------------------------------------------------------------------
// driver

type c07Fam struct {
	name string
	run  func(e *c07Env, r *rand.Rand, id string, k int)
}

// one entry per slot of a 20-case cycle
var c07Cycle []c07Fam

func runC07(c *mon.Ctx) {
	e := c07NewEnv(c)
	for _, k := range e.allKeys() {
		e.realVerifier(k)
		e.realSigner(k)
	}
	e.keyStrings()
	r := c.Rng
	total := c.Share(c.Scale(80_000, 2_400_000))
	ord := map[string]int{}
	for i := 0; i < total; i++ {
		seed := r.Uint64()
		fam := c07Cycle[i%len(c07Cycle)]
		k := ord[fam.name] // ordinal of the case inside its family: drives the enumerated scenario
		ord[fam.name]++
		id := fmt.Sprintf("%s:%d", fam.name, i)
		if !c.Want(id) {
			continue
		}
		cr := rand.New(rand.NewPCG(seed, uint64(i)))
		c.Guard(id, nil, func() { fam.run(e, cr, id, k) })
	}
}

func c07Bucket(n int) string {
	switch {
	case n <= 2:
		return fmt.Sprint(n)
	}
	return "3+"
}

// ---------------------------------------------------------------------------------------------
// family rt: note.Sign -> note.Open round trips, re-signing of opened notes

func (e *c07Env) pickKeys(r *rand.Rand, num, den int) []*refnote.Key {
	var ks []*refnote.Key
	for _, p := range e.pool {
		if r.IntN(den) < num {
			ks = append(ks, p)
		}
	}
	return ks
}

func (e *c07Env) signers(r *rand.Rand, keys []*refnote.Key, signed *[]string) []note.Signer {
	var out []note.Signer
	for _, k := range keys {
		if s := e.realSigner(k); s != nil && r.IntN(5) != 0 {
			out = append(out, s)
		} else {
			out = append(out, &c07Signer{name: k.Name, key: k, signed: signed})
		}
	}
	return out
}

// checkSignOutput: the message note.Sign produced must be text + blank line + exactly the expected signature lines.
func (e *c07Env) checkSignOutput(id, what string, msg []byte, text string, wantLines map[string]int, fresh []*refnote.Key) bool {
	c := e.c
	c.Eval(1)
	t, sigs, ok := refnote.Parse(msg)
	bad := ""
	switch {
	case !ok:
		bad = "output is not a signed note of the documented form"
	case t != text:
		bad = "text of the output differs from Note.Text"
	default:
		// multiset of lines: every kept existing signature once, one line per signer
		got := map[string]int{}
		for _, s := range sigs {
			got[s.Name+" "+s.Base64]++
		}
		want := map[string]int{}
		for l, n := range wantLines {
			want[l] = n
		}
		for _, k := range fresh {
			want[k.Name+" "+refnote.EncodeSig(k.KeyHash(), k.SignText(text))]++
		}
		same := len(got) == len(want)
		for l, n := range want {
			same = same && got[l] == n
		}
		if !same {
			bad = fmt.Sprintf("signature lines differ: want %v", want)
		}
	}
	if bad != "" {
		c.Violation("sign-output-wrong", id, map[string]any{"stage": what, "text": mon.QS(text), "msg": mon.Q(msg), "why": bad})
		return false
	}
	return true
}

func c07RunRT(e *c07Env, r *rand.Rand, id string, k int) {
	c := e.c
	var text, tcls string
	var emb []string
	if k%4 == 3 {
		text, tcls = e.invalidText(r)
	} else {
		text, tcls, emb = e.validTextEmb(r)
	}
	valid := refnote.ValidText(text)
	keys := e.pickKeys(r, 2, 5)
	if r.IntN(8) == 0 {
		keys = append(keys, e.col[r.IntN(2)])
	}
	if r.IntN(10) == 0 && len(keys) > 0 {
		keys = append(keys, keys[r.IntN(len(keys))]) // the same signer twice
	}
	r.Shuffle(len(keys), func(i, j int) { keys[i], keys[j] = keys[j], keys[i] })
	var signed []string
	signers := e.signers(r, keys, &signed)
	kn := e.pickKeys(r, 1, 2)
	if r.IntN(8) == 0 {
		kn = append(kn, e.col[0])
	}
	w := e.listWorld(kn, nil)
	if r.IntN(25) == 0 {
		w = &c07World{useNil: true}
	}
	ctx := map[string]any{"family": "rt", "text_class": tcls, "signers": c07KeyNames(keys)}

	var msg []byte
	var err error
	if r.IntN(3) == 0 {
		e.c07PoisonSign(r)
	}
	if valid && r.IntN(5) == 0 {
		e.c07OddNames(r, id, text)
	}
	if c.Guard(id, func() any { return ctx }, func() { msg, err = note.Sign(&note.Note{Text: text}, signers...) }) {
		return
	}
	c.Eval(1)
	if err != nil {
		if valid {
			c.Violation("sign-refuses-valid-text", id, map[string]any{"text": mon.QS(text), "signers": c07KeyNames(keys), "err": err.Error()})
		}
		c.Class("rt:" + tcls + ":sign-refused")
		// the same text signed by the reference writer must not open either
		res := e.judge(id, refnote.Sign(text, keys...), w, nil, ctx)
		c.Class("rt:" + tcls + ":refnote-signed:" + res.outcome)
		return
	}
	for _, s := range signed {
		if s != text {
			c.Violation("sign-asks-signer-to-sign-something-else-than-the-text", id, map[string]any{"text": mon.QS(text), "signed": mon.QS(s)})
		}
	}
	if !valid {
		res := e.judge(id, msg, w, nil, ctx)
		c.Class("rt:" + tcls + ":sign-accepted:" + res.outcome)
		return
	}
	if len(keys) == 0 {
		// no signer: the output has no signature line and therefore is not a signed note
		res := e.judge(id, msg, w, nil, ctx)
		c.Class("rt:" + tcls + ":signers=0:" + res.outcome)
		return
	}
	if !e.checkSignOutput(id, "sign", msg, text, nil, keys) {
		return
	}
	res := e.judge(id, msg, w, nil, ctx)
	if res.opened && res.n.Text != text {
		c.Violation("round-trip-changes-text", id, map[string]any{"text": mon.QS(text), "got": mon.QS(res.n.Text)})
	}
	c.Class(fmt.Sprintf("rt:%s:signers=%s:known-signers=%s:%s", tcls, c07Bucket(len(keys)), c07Bucket(res.knownGood), res.outcome))
	if res.opened {
		c.Class("oracle:round-trip-opened")
		if c.Batch == 0 {
			c.Sample("round-trip", 3, map[string]any{"text": mon.QS(text), "signers": c07KeyNames(keys), "known": w.describe(), "note": c07NoteDesc(res.n)})
		}
	} else if res.knownGood == 0 {
		c.Class("oracle:no-known-signature:rejected")
	}

	// ---- second stage: re-sign the opened (or the unverified) note and open it with every key known ----
	var n2 *note.Note
	var ue *note.UnverifiedNoteError
	switch {
	case res.opened:
		n2 = res.n
	case errors.As(res.err, &ue) && ue.Note != nil:
		n2 = ue.Note
	}
	if n2 == nil || res.violated || r.IntN(2) == 0 {
		return
	}
	keys2 := e.pickKeys(r, 1, 3)
	r.Shuffle(len(keys2), func(i, j int) { keys2[i], keys2[j] = keys2[j], keys2[i] })
	replaced := map[c07NH]bool{}
	for _, k := range keys2 {
		replaced[c07NH{k.Name, k.KeyHash()}] = true
	}
	snap := &note.Note{Text: n2.Text, Sigs: append([]note.Signature{}, n2.Sigs...), UnverifiedSigs: append([]note.Signature{}, n2.UnverifiedSigs...)}
	planted := "none"
	if r.IntN(3) == 0 {
		// an existing signature whose bytes differ from the honest ones: visible if it is not elided, or elided wrongly
		K := e.pool[r.IntN(len(e.pool))]
		have := false
		for _, l := range [][]note.Signature{snap.Sigs, snap.UnverifiedSigs} {
			for _, s := range l {
				have = have || (s.Name == K.Name && s.Hash == K.KeyHash())
			}
		}
		if !have {
			g := note.Signature{Name: K.Name, Hash: K.KeyHash(), Base64: refnote.EncodeSig(K.KeyHash(), c07Bytes(r, 64))}
			if r.IntN(2) == 0 {
				snap.Sigs = append(snap.Sigs, g)
			} else {
				snap.UnverifiedSigs = append(snap.UnverifiedSigs, g)
			}
			planted = "kept"
			if replaced[c07NH{K.Name, K.KeyHash()}] {
				planted = "replaced"
			}
		}
	}
	want := map[string]int{}
	kept := 0
	for _, l := range [][]note.Signature{snap.Sigs, snap.UnverifiedSigs} {
		for _, s := range l {
			if !replaced[c07NH{s.Name, s.Hash}] {
				want[s.Name+" "+s.Base64]++
				kept++
			}
		}
	}
	if kept+len(keys2) == 0 {
		return
	}
	id2 := id // same case for replay
	var msg2 []byte
	signed = nil
	if c.Guard(id2, func() any { return ctx }, func() { msg2, err = note.Sign(snap, e.signers(r, keys2, &signed)...) }) {
		return
	}
	c.Eval(1)
	if err != nil {
		c.Violation("re-sign-of-opened-note-fails", id2, map[string]any{"note": c07NoteDesc(snap), "new_signers": c07KeyNames(keys2), "err": err.Error()})
		return
	}
	if !e.checkSignOutput(id2, "re-sign", msg2, text, want, keys2) {
		return
	}
	all := append(append([]*refnote.Key{}, e.pool...), e.col[0])
	w2 := e.listWorld(all, nil)
	ctx2 := map[string]any{"family": "rt/re-sign", "first_message": mon.Q(msg), "new_signers": c07KeyNames(keys2)}
	res2 := e.judge(id2, msg2, w2, &c07Origin{text: text, embedded: emb}, ctx2)
	c.Class(fmt.Sprintf("rt:re-sign:from-%s:elided=%t:planted-bad-existing-signature=%s:%s", res.outcome, kept < len(snap.Sigs)+len(snap.UnverifiedSigs), planted, res2.outcome))
}

func c07KeyNames(ks []*refnote.Key) []string {
	var o []string
	for _, k := range ks {
		o = append(o, fmt.Sprintf("%s+%08x", k.Name, k.KeyHash()))
	}
	return o
}

// ---------------------------------------------------------------------------------------------
// family mut: byte-level mutation of every region of an honestly signed message

type c07Line struct{ off, nameOff, nameLen, b64Off, b64Len int }

// c07Layout computes the byte offsets of the regions of refnote.Sign(text, keys...).
func c07Layout(text string, keys []*refnote.Key, lines []string) []c07Line {
	off := len(text) + 1
	var out []c07Line
	for i, k := range keys {
		l := lines[i]
		b64 := len(l) - len(refnote.Dash) - len(k.Name) - 2
		out = append(out, c07Line{off: off, nameOff: off + len(refnote.Dash), nameLen: len(k.Name), b64Off: off + len(refnote.Dash) + len(k.Name) + 1, b64Len: b64})
		off += len(l)
	}
	return out
}

var c07Regions = []string{"text", "text-final-newline", "separator", "dash", "name", "space", "b64-keyhash", "b64-sig", "b64-pad", "line-newline", "anywhere"}
var c07MutKinds = []string{"flip-bit", "set-byte", "insert", "delete", "dup", "swap-next", "truncate", "delete-region", "substitute"}
var c07Interesting = []byte{'\n', ' ', '+', '=', 'A', '/', '-', 0x00, 0x09, 0x0d, 0x7f, 0x80, 0xff, 0xe2, 'a', '0', '_'}

func c07RunMut(e *c07Env, r *rand.Rand, id string, k int) {
	c := e.c
	text, tcls, emb := e.validTextEmb(r)
	if len(text) > 600 {
		text = text[:200] + "\n" // keep mutated long texts cheap
		if !refnote.ValidText(text) {
			text = "shortened\n"
		}
	}
	// 1..3 known signers, sometimes an unknown one as well
	perm := r.Perm(len(e.pool))
	nk := 1 + r.IntN(3)
	var keys []*refnote.Key
	for _, i := range perm[:nk] {
		keys = append(keys, e.pool[i])
	}
	knownKeys := append([]*refnote.Key{}, keys...)
	if r.IntN(3) == 0 {
		u := e.many[r.IntN(len(e.many))]
		p := r.IntN(len(keys) + 1)
		keys = append(keys[:p:p], append([]*refnote.Key{u}, keys[p:]...)...)
	}
	if r.IntN(2) == 0 {
		knownKeys = e.pool // all pool keys known
	}
	var slines []string
	for _, kk := range keys {
		slines = append(slines, refnote.SigLine(kk, text))
	}
	msg := refnote.Message(text, slines...)
	lay := c07Layout(text, keys, slines)
	ln := lay[r.IntN(len(lay))]
	region := c07Regions[k%len(c07Regions)]
	kind := c07MutKinds[(k/len(c07Regions))%len(c07MutKinds)]
	var lo, hi int
	switch region {
	case "text":
		lo, hi = 0, len(text)
	case "text-final-newline":
		lo, hi = len(text)-1, len(text)
	case "separator":
		lo, hi = len(text), len(text)+1
	case "dash":
		lo, hi = ln.off, ln.off+len(refnote.Dash)
	case "name":
		lo, hi = ln.nameOff, ln.nameOff+ln.nameLen
	case "space":
		lo, hi = ln.b64Off-1, ln.b64Off
	case "b64-keyhash":
		lo, hi = ln.b64Off, ln.b64Off+6
	case "b64-sig":
		lo, hi = ln.b64Off+6, ln.b64Off+ln.b64Len-1
	case "b64-pad":
		lo, hi = ln.b64Off+ln.b64Len-1, ln.b64Off+ln.b64Len
	case "line-newline":
		lo, hi = ln.b64Off+ln.b64Len, ln.b64Off+ln.b64Len+1
	default:
		lo, hi = 0, len(msg)
	}
	pos := lo + r.IntN(hi-lo)
	m := append([]byte{}, msg...)
	splice := func(at, del int, ins []byte) {
		m = append(m[:at:at], append(append([]byte{}, ins...), m[at+del:]...)...)
	}
	switch kind {
	case "flip-bit":
		m[pos] ^= 1 << uint(r.IntN(8))
	case "set-byte":
		m[pos] = c07Interesting[r.IntN(len(c07Interesting))]
	case "insert":
		splice(lo+r.IntN(hi-lo+1), 0, []byte{c07Interesting[r.IntN(len(c07Interesting))]})
	case "delete":
		splice(pos, 1, nil)
	case "dup":
		splice(pos, 0, []byte{m[pos]})
	case "swap-next":
		if pos+1 < len(m) {
			m[pos], m[pos+1] = m[pos+1], m[pos]
		}
	case "truncate":
		m = m[:pos]
	case "delete-region":
		splice(lo, hi-lo, nil)
	case "substitute":
		switch region {
		case "text", "text-final-newline", "anywhere":
			var nt string
			switch r.IntN(4) {
			case 0:
				var emb2 []string
				nt, _, emb2 = e.validTextEmb(r)
				emb = append(emb, emb2...)
			case 1:
				nt = text + c07Words[r.IntN(len(c07Words))] + "\n"
			case 2:
				nt = strings.TrimSuffix(text, "\n") + " \n"
			default:
				if i := strings.LastIndex(strings.TrimSuffix(text, "\n"), "\n"); i >= 0 {
					nt = text[:i+1] // last line dropped
				} else {
					nt = "\n"
				}
			}
			splice(0, len(text), []byte(nt))
		case "name", "dash", "space":
			o := e.pool[r.IntN(len(e.pool))]
			splice(ln.nameOff, ln.nameLen, []byte(o.Name))
		case "b64-keyhash":
			o := e.pool[r.IntN(len(e.pool))]
			raw, _ := base64.StdEncoding.DecodeString(string(m[ln.b64Off : ln.b64Off+ln.b64Len]))
			binary.BigEndian.PutUint32(raw, o.KeyHash())
			splice(ln.b64Off, ln.b64Len, []byte(base64.StdEncoding.EncodeToString(raw)))
		case "b64-sig", "b64-pad":
			o := e.pool[r.IntN(len(e.pool))]
			raw, _ := base64.StdEncoding.DecodeString(string(m[ln.b64Off : ln.b64Off+ln.b64Len]))
			copy(raw[4:], o.SignText(text)) // another key's signature under this key's name and hash
			splice(ln.b64Off, ln.b64Len, []byte(base64.StdEncoding.EncodeToString(raw)))
		default: // separator, line-newline
			splice(lo, hi-lo, []byte{'\n', '\n'})
		}
	}
	if bytes.Equal(m, msg) {
		c.Class("mut:no-op")
		return
	}
	w := e.listWorld(knownKeys, nil)
	ctx := map[string]any{"family": "mut", "region": region, "kind": kind, "original": mon.Q(msg), "text_class": tcls}
	res := e.judge(id, m, w, &c07Origin{text: text, embedded: emb}, ctx)
	out := res.outcome
	if res.opened {
		out = "opened-with-signed-text"
	}
	c.Class("mut:" + region + ":" + kind + ":" + out)
	if region == "text" && !res.opened {
		c.Class("oracle:text-mutation-rejected")
	}
	if c.Batch == 0 && k%7 == 0 {
		c.Sample("mutation:"+out, 2, map[string]any{"region": region, "kind": kind, "original": mon.Q(msg), "mutated": mon.Q(m), "err": fmt.Sprint(res.err)})
	}
}

// ---------------------------------------------------------------------------------------------
// family onebad: exactly one of several known keys' signatures is corrupted, the others are intact

type c07Corruption struct {
	name string
	f    func(r *rand.Rand, victim, other *refnote.Key, text string) []byte
}

var c07Corruptions = []c07Corruption{
	{"flip-sig-bit", func(r *rand.Rand, v, o *refnote.Key, t string) []byte {
		s := v.SignText(t)
		s[r.IntN(len(s))] ^= 1 << uint(r.IntN(8))
		return s
	}},
	{"zero-sig", func(r *rand.Rand, v, o *refnote.Key, t string) []byte { return make([]byte, 64) }},
	{"random-sig", func(r *rand.Rand, v, o *refnote.Key, t string) []byte { return c07Bytes(r, 64) }},
	{"sig-over-text-plus-line", func(r *rand.Rand, v, o *refnote.Key, t string) []byte { return v.SignText(t + "x\n") }},
	{"sig-over-text-without-final-newline", func(r *rand.Rand, v, o *refnote.Key, t string) []byte { return v.SignText(strings.TrimSuffix(t, "\n")) }},
	{"sig-over-text-plus-blank-line", func(r *rand.Rand, v, o *refnote.Key, t string) []byte { return v.SignText(t + "\n") }},
	{"sig-over-other-text", func(r *rand.Rand, v, o *refnote.Key, t string) []byte { return v.SignText("other\n") }},
	{"sig-by-other-key", func(r *rand.Rand, v, o *refnote.Key, t string) []byte { return o.SignText(t) }},
	{"truncated-63", func(r *rand.Rand, v, o *refnote.Key, t string) []byte { return v.SignText(t)[:63] }},
	{"extended-65", func(r *rand.Rand, v, o *refnote.Key, t string) []byte { return append(v.SignText(t), 0) }},
	{"swap-halves", func(r *rand.Rand, v, o *refnote.Key, t string) []byte {
		s := v.SignText(t)
		return append(append([]byte{}, s[32:]...), s[:32]...)
	}},
	{"one-byte", func(r *rand.Rand, v, o *refnote.Key, t string) []byte { return []byte{byte(r.IntN(256))} }},
}

func c07RunOneBad(e *c07Env, r *rand.Rand, id string, k int) {
	c := e.c
	text, _, emb := e.validTextEmb(r)
	cor := c07Corruptions[k%len(c07Corruptions)]
	// 2..5 known signers; candidates include both keys named "alice"
	cands := append([]*refnote.Key{}, e.pool...)
	r.Shuffle(len(cands), func(i, j int) { cands[i], cands[j] = cands[j], cands[i] })
	nk := 2 + r.IntN(4)
	keys := cands[:nk]
	if (k/len(c07Corruptions))%3 == 0 { // force the same-name pair, one of them is the victim
		keys = []*refnote.Key{e.pool[0], e.pool[2]}
		if r.IntN(2) == 0 {
			keys = append(keys, e.pool[1])
		}
		r.Shuffle(len(keys), func(i, j int) { keys[i], keys[j] = keys[j], keys[i] })
	}
	vi := []int{0, len(keys) - 1, r.IntN(len(keys))}[(k/(3*len(c07Corruptions)))%3]
	if (k/len(c07Corruptions))%3 == 0 {
		for keys[vi].Name != "alice" {
			vi = (vi + 1) % len(keys)
		}
	}
	victim := keys[vi]
	other := keys[(vi+1)%len(keys)]
	var lines []string
	victimLine := 0
	for i, kk := range keys {
		if i == vi {
			victimLine = len(lines)
			lines = append(lines, refnote.RawLine(victim.Name, victim.KeyHash(), cor.f(r, victim, other, text)))
		} else {
			lines = append(lines, refnote.SigLine(kk, text))
		}
		if r.IntN(6) == 0 { // an unknown key's line in between
			u := e.many[r.IntN(len(e.many))]
			lines = append(lines, refnote.SigLine(u, text))
		}
	}
	msg := refnote.Message(text, lines...)
	var w *c07World
	if r.IntN(5) == 0 {
		w = e.customWorld()
		for _, kk := range e.pool {
			w.set(c07NH{kk.Name, kk.KeyHash()}, c07Resp{v: e.ver(w, kk, c07Honest)})
		}
	} else {
		w = e.listWorld(e.pool, nil)
	}
	pos := "middle"
	if vi == 0 {
		pos = "first"
	} else if vi == len(keys)-1 {
		pos = "last"
	}
	ctx := map[string]any{"family": "onebad", "corruption": cor.name, "victim": fmt.Sprintf("%s+%08x", victim.Name, victim.KeyHash()), "victim_line": vi, "signers": c07KeyNames(keys)}
	res := e.judge(id, msg, w, &c07Origin{text: text, embedded: emb}, ctx)
	if res.mustFail != "bad-first-signature-of-known-key" {
		c.Inconclusive("C07 onebad: generator produced a message whose corrupted line is not predicted as bad (" + cor.name + ")")
	}
	c.Class("onebad:" + cor.name + ":" + pos + ":" + res.outcome)
	if !res.opened {
		c.Class("oracle:one-bad-among-good:rejected")
	}
	if c.Batch == 0 {
		c.Sample("one-bad", 2, map[string]any{"corruption": cor.name, "victim_line": vi, "msg": mon.Q(msg), "err": fmt.Sprint(res.err)})
	}

	// control: the key-hash bytes of the victim's honest line are changed instead: the line now names
	// an unknown key, and the note must open on the strength of the others.
	if r.IntN(3) == 0 {
		lines2 := append([]string{}, lines...)
		idx := victimLine
		lines2[idx] = refnote.RawLine(victim.Name, victim.KeyHash()^(1<<uint(r.IntN(32))), victim.SignText(text))
		res2 := e.judge(id, refnote.Message(text, lines2...), w, &c07Origin{text: text, embedded: emb}, map[string]any{"family": "onebad/keyhash-control", "signers": c07KeyNames(keys)})
		c.Class("onebad:keyhash-bytes-changed:" + res2.outcome)
	}
}

// ---------------------------------------------------------------------------------------------
// family count: 0 … 101 (and more) signature lines

var c07Counts = []int{0, 1, 2, 3, 10, 50, 99, 100, 101, 102, 130}

func (e *c07Env) garbageLine(r *rand.Rand) string {
	return refnote.RawLine(fmt.Sprintf("nobody%d", r.IntN(1000)), r.Uint32(), c07Bytes(r, 64))
}

func c07RunCount(e *c07Env, r *rand.Rand, id string, k int) {
	c := e.c
	text, _, emb := e.validTextEmb(r)
	if len(text) > 300 {
		text = "short text\n"
	}
	n := c07Counts[k%len(c07Counts)]
	comp := []string{"one-known-first", "one-known-last", "no-known", "all-known", "known-at-100", "known-at-101", "with-duplicates"}[(k/len(c07Counts))%7]
	if comp == "all-known" && n > 10 && r.IntN(3) != 0 {
		comp = "one-known-last"
	}
	lines := make([]string, n)
	real := map[int]bool{}
	switch comp {
	case "one-known-first":
		real[0] = true
	case "one-known-last":
		real[n-1] = true
	case "known-at-100":
		real[99] = true
	case "known-at-101":
		real[100] = true
	case "all-known":
		for i := 0; i < n && i < len(e.many); i++ {
			real[i] = true
		}
	}
	for i := range lines {
		switch {
		case real[i]:
			lines[i] = refnote.SigLine(e.many[i%len(e.many)], text)
		case comp == "with-duplicates" && i > 0 && r.IntN(2) == 0:
			lines[i] = lines[r.IntN(i)]
		case comp == "with-duplicates" && i%5 == 0:
			lines[i] = refnote.SigLine(e.many[i%7], text) // known keys, repeated honestly
		default:
			lines[i] = e.garbageLine(r)
		}
	}
	msg := refnote.Message(text, lines...)
	w := e.listWorld(e.many, nil)
	ctx := map[string]any{"family": "count", "lines": n, "composition": comp}
	res := e.judge(id, msg, w, &c07Origin{text: text, embedded: emb}, ctx)
	nb := fmt.Sprint(n)
	c.Class("count:lines=" + nb + ":" + comp + ":" + res.outcome)
	if n == 100 && res.opened {
		c.Class("oracle:100-signature-lines:opened")
	}
	if n > 100 {
		c.Class("unspecified:more-than-100-signature-lines:" + res.outcome)
	}
}

// ---------------------------------------------------------------------------------------------
// family dup: duplicate signature lines

var c07DupScen = []string{"known-identical", "known-good-then-bad", "known-bad-then-good", "unknown-identical", "unknown-same-key-different-sig",
	"unknown-same-name-different-key", "liar-two-garbage-lines", "interleaved", "same-name-both-known-second-key-bad", "known-identical-many", "unknown-same-base64-different-name"}

func c07RunDup(e *c07Env, r *rand.Rand, id string, k int) {
	c := e.c
	text, _ := e.validText(r)
	scen := c07DupScen[k%len(c07DupScen)]
	perm := r.Perm(len(e.pool))
	A, B := e.pool[perm[0]], e.pool[perm[1]]
	U := e.many[r.IntN(len(e.many))]
	good := func(k *refnote.Key) string { return refnote.SigLine(k, text) }
	bad := func(k *refnote.Key) string { return refnote.RawLine(k.Name, k.KeyHash(), c07Bytes(r, 64)) }
	w := e.listWorld(e.pool, nil)
	var lines []string
	switch scen {
	case "known-identical":
		lines = []string{good(A), good(A)}
	case "known-identical-many":
		for i := 0; i < 2+r.IntN(20); i++ {
			lines = append(lines, good(A))
		}
	case "known-good-then-bad":
		lines = []string{good(A), bad(A)}
	case "known-bad-then-good":
		lines = []string{bad(A), good(A)}
		if r.IntN(2) == 0 {
			lines = append([]string{good(B)}, lines...)
		}
	case "unknown-identical":
		u := good(U)
		lines = []string{good(A), u, u}
		if r.IntN(2) == 0 {
			lines = []string{u, good(A), u, u}
		}
	case "unknown-same-key-different-sig":
		lines = []string{good(U), good(A), bad(U), bad(U)}
	case "unknown-same-name-different-key":
		u2 := refnote.NewKey(U.Name, refnote.Seed("c07-dup", r.Uint64()))
		lines = []string{good(U), good(u2), good(A)}
	case "unknown-same-base64-different-name":
		b := refnote.EncodeSig(U.KeyHash(), U.SignText(text))
		lines = []string{refnote.Line(U.Name, b), refnote.Line(U.Name+"2", b), good(A), refnote.Line("other."+U.Name, b)}
	case "liar-two-garbage-lines":
		modes := make([]int, len(e.pool))
		modes[perm[0]] = c07LieTrue
		w = e.listWorld(e.pool, modes)
		lines = []string{bad(A), bad(A)}
		if r.IntN(2) == 0 {
			lines = append(lines, good(B))
		}
	case "interleaved":
		lines = []string{good(A), good(U), bad(A), good(B), good(U), good(B)}
	case "same-name-both-known-second-key-bad":
		a1, a2 := e.pool[0], e.pool[2]
		if r.IntN(2) == 0 {
			a1, a2 = a2, a1
		}
		lines = []string{good(a1), bad(a2)}
		if r.IntN(2) == 0 {
			lines = append(lines, good(B))
		}
	}
	ctx := map[string]any{"family": "dup", "scenario": scen}
	res := e.judge(id, refnote.Message(text, lines...), w, nil, ctx)
	c.Class("dup:" + scen + ":" + res.outcome)
	if res.unspecified == "repeated-line-of-known-key-is-bad" {
		c.Class("unspecified:repeated-line-of-known-key-is-bad:" + res.outcome)
	}
}

// ---------------------------------------------------------------------------------------------
// family amb: ambiguous keys in note.VerifierList

var c07AmbScen = []string{"same-verifier-twice:signed", "same-key-two-verifiers:signed", "collision-pair-both-listed:signed-by-one", "collision-pair-both-listed:signed-by-both",
	"ambiguous-not-in-message", "collision-one-listed:good-then-other", "collision-one-listed:other-then-good", "ambiguous-liar-and-honest",
	"same-key-listed-3-times:signed", "same-key-listed-4-times:signed", "same-key-listed-5-times:signed", "same-key-listed-3-times:last-is-a-liar"}

func c07RunAmb(e *c07Env, r *rand.Rand, id string, k int) {
	c := e.c
	text, _ := e.validText(r)
	scen := c07AmbScen[k%len(c07AmbScen)]
	perm := r.Perm(len(e.pool))
	A, B := e.pool[perm[0]], e.pool[perm[1]]
	good := func(k *refnote.Key) string { return refnote.SigLine(k, text) }
	w := &c07World{}
	add := func(k *refnote.Key, mode int) *c07Ver {
		v := e.ver(w, k, mode)
		w.vers = append(w.vers, v)
		return v
	}
	var lines []string
	switch scen {
	case "same-verifier-twice:signed":
		v := add(A, c07Honest)
		add(B, c07Honest)
		w.vers = append(w.vers, v)
		lines = []string{good(B), good(A)}
	case "same-key-two-verifiers:signed":
		add(A, c07Honest)
		add(B, c07Honest)
		add(A, c07Honest)
		lines = []string{good(A), good(B)}
	case "collision-pair-both-listed:signed-by-one":
		add(e.col[0], c07Honest)
		add(B, c07Honest)
		add(e.col[1], c07Honest)
		lines = []string{good(B), good(e.col[r.IntN(2)])}
	case "collision-pair-both-listed:signed-by-both":
		add(e.col[0], c07Honest)
		add(e.col[1], c07Honest)
		lines = []string{good(e.col[0]), good(e.col[1])}
	case "ambiguous-not-in-message":
		add(A, c07Honest)
		add(A, c07Honest)
		add(B, c07Honest)
		add(e.col[0], c07Honest)
		add(e.col[1], c07Honest)
		lines = []string{good(B)}
	case "collision-one-listed:good-then-other":
		add(e.col[0], c07Honest)
		lines = []string{good(e.col[0]), good(e.col[1])}
	case "collision-one-listed:other-then-good":
		add(e.col[0], c07Honest)
		add(B, c07Honest)
		lines = []string{good(B), good(e.col[1]), good(e.col[0])}
	case "same-key-listed-3-times:signed", "same-key-listed-4-times:signed", "same-key-listed-5-times:signed":
		n := int(scen[len("same-key-listed-")] - '0')
		for i := 0; i < n; i++ {
			add(A, c07Honest)
		}
		add(B, c07Honest)
		lines = []string{good(A), good(B)}
	case "same-key-listed-3-times:last-is-a-liar":
		add(A, c07Honest)
		add(A, c07Honest)
		add(B, c07Honest)
		add(A, c07LieTrue)
		lines = []string{good(B), refnote.RawLine(A.Name, A.KeyHash(), c07Bytes(r, 64))}
	case "ambiguous-liar-and-honest":
		add(A, c07LieTrue)
		add(A, c07Honest)
		add(B, c07Honest)
		lines = []string{good(B), refnote.RawLine(A.Name, A.KeyHash(), c07Bytes(r, 64))}
	}
	if !strings.HasSuffix(scen, "last-is-a-liar") {
		r.Shuffle(len(w.vers), func(i, j int) { w.vers[i], w.vers[j] = w.vers[j], w.vers[i] })
	}
	var l []note.Verifier
	for _, v := range w.vers {
		l = append(l, v)
	}
	w.list = note.VerifierList(l...)
	ctx := map[string]any{"family": "amb", "scenario": scen}
	res := e.judge(id, refnote.Message(text, lines...), w, nil, ctx)
	c.Class("amb:" + scen + ":" + res.outcome)
	if res.mustFail == "verifiers-error" && !res.opened {
		c.Class("oracle:ambiguous-key:rejected")
	}
}

// ---------------------------------------------------------------------------------------------
// family custom: scripted note.Verifiers and lying verifiers

var c07CustomScen = []string{"honest-map", "mismatch:same-name-other-hash", "mismatch:other-name", "mismatch:same-hash-other-name", "error:first", "error:middle", "error:last",
	"error:only-unknown-otherwise", "lie-false:one-of-several", "lie-true:garbage-signature", "lie-true:only-signature", "nil-verifiers", "empty-list", "mismatch:honest-signature"}

func c07RunCustom(e *c07Env, r *rand.Rand, id string, k int) {
	c := e.c
	text, _ := e.validText(r)
	scen := c07CustomScen[k%len(c07CustomScen)]
	A1, A2, B, C := e.pool[0], e.pool[2], e.pool[1], e.pool[3+r.IntN(len(e.pool)-3)]
	if r.IntN(2) == 0 {
		A1, A2 = A2, A1
	}
	good := func(k *refnote.Key) string { return refnote.SigLine(k, text) }
	nh := func(k *refnote.Key) c07NH { return c07NH{k.Name, k.KeyHash()} }
	w := e.customWorld()
	known := func(ks ...*refnote.Key) {
		for _, k := range ks {
			w.set(nh(k), c07Resp{v: e.ver(w, k, c07Honest)})
		}
	}
	var lines []string
	extra := func() {
		// honest lines of other known keys around the interesting one
		if r.IntN(3) != 0 {
			lines = append([]string{good(C)}, lines...)
		}
		if r.IntN(3) == 0 {
			lines = append(lines, good(B))
		}
	}
	switch scen {
	case "honest-map":
		known(A1, B, C)
		lines = []string{good(A1), good(A2), good(B)}
	case "mismatch:same-name-other-hash":
		// lookup of (alice, hash of A1) answers with the verifier of A2; the line carries A2's signature under A1's hash
		known(B, C)
		w.set(nh(A1), c07Resp{v: e.ver(w, A2, c07Honest)})
		lines = []string{refnote.RawLine(A1.Name, A1.KeyHash(), A2.SignText(text))}
		extra()
	case "mismatch:other-name":
		known(B, C)
		w.set(nh(A1), c07Resp{v: e.ver(w, B, c07Honest)})
		lines = []string{refnote.RawLine(A1.Name, A1.KeyHash(), B.SignText(text))}
		extra()
	case "mismatch:same-hash-other-name":
		known(B, C)
		v := e.ver(w, A2, c07Honest)
		v.name, v.hash = "mallory", A1.KeyHash() // reports A1's hash under another name, verifies with A2's key
		w.set(nh(A1), c07Resp{v: v})
		lines = []string{refnote.RawLine(A1.Name, A1.KeyHash(), A2.SignText(text))}
		extra()
	case "mismatch:honest-signature":
		known(B, C)
		w.set(nh(A1), c07Resp{v: e.ver(w, A2, c07LieTrue)})
		lines = []string{good(A1)}
		extra()
	case "error:first", "error:middle", "error:last":
		known(B, C, A2)
		w.set(nh(A1), c07Resp{err: errors.New("scripted verifiers failure")})
		switch scen {
		case "error:first":
			lines = []string{good(A1), good(B), good(C)}
		case "error:middle":
			lines = []string{good(B), good(A1), good(C)}
		default:
			lines = []string{good(B), good(C), good(A1)}
		}
	case "error:only-unknown-otherwise":
		w.set(nh(A1), c07Resp{err: fmt.Errorf("scripted failure %d", r.IntN(10))})
		lines = []string{good(B), good(A1)}
	case "lie-false:one-of-several":
		known(B, C)
		w.set(nh(A1), c07Resp{v: e.ver(w, A1, c07LieFalse)})
		lines = []string{good(B), good(A1), good(C)}
		r.Shuffle(len(lines), func(i, j int) { lines[i], lines[j] = lines[j], lines[i] })
	case "lie-true:garbage-signature":
		known(B, C)
		w.set(nh(A1), c07Resp{v: e.ver(w, A1, c07LieTrue)})
		lines = []string{refnote.RawLine(A1.Name, A1.KeyHash(), c07Bytes(r, 1+r.IntN(80)))}
		extra()
	case "lie-true:only-signature":
		w.set(nh(A1), c07Resp{v: e.ver(w, A1, c07LieTrue)})
		lines = []string{good(B), refnote.RawLine(A1.Name, A1.KeyHash(), A1.SignText("another text\n"))}
	case "nil-verifiers":
		w = &c07World{useNil: true}
		lines = []string{good(A1), good(B)}
	case "empty-list":
		w = e.listWorld(nil, nil)
		lines = []string{good(A1), good(B)}
	}
	ctx := map[string]any{"family": "custom", "scenario": scen}
	res := e.judge(id, refnote.Message(text, lines...), w, nil, ctx)
	c.Class("custom:" + scen + ":" + res.outcome)
	switch {
	case strings.HasPrefix(scen, "mismatch") && !res.opened:
		c.Class("oracle:mismatched-verifier:rejected")
	case strings.HasPrefix(scen, "error") && !res.opened:
		c.Class("oracle:verifiers-error:rejected")
	case scen == "lie-false:one-of-several" && !res.opened:
		c.Class("oracle:lying-false-verifier:rejected")
	case strings.HasPrefix(scen, "lie-true") && res.opened:
		c.Class("oracle:lying-true-verifier:opened-and-logged")
	}
	if c.Batch == 0 && k%3 == 1 {
		c.Sample("custom-verifiers", 4, map[string]any{"scenario": scen, "known": w.describe(), "msg": mon.Q(refnote.Message(text, lines...)), "err": fmt.Sprint(res.err), "note": c07NoteDesc(res.n)})
	}
}

// ---------------------------------------------------------------------------------------------
// family adv: hand-shaped adversarial layouts written with the reference writer

var c07AdvScen = []string{"good-signature-only-inside-text", "nested-note-outer-unknown", "nested-note-outer-known", "no-final-newline", "crlf", "blank-line-inside-signature-block:sig-over-short-text",
	"blank-line-inside-signature-block:sig-over-long-text", "trailing-blank-line", "no-name", "no-base64", "three-fields", "name-with-plus", "name-with-unicode-space", "name-with-tab",
	"short-signature", "four-byte-signature", "five-byte-signature", "base64-without-padding", "base64-url-alphabet", "hyphen-instead-of-dash", "en-dash", "dash-without-space",
	"line-without-prefix", "no-blank-line", "two-blank-lines", "no-text", "text-without-newline-then-blank", "leading-space-before-dash", "invalid-utf8-in-name", "control-char-in-signature-block",
	"bom-prefix", "only-signature-block", "known-key-wrong-hash-bytes", "right-hash-wrong-name", "signature-lines-reordered", "text-is-sigblock-lookalike",
	"boundary-shift-after-genuine-open", "boundary-shift-after-genuine-open"}

func c07RunAdv(e *c07Env, r *rand.Rand, id string, k int) {
	c := e.c
	text, _, emb := e.validTextEmb(r)
	scen := c07AdvScen[k%len(c07AdvScen)]
	perm := r.Perm(len(e.pool))
	A, B := e.pool[perm[0]], e.pool[perm[1]]
	U := e.many[r.IntN(len(e.many))]
	good := func(k *refnote.Key) string { return refnote.SigLine(k, text) }
	b64 := func(k *refnote.Key) string { return refnote.EncodeSig(k.KeyHash(), k.SignText(text)) }
	w := e.listWorld(e.pool, nil)
	var org *c07Origin
	var msg []byte
	switch scen {
	case "boundary-shift-after-genuine-open":
		// The SAME verifier objects first accept the genuine message; then they are shown a message in
		// which the last line(s) of the text were moved to the front of the signature bytes, so that
		// text‖signature is byte-identical. Only the shortened text could open — it must not.
		genuine := refnote.Sign(text, A)
		e.judge(id+":genuine", genuine, w, nil, map[string]any{"family": "adv", "scenario": scen, "step": "genuine message first"})
		cut := strings.LastIndex(strings.TrimSuffix(text, "\n"), "\n") + 1 // start of the last line (0: single-line text)
		if cut <= 0 {
			text = "first line\n" + text
			genuine = refnote.Sign(text, A)
			e.judge(id+":genuine2", genuine, w, nil, map[string]any{"family": "adv", "scenario": scen, "step": "genuine message first"})
			cut = len("first line\n")
		}
		short, moved := text[:cut], text[cut:]
		sig := append([]byte(moved), A.SignText(text)...)
		msg = refnote.Message(short, refnote.RawLine(A.Name, A.KeyHash(), sig))
		org = &c07Origin{text: text, embedded: emb}
	case "good-signature-only-inside-text":
		msg = []byte(text + "\n" + good(A) + "\n" + good(U))
	case "nested-note-outer-unknown":
		inner := string(refnote.Sign(text, A))
		msg = refnote.Sign(inner, U)
	case "nested-note-outer-known":
		inner := string(refnote.Sign(text, A))
		msg = refnote.Sign(inner, B)
		org = &c07Origin{text: inner, embedded: emb}
	case "no-final-newline":
		m := refnote.Sign(text, A, B)
		msg = m[:len(m)-1]
	case "crlf":
		msg = []byte(strings.ReplaceAll(string(refnote.Sign(text, A)), "\n", "\r\n"))
	case "blank-line-inside-signature-block:sig-over-short-text":
		msg = []byte(text + "\n" + good(A) + "\n" + good(B))
	case "blank-line-inside-signature-block:sig-over-long-text":
		long := text + "\n" + good(A)
		msg = []byte(long + "\n" + refnote.SigLine(B, long))
		org = &c07Origin{text: long, embedded: append(emb, text)}
	case "trailing-blank-line":
		msg = append(refnote.Sign(text, A), '\n')
	case "no-name":
		msg = refnote.Message(text, good(B), refnote.Line("", b64(A)))
	case "no-base64":
		msg = refnote.Message(text, good(B), refnote.Dash+A.Name+"\n")
	case "three-fields":
		msg = refnote.Message(text, good(B), refnote.Dash+A.Name+" "+b64(A)+" x\n")
	case "name-with-plus":
		msg = refnote.Message(text, good(B), refnote.Line("a+b", b64(U)))
	case "name-with-unicode-space":
		msg = refnote.Message(text, good(B), refnote.Line([]string{"a\u00a0b", "a\u3000b", "a\u0085b", "a\u2028b"}[r.IntN(4)], b64(U)))
	case "name-with-tab":
		msg = refnote.Message(text, good(B), refnote.Line("a\tb", b64(U)))
	case "short-signature":
		msg = refnote.Message(text, good(B), refnote.Line(U.Name, base64.StdEncoding.EncodeToString(c07Bytes(r, r.IntN(4)))))
	case "four-byte-signature":
		msg = refnote.Message(text, good(B), refnote.RawLine(U.Name, U.KeyHash(), nil))
	case "five-byte-signature":
		msg = refnote.Message(text, good(B), refnote.RawLine(U.Name, U.KeyHash(), []byte{1}))
	case "base64-without-padding":
		msg = refnote.Message(text, good(B), refnote.Line(A.Name, strings.TrimRight(b64(A), "=")))
	case "base64-url-alphabet":
		raw, _ := base64.StdEncoding.DecodeString(b64(A))
		raw = append(raw[:4:4], bytes.Repeat([]byte{0xfb, 0xff}, 32)...)
		msg = refnote.Message(text, good(B), refnote.Line(A.Name, base64.URLEncoding.EncodeToString(raw)))
	case "hyphen-instead-of-dash":
		msg = refnote.Message(text, good(B), "- "+A.Name+" "+b64(A)+"\n")
	case "en-dash":
		msg = refnote.Message(text, good(B), "– "+A.Name+" "+b64(A)+"\n")
	case "dash-without-space":
		msg = refnote.Message(text, good(B), "—"+A.Name+" "+b64(A)+"\n")
	case "line-without-prefix":
		msg = refnote.Message(text, good(B), A.Name+" "+b64(A)+"\n", good(A))
	case "no-blank-line":
		msg = []byte(text + good(A) + good(B))
	case "two-blank-lines":
		msg = []byte(text + "\n\n" + good(A))
	case "no-text":
		msg = []byte("\n" + good(A))
	case "text-without-newline-then-blank":
		t := strings.TrimRight(text, "\n") + "x"
		msg = []byte(t + "\n\n" + refnote.SigLine(A, t) + refnote.SigLine(B, t+"\n"))
		org = &c07Origin{text: t + "\n", embedded: emb}
	case "leading-space-before-dash":
		msg = refnote.Message(text, good(B), " "+good(A))
	case "invalid-utf8-in-name":
		msg = refnote.Message(text, good(B), refnote.Line("a\xffb", b64(U)))
	case "control-char-in-signature-block":
		msg = refnote.Message(text, good(B), strings.TrimSuffix(good(A), "\n")+[]string{"\r", "\t", "\x00"}[r.IntN(3)]+"\n")
	case "bom-prefix":
		msg = append([]byte("\ufeff"), refnote.Sign(text, A)...)
	case "only-signature-block":
		msg = []byte(good(A) + good(B))
	case "known-key-wrong-hash-bytes":
		msg = refnote.Message(text, refnote.RawLine(A.Name, A.KeyHash()+1+uint32(r.IntN(1000)), A.SignText(text)))
	case "right-hash-wrong-name":
		msg = refnote.Message(text, refnote.RawLine(A.Name+"x", A.KeyHash(), A.SignText(text)), refnote.RawLine(B.Name, A.KeyHash(), A.SignText(text)))
	case "signature-lines-reordered":
		ks := append([]*refnote.Key{U}, e.pool...)
		r.Shuffle(len(ks), func(i, j int) { ks[i], ks[j] = ks[j], ks[i] })
		msg = refnote.Sign(text, ks...)
		org = &c07Origin{text: text, embedded: emb}
	case "text-is-sigblock-lookalike":
		t := good(A) + good(B) // a text made only of signature-looking lines
		msg = refnote.Sign(t, A)
		org = &c07Origin{text: t, embedded: append(emb, text)}
	}
	ctx := map[string]any{"family": "adv", "scenario": scen}
	res := e.judge(id, msg, w, org, ctx)
	c.Class("adv:" + scen + ":" + res.outcome)
	if res.unspecified == "empty-signature" {
		c.Class("unspecified:empty-signature:" + res.outcome)
	}
	if !res.refOK && !res.opened {
		c.Class("oracle:not-a-signed-note:rejected")
	}
	if c.Batch == 0 && k%5 == 0 {
		c.Sample("adversarial", 4, map[string]any{"scenario": scen, "msg": mon.Q(msg), "err": fmt.Sprint(res.err), "note": c07NoteDesc(res.n)})
	}
}

// ---------------------------------------------------------------------------------------------
// key strings: refnote's encodings must be what note.NewVerifier / note.NewSigner read, and a
// signer made from the signer string must produce signatures the reference key verifies.

func (e *c07Env) keyStrings() {
	c := e.c
	for i, k := range e.allKeys() {
		if !c.Mine(i) {
			continue
		}
		id := "keys:" + k.VerifierString()
		if !c.Want(id) {
			continue
		}
		text := fmt.Sprintf("key check %d\n", i)
		if s := e.realSigner(k); s != nil {
			sig, err := s.Sign([]byte(text))
			c.Eval(1)
			if err != nil || !k.Verify(text, sig) {
				c.Violation("newsigner-signature-does-not-verify-under-the-key", id, map[string]any{"skey": k.SignerString(), "err": fmt.Sprint(err)})
			}
		}
		if v := e.realVerifier(k); v != nil {
			c.Eval(2)
			if !v.Verify([]byte(text), k.SignText(text)) {
				c.Violation("newverifier-rejects-signature-of-its-key", id, map[string]any{"vkey": k.VerifierString()})
			}
			if v.Verify([]byte(text+"x"), k.SignText(text)) {
				c.Violation("newverifier-accepts-signature-of-other-text", id, map[string]any{"vkey": k.VerifierString()})
			}
			// another text of the same length and the same CRC-32, under the signature the same verifier has
			// just accepted for the first (a verdict is about all the bytes of the text)
			long := fmt.Sprintf("key check %d: the quick brown fox jumps over the lazy dog and comes back for more\n", i)
			if tw := c07CRCTwinText(long); tw != "" {
				c.Eval(2)
				if !v.Verify([]byte(long), k.SignText(long)) {
					c.Violation("newverifier-rejects-signature-of-its-key", id, map[string]any{"vkey": k.VerifierString(), "text": long})
				}
				if v.Verify([]byte(tw), k.SignText(long)) {
					c.Violation("newverifier-accepts-signature-of-other-text", id, map[string]any{"vkey": k.VerifierString(), "signed": long, "presented": tw, "same": "length and CRC-32"})
				}
				c.Class("keys:same-length-same-crc32-text")
			}
		}
		// tampered encodings: observed, not judged (the statement is about Open and Sign)
		vs := k.VerifierString()
		p := strings.SplitN(vs, "+", 3)
		for name, s := range map[string]string{
			"other-hash": p[0] + "+" + fmt.Sprintf("%08x", k.KeyHash()+1) + "+" + p[2],
			"other-name": p[0] + "x+" + p[1] + "+" + p[2],
			"short-hash": p[0] + "+" + p[1][:7] + "+" + p[2],
		} {
			_, err := note.NewVerifier(s)
			c.Class(fmt.Sprintf("keys:tampered-verifier-key:%s:accepted=%t", name, err == nil))
		}
	}
}

// c07CRCTwinText returns a text that differs from t in the lowest bit of some of its printable ASCII
// bytes (newlines stay) and has the CRC-32 (IEEE) of t; "" if t has too few such bytes. CRC-32 is
// affine in the message bits, so the set of flips is a solution of a linear system over GF(2).
func c07CRCTwinText(t string) string {
	base := crc32.ChecksumIEEE([]byte(t))
	type row struct {
		delta uint32
		flips []int // positions whose flips combine to delta
	}
	var basis [32]*row
	for i := 0; i < len(t); i++ {
		if t[i] < 0x20 || t[i] >= 0x7f {
			continue
		}
		b := []byte(t)
		b[i] ^= 1
		cur := &row{delta: crc32.ChecksumIEEE(b) ^ base, flips: []int{i}}
		for bit := 31; bit >= 0 && cur.delta != 0; bit-- {
			if cur.delta>>uint(bit)&1 == 0 {
				continue
			}
			if basis[bit] == nil {
				basis[bit] = cur
				cur = nil
				break
			}
			cur = &row{delta: cur.delta ^ basis[bit].delta, flips: append(append([]int(nil), cur.flips...), basis[bit].flips...)}
		}
		if cur != nil && cur.delta == 0 {
			b := []byte(t)
			for _, k := range cur.flips {
				b[k] ^= 1 // a position listed twice cancels out
			}
			if string(b) != t && crc32.ChecksumIEEE(b) == base {
				return string(b)
			}
		}
	}
	return ""
}

func init() {
	add := func(n int, name string, f func(e *c07Env, r *rand.Rand, id string, k int)) {
		for i := 0; i < n; i++ {
			c07Cycle = append(c07Cycle, c07Fam{name, f})
		}
	}
	add(5, "rt", c07RunRT)
	add(6, "mut", c07RunMut)
	add(3, "onebad", c07RunOneBad)
	add(1, "count", c07RunCount)
	add(1, "dup", c07RunDup)
	add(1, "amb", c07RunAmb)
	add(2, "custom", c07RunCustom)
	add(1, "adv", c07RunAdv)
}
