package props

import (
	"fmt"
	"math/rand/v2"
	"strings"
	"unicode"

	"golang.org/x/mod/module"

	"verif/harness/gen"
	"verif/harness/mon"
	"verif/harness/ref/refpath"
)

func init() { Registry["C11"] = runC11 }

// c11Side bundles one of the two escape/unescape pairs with the documented validity of its inputs.
type c11Side struct {
	name     string
	escape   func(string) (string, error)
	unescape func(string) (string, error)
	verdict  func(string) refpath.Verdict
}

func (s c11Side) status(x string) refpath.Status { return s.verdict(x).Status() }

// c11Twice calls f twice in a row with the same argument (every third call, by argument length): the second
// answer must be the first one — a refusal stays a refusal, an accepted value stays the same value.
var c11Ctx *mon.Ctx

func c11Twice(what string, f func(string) (string, error)) func(string) (string, error) {
	return func(x string) (string, error) {
		out, err := f(x)
		if len(x)%3 == 0 && c11Ctx != nil {
			out2, err2 := f(x)
			if out2 != out || (err == nil) != (err2 == nil) {
				c11Ctx.Violation("same-call-answers-differently-the-second-time", what+":"+mon.QS(x), map[string]any{"function": what, "argument": mon.QS(x),
					"first": mon.QS(out), "first_err": fmt.Sprint(err), "second": mon.QS(out2), "second_err": fmt.Sprint(err2)})
			}
		}
		return out, err
	}
}

var c11Path = c11Side{"path", c11Twice("EscapePath", module.EscapePath), c11Twice("UnescapePath", module.UnescapePath),
	func(p string) refpath.Verdict { return refpath.Check(p, refpath.Module) }}
var c11Version = c11Side{"version", c11Twice("EscapeVersion", module.EscapeVersion), c11Twice("UnescapeVersion", module.UnescapeVersion),
	refpath.CheckVersion}

func c11HasUpper(s string) bool {
	for _, r := range s {
		if unicode.IsUpper(r) || unicode.IsTitle(r) {
			return true
		}
	}
	return false
}

func c11UpperCount(s string) string {
	n := 0
	for i := 0; i < len(s); i++ {
		if 'A' <= s[i] && s[i] <= 'Z' {
			n++
		}
	}
	switch {
	case n == 0:
		return "0"
	case n == 1:
		return "1"
	}
	return "many"
}

// c11EscShape names the first reason a string can fail to be an escaped form (class accounting only).
func c11EscShape(e string) string {
	for i := 0; i < len(e); i++ {
		if e[i] >= 0x80 {
			return "non-ascii"
		}
	}
	for i := 0; i < len(e); i++ {
		if e[i] != '!' {
			continue
		}
		switch {
		case i+1 == len(e):
			return "trailing-bang"
		case e[i+1] == '!':
			return "double-bang"
		case 'A' <= e[i+1] && e[i+1] <= 'Z':
			return "bang-upper"
		case '0' <= e[i+1] && e[i+1] <= '9':
			return "bang-digit"
		case e[i+1] < 'a' || e[i+1] > 'z':
			return "bang-other"
		}
		i++
	}
	for i := 0; i < len(e); i++ {
		if 'A' <= e[i] && e[i] <= 'Z' {
			return "bare-upper"
		}
	}
	if strings.Contains(e, "!") {
		return "wellformed-with-bang"
	}
	return "wellformed-plain"
}

type c11State struct {
	c    *mon.Ctx
	fold map[string]string // lower-cased escaped form -> the input it came from (per side, key prefixed)
}

// input observes Escape on x and, when it succeeds, the three guarantees on its result.
func (s *c11State) input(side c11Side, ck c06Chunk, id, g, x string) {
	c := s.c
	if !ck.want(id) {
		return
	}
	ck.wal(id, side.name+"\n"+x)
	c.Guard(id, func() any { return []string{side.name, mon.QS(x)} }, func() {
		st := side.status(x)
		e, err := side.escape(x)
		c.Eval(1)
		c.Class(fmt.Sprintf("escape-%s:%s:%s:upper=%s:accepted=%t", side.name, g, st, c11UpperCount(x), err == nil))
		switch {
		case st == refpath.Invalid && err == nil:
			c.Violation("escape-accepts-invalid-"+side.name, id, map[string]any{"input": mon.QS(x), "escaped": mon.QS(e)})
		case st == refpath.Valid && err != nil:
			c.Violation("escape-rejects-valid-"+side.name, id, map[string]any{"input": mon.QS(x), "error": err.Error()})
		case st == refpath.Unspecified:
			for _, o := range side.verdict(x).Open {
				c.Class(fmt.Sprintf("unspecified:escape-%s:%s:accepted=%t", side.name, o, err == nil))
			}
		}
		if err != nil {
			return
		}
		c.Eval(3)
		if c11HasUpper(e) {
			c.Violation("escaped-"+side.name+"-has-upper-case", id, map[string]any{"input": mon.QS(x), "escaped": mon.QS(e)})
		}
		back, err := side.unescape(e)
		if err != nil {
			c.Violation("unescape-rejects-escaped-"+side.name, id, map[string]any{"input": mon.QS(x), "escaped": mon.QS(e), "error": err.Error()})
		} else if back != x {
			c.Violation("roundtrip-"+side.name, id, map[string]any{"input": mon.QS(x), "escaped": mon.QS(e), "unescaped": mon.QS(back)})
		}
		key := side.name + "\x00" + strings.ToLower(e)
		if prev, dup := s.fold[key]; dup && prev != x {
			prevEsc, _ := side.escape(prev)
			if strings.EqualFold(prevEsc, e) {
				c.Violation("case-fold-collision-"+side.name, id, map[string]any{"a": mon.QS(prev), "b": mon.QS(x), "escaped_a": mon.QS(prevEsc), "escaped_b": mon.QS(e)})
			}
		} else {
			s.fold[key] = x
		}
		if e != x {
			c.Sample("escaped-"+side.name, 3, map[string]string{"input": x, "escaped": e})
		}
	})
}

// escaped observes Unescape on an arbitrary string e.
func (s *c11State) escaped(side c11Side, ck c06Chunk, id, g, e string) {
	c := s.c
	if !ck.want(id) {
		return
	}
	ck.wal(id, "un"+side.name+"\n"+e)
	c.Guard(id, func() any { return []string{"unescape-" + side.name, mon.QS(e)} }, func() {
		x, img := refpath.InImage(e, side.status) // documented image: e is the escape of x, x valid
		y, err := side.unescape(e)
		c.Eval(1)
		c.Class(fmt.Sprintf("unescape-%s:%s:image=%s:accepted=%t", side.name, c11EscShape(e), img, err == nil))
		c.Class(fmt.Sprintf("unescape-gen:%s:%s:accepted=%t", side.name, g, err == nil))
		if err == nil {
			// "Unescaping succeeds only on strings that are the escape of some valid input":
			// the result must be such an input.
			c.Eval(2)
			if st := side.status(y); st == refpath.Invalid {
				c.Violation("unescape-"+side.name+"-yields-invalid", id, map[string]any{"escaped": mon.QS(e), "result": mon.QS(y)})
			}
			if e2, err2 := side.escape(y); err2 != nil || e2 != e {
				d := map[string]any{"escaped": mon.QS(e), "result": mon.QS(y), "escape_of_result": mon.QS(e2)}
				if err2 != nil {
					d["escape_error"] = err2.Error()
				}
				c.Violation("unescape-"+side.name+"-accepts-string-outside-image", id, d)
			}
			if e != y {
				c.Sample("unescaped-"+side.name, 2, map[string]string{"escaped": e, "result": y})
			}
			return
		}
		c.Sample("unescape-rejected-"+side.name, 3, map[string]string{"escaped": mon.QS(e), "shape": c11EscShape(e)})
		if img == refpath.Valid {
			// rejected although the documented form says it is an escape of the valid input x: it is a
			// refutation only if the real Escape does map x to e
			if e2, err2 := side.escape(x); err2 == nil && e2 == e {
				c.Violation("unescape-rejects-escaped-"+side.name, id, map[string]any{"input": mon.QS(x), "escaped": mon.QS(e), "error": err.Error()})
			}
		}
	})
}

// c11MutateEscaped applies one edit that targets the rules of the escaped form.
func c11MutateEscaped(r *rand.Rand, e string) string {
	b := []byte(e)
	pos := func() int { return r.IntN(len(b) + 1) }
	ins := func(i int, s string) string { return string(b[:i]) + s + string(b[i:]) }
	switch r.IntN(12) {
	case 0:
		return ins(pos(), "!")
	case 1:
		return e + "!"
	case 2:
		return ins(pos(), "!!")
	case 3:
		return ins(pos(), "!"+string(rune('A'+r.IntN(26))))
	case 4:
		return ins(pos(), "!"+string(rune('0'+r.IntN(10))))
	case 5:
		return ins(pos(), "!"+gen.Pick(r, []string{"-", ".", "/", "_", "~", "{", "`", "@", "[", " ", "\x00", "é"}))
	case 6: // upper-case one letter
		for try := 0; try < 8 && len(b) > 0; try++ {
			i := r.IntN(len(b))
			if 'a' <= b[i] && b[i] <= 'z' {
				b[i] -= 'a' - 'A'
				break
			}
		}
		return string(b)
	case 7: // drop a bang
		if i := strings.IndexByte(e, '!'); i >= 0 {
			return e[:i] + e[i+1:]
		}
		return ins(pos(), "!"+string(rune('a'+r.IntN(26))))
	case 8:
		return ins(pos(), gen.Pick(r, []string{"é", "世", "\u212a", "\u017f", "\xff", "\u0130", "\u0131"}))
	case 9:
		return ins(pos(), "!"+string(rune('a'+r.IntN(26))))
	case 10:
		return ins(pos(), gen.Pick(r, []string{"!z", "!a", "!{", "!`", "!@", "![", "!Z", "!A"}))
	}
	return gen.MutateString(r, e)
}

var c11EscSoup = []string{"a", "b", "z", "A", "Z", "!", "!", "!a", "!z", "!A", "!1", "!!", "0", "1", "9", "-", ".", "_", "~", "/", "/", "+", "@", " ", "é", "世", "\u212a", "\xff", "\x00",
	"example.com", "github.com/", "gopkg.in/", ".v1", "/v2", "v1.0.0", "-rc", "+incompatible", "con", "!c!o!n", "nul", "~1", ".."}

func c11Soup(r *rand.Rand) string {
	var sb strings.Builder
	if r.IntN(3) == 0 {
		sb.WriteString("example.com/")
	}
	for i, n := 0, 1+r.IntN(7); i < n; i++ {
		sb.WriteString(gen.Pick(r, c11EscSoup))
	}
	return sb.String()
}

var c11VersionWords = []string{"master", "main", "latest", "HEAD", "Branch-Name", "RELEASE.2020-01-01T00-00-00Z", "v1.0.0-RC1", "v1.0.0-Beta.2", "V1.0.0", "1.0", "release_1", "go1.21",
	"v0.0.0-20200101000000-ABCDEF123456", "v2.0.0+Incompatible", "v1.2.3+META", "a b", "x=y", "(1)", "[2]", "{3}", "#4", "50%", "-dash", ".hidden", "~", "CON", "con.1", "Nul", "com1.x", "LPT9",
	"v1..2", "v1~1", "v1~1.0", "v1.0~1", "..", ".", "v1.", "", "a/b", "a\\b", "a:b", "a*b", "a?b", "a|b", "a<b", "a>b", "a\"b", "a'b", "a`b", "v1!", "!v1", "v!a", "vé", "\u00c9", "世", "\u212a", "\u01c5", "v\xff", "v\x00", "a\tb"}

func c11VersionInput(r *rand.Rand) (string, string) {
	switch r.IntN(8) {
	case 0:
		return "semver", gen.CaseMix(r, gen.ValidVersion(r, true), 0.4)
	case 1:
		return "semver-like", gen.CaseMix(r, gen.Version(r), 0.3)
	case 2:
		return "word", gen.Pick(r, c11VersionWords)
	case 3:
		return "word-cased", gen.CaseMix(r, gen.Pick(r, c11VersionWords), 0.5)
	case 4:
		return "file-element", gen.Elem(r, gen.FileElemAlphabet, 10, nil)
	case 5:
		return "file-element-valid", gen.Elem(r, gen.FileElemAlphabet, 10, func(e string) bool { return refpath.CheckVersion(e).Status() == refpath.Valid })
	case 6:
		return "mutated", gen.MutateString(r, gen.CaseMix(r, gen.ValidVersion(r, false), 0.4))
	}
	return "soup", c11Soup(r)
}

func runC11(c *mon.Ctx) {
	if strings.HasPrefix(c.ReplayCase, coldChildPrefix) {
		coldStartChild(c)
		return
	}
	coldStart(c, "C11")
	c11Ctx = c
	r := c.Rng
	s := &c11State{c: c, fold: map[string]string{}}
	okMod := c06OK(refpath.Module)
	okImp, okFile := c06OK(refpath.Import), c06OK(refpath.File)

	pathInput := func() (string, string) {
		switch r.IntN(11) {
		case 10:
			// the suffix tables of the C06 engine: validity of the input decides whether escaping may succeed
			if r.IntN(2) == 0 {
				return "suffix-table", "gopkg.in/" + gen.CaseMix(r, gen.Elem(r, gen.ModuleElemAlphabet, 5, okMod), 0.4) + gen.Pick(r, c06GopkgSuffixes)
			}
			return "suffix-table", gen.Domain(r, okMod) + "/" + gen.CaseMix(r, gen.Elem(r, gen.ModuleElemAlphabet, 5, okMod), 0.4) + gen.Pick(r, c06Majors)
		case 0, 1:
			return "valid-module", gen.ModulePath(r, okMod)
		case 2, 3:
			// dense upper/lower variation outside the first element
			p := gen.ModulePath(r, okMod)
			if i := strings.IndexByte(p, '/'); i >= 0 {
				p = p[:i] + gen.CaseMix(r, p[i:], 0.2+0.6*r.Float64())
			}
			return "valid-module-cased", p
		case 4:
			return "module-cased-everywhere", gen.CaseMix(r, gen.ModulePath(r, okMod), 0.5)
		case 5:
			return "mutated-module", gen.MutateString(r, gen.ModulePath(r, okMod))
		case 6:
			return "import-path", gen.ImportPath(r, okImp)
		case 7:
			return "file-path", gen.FilePath(r, okFile)
		case 8:
			return "bang-inserted", gen.InsertAt(r, gen.ModulePath(r, okMod), gen.Pick(r, []string{"!", "!a", "!A", "é", "\u212a"}), 0)
		}
		return "soup", gen.PathSoup(r)
	}

	// ---- escape side: inputs ------------------------------------------------------------------------
	// Pools of documented escapes of documented-valid inputs (model only, so that the later draws do
	// not depend on what the code under test answered).
	type poolT struct{ l []string }
	keep := func(p *poolT, st refpath.Status, x string) {
		if st != refpath.Valid {
			return
		}
		if len(p.l) < 1024 {
			p.l = append(p.l, refpath.Escape(x))
		} else {
			p.l[r.IntN(len(p.l))] = refpath.Escape(x)
		}
	}
	escPool, verPool := &poolT{}, &poolT{}
	nIn := c.Share(c.Scale(800_000, 30_000_000))
	c06RunChunked(c, "ip", nIn, func(i int) c06Case {
		g, x := pathInput()
		keep(escPool, c11Path.status(x), x)
		id := fmt.Sprintf("ip%d", i)
		return c06Case{id, mon.QS(x), func(k c06Chunk) { s.input(c11Path, k, id, g, x) }}
	})
	c06RunChunked(c, "iv", nIn/2, func(i int) c06Case {
		g, v := c11VersionInput(r)
		keep(verPool, c11Version.status(v), v)
		id := fmt.Sprintf("iv%d", i)
		return c06Case{id, mon.QS(v), func(k c06Chunk) { s.input(c11Version, k, id, g, v) }}
	})
	// fixed version words, both directions
	each := c06Chunk{c: c}
	for i, w := range c11VersionWords {
		if c.Mine(i) {
			s.input(c11Version, each, fmt.Sprintf("word%d", i), "word", w)
			s.escaped(c11Version, each, fmt.Sprintf("uword%d", i), "word", w)
			s.escaped(c11Version, each, fmt.Sprintf("eword%d", i), "word-escaped", refpath.Escape(w))
		}
	}

	// ---- case-variant families: all 2^k casings of a skeleton, escapes compared pairwise -------------
	nFam := c.Share(c.Scale(1360, 51000))
	for f := 0; f < nFam; f++ {
		id := fmt.Sprintf("fam%d", f)
		side := c11Path
		var family []string
		k := 5 + r.IntN(4) // up to 32..256 casings
		letterRich := strings.Split("abcdefghijklmnopqrstuvwxyzabcdefghijklmnopqrstuvwxyzabcdefghijklmnopqrstuvwxyz0123456789-._~", "")
		richElem := func(min, max int, ok func(string) bool) string {
			return gen.Elem(r, letterRich, max, func(e string) bool { return len(e) >= min && ok(e) })
		}
		if f%3 == 2 {
			side = c11Version
			sk := gen.Pick(r, []string{"v1.0.0-", "v0.0.0-2020-", "", "v2.1.0+", "rel-"}) + richElem(6, 10, func(e string) bool {
				return !strings.ContainsAny(e, "_~") && refpath.CheckVersion("v1.0.0-"+e).Status() == refpath.Valid
			})
			family = gen.CaseFamily(sk, k)
		} else {
			first := gen.Domain(r, okMod)
			tail := "/" + richElem(4, 8, okMod)
			if r.IntN(2) == 0 {
				tail += "/" + richElem(2, 5, okMod)
			}
			if r.IntN(4) == 0 {
				tail += "/v2"
			}
			for _, t := range gen.CaseFamily(tail, k) {
				family = append(family, first+t)
			}
		}
		// one write-ahead record for the family; replaying the family id re-runs all members and the pairwise pass
		fk := c06Chunk{c, id}
		anyWanted := c.Want(id)
		for j := range family {
			anyWanted = anyWanted || c.Want(fmt.Sprintf("%s.%d", id, j))
		}
		if !anyWanted {
			continue
		}
		c.WAL(id, []byte(side.name+" family of "+mon.QS(family[len(family)-1])))
		// the per-input guarantees are checked by input() (each member is its own case) ...
		for j, x := range family {
			if side.status(x) != refpath.Invalid {
				s.input(side, fk, fmt.Sprintf("%s.%d", id, j), "case-family", x)
			}
		}
		if !c.Want(id) {
			continue
		}
		// ... and the family as a whole is one case: escapes compared pairwise
		type pair struct{ x, e string }
		var escs []pair
		c.Guard(id, func() any { return mon.QS(family[len(family)-1]) }, func() {
			for _, x := range family {
				if side.status(x) == refpath.Invalid {
					continue
				}
				if e, err := side.escape(x); err == nil {
					escs = append(escs, pair{x, e})
				}
			}
		})
		c.Class(fmt.Sprintf("case-family:%s:size=%d", side.name, len(family)))
		for a := 0; a < len(escs); a++ {
			for b := a + 1; b < len(escs); b++ {
				if escs[a].x != escs[b].x && strings.EqualFold(escs[a].e, escs[b].e) {
					c.Violation("case-fold-collision-"+side.name, id, map[string]any{"a": mon.QS(escs[a].x), "b": mon.QS(escs[b].x),
						"escaped_a": mon.QS(escs[a].e), "escaped_b": mon.QS(escs[b].e)})
				}
			}
		}
		c.Eval(len(escs) * (len(escs) - 1) / 2)
		c.Count("case_family_pairs", len(escs)*(len(escs)-1)/2)
	}

	// ---- unescape side: strings around and outside the image --------------------------------------
	if len(escPool.l) == 0 {
		escPool.l = append(escPool.l, "example.com/!a")
	}
	if len(verPool.l) == 0 {
		verPool.l = append(verPool.l, "v1.0.0-!r!c1")
	}
	c06RunChunked(c, "u", c.Share(c.Scale(800_000, 30_000_000)), func(i int) c06Case {
		side, pool := c11Path, escPool.l
		if i%3 == 2 {
			side, pool = c11Version, verPool.l
		}
		var g, e string
		switch r.IntN(8) {
		case 0:
			g, e = "in-image", pool[r.IntN(len(pool))]
		case 1, 2, 3, 4:
			g, e = "image-mutated", c11MutateEscaped(r, pool[r.IntN(len(pool))])
		case 5:
			var x string
			if side.name == "path" {
				_, x = pathInput()
			} else {
				_, x = c11VersionInput(r)
			}
			g, e = "documented-escape-of-input", refpath.Escape(x)
		case 6:
			if side.name == "path" {
				e = gen.CaseMix(r, gen.ModulePath(r, okMod), 0.3)
			} else {
				_, e = c11VersionInput(r)
			}
			g = "raw-input"
		default:
			g, e = "soup", c11Soup(r)
		}
		id := fmt.Sprintf("u%d", i)
		return c06Case{id, side.name + " " + mon.QS(e), func(k c06Chunk) { s.escaped(side, k, id, g, e) }}
	})
}
