package props

import (
	"archive/zip"
	"bytes"
	"crypto/sha256"
	"encoding/hex"
	"errors"
	"fmt"
	"hash/crc32"
	"io"
	"math/rand/v2"
	"os"
	"path/filepath"
	"runtime"
	"slices"
	"sort"
	"strings"
	"testing/iotest"
	"time"
	"unicode/utf8"

	"golang.org/x/mod/module"
	"golang.org/x/mod/sumdb/dirhash"
	modzip "golang.org/x/mod/zip"

	"verif/harness/gen"
	"verif/harness/mon"
	"verif/harness/ref/refhash"
)

func init() { Registry["C19"] = runC19 }

type c19Set = []refhash.File

func c19ErrStr(err error) string {
	if err == nil {
		return "<nil>"
	}
	return err.Error()
}

func c19Hex(data []byte) string {
	h := sha256.Sum256(data)
	return hex.EncodeToString(h[:])
}

// c19Content returns file content; pool holds contents already used in the set.
func c19Content(r *rand.Rand, name string, set c19Set) []byte {
	switch r.IntN(14) {
	case 0:
		return nil
	case 1:
		return []byte(name)
	case 2:
		return []byte("\n")
	case 3: // looks like a summary line
		return []byte(c19Hex([]byte(name)) + "  " + name + "\n")
	case 4: // same content as another file
		if len(set) > 0 {
			return slices.Clone(set[r.IntN(len(set))].Data)
		}
	case 5: // crosses the copy buffer of io.Copy (32 KiB), compressible
		n := gen.Pick(r, []int{32767, 32768, 32769, 65536, 70001})
		if r.IntN(8) > 0 {
			n = 1 + r.IntN(3000)
		}
		unit := gen.Pick(r, []string{"a", "ab\n", "\x00", "package m\n"})
		return bytes.Repeat([]byte(unit), n/len(unit)+1)[:n]
	case 6:
		return []byte("module example.com/m\n")
	case 7: // other bytes of the same length and the same CRC-32 as another file (what a zip directory records about content)
		if len(set) > 0 {
			if o := set[r.IntN(len(set))].Data; len(o) >= 5 && len(o) <= 4096 {
				if tw := c19CRCTwin(r, o); tw != nil {
					return tw
				}
			}
		}
	}
	b := make([]byte, r.IntN(40))
	for i := range b {
		b[i] = byte(r.IntN(256))
	}
	if r.IntN(2) == 0 { // texty
		for i := range b {
			b[i] = "abc \n\r\t0{}"[int(b[i])%10]
		}
	}
	return b
}

// c19CRCTwin returns content different from o with len(o) bytes and the CRC-32 (IEEE) of o: a fresh
// prefix followed by the four bytes that steer the checksum to the wanted value. nil if that fails.
func c19CRCTwin(r *rand.Rand, o []byte) []byte {
	tab := crc32.IEEETable
	tw := make([]byte, len(o))
	for i := range tw[:len(tw)-4] {
		tw[i] = o[i]
	}
	k := r.IntN(len(tw) - 4)
	tw[k] ^= byte(1 + r.IntN(255))
	reg := ^crc32.ChecksumIEEE(tw[:len(tw)-4])
	w := ^crc32.ChecksumIEEE(o)
	var idx [4]byte
	for i := 3; i >= 0; i-- {
		for j := 0; j < 256; j++ {
			if tab[j]>>24 == w>>24 {
				idx[i] = byte(j)
				break
			}
		}
		w = (w ^ tab[idx[i]]) << 8
	}
	for i := 0; i < 4; i++ {
		tw[len(tw)-4+i] = byte(reg) ^ idx[i]
		reg = tab[idx[i]] ^ (reg >> 8)
	}
	if crc32.ChecksumIEEE(tw) != crc32.ChecksumIEEE(o) || bytes.Equal(tw, o) {
		return nil
	}
	return tw
}

var c19NamePieces = []string{"a", "b", "A", "B", "ab", "go.mod", "/", "/", " ", "  ", "\r", "\t", "é", "世", ".", "-", "_", "0", "x", "z", "\\", "\x00", "\xff", "~", "@v1.0.0", "m@v", "é́"}

// c19Name returns an arbitrary name without a newline.
func c19Name(r *rand.Rand, set c19Set) string {
	switch r.IntN(12) {
	case 0:
		return gen.Pick(r, []string{"", " ", "  ", "a", "a ", " a", "a  b", "a b", "a/b", "a.b", "a-b", "a", "A", "a/", "/a", "\r", "a\r", "é", "é", "\xc3", "a\x00b"})
	case 1: // <64 hex>␠␠x : the name looks like a summary line
		data := []byte("x")
		if len(set) > 0 {
			data = set[r.IntN(len(set))].Data
		}
		return c19Hex(data) + "  " + gen.Pick(r, []string{"x", "a", "go.mod", "", "x  y"})
	case 2, 3: // extension or truncation of a name already in the set
		if len(set) > 0 {
			n := set[r.IntN(len(set))].Name
			if r.IntN(3) == 0 && len(n) > 0 {
				return n[:r.IntN(len(n))]
			}
			return n + gen.Pick(r, c19NamePieces)
		}
	case 4: // double of an existing name separated like a summary
		if len(set) > 0 {
			f := set[r.IntN(len(set))]
			return f.Name + "  " + c19Hex(f.Data)
		}
	}
	var sb strings.Builder
	k := 1 + r.IntN(6)
	for i := 0; i < k; i++ {
		sb.WriteString(gen.Pick(r, c19NamePieces))
	}
	return sb.String()
}

func c19HasName(set c19Set, name string) bool {
	for _, f := range set {
		if f.Name == name {
			return true
		}
	}
	return false
}

func c19GenSet(r *rand.Rand) c19Set {
	n := r.IntN(11)
	if r.IntN(30) == 0 {
		n = 11 + r.IntN(60)
	}
	var set c19Set
	for i := 0; i < n; i++ {
		name := c19Name(r, set)
		if c19HasName(set, name) {
			continue
		}
		set = append(set, refhash.File{Name: name, Data: c19Content(r, name, set)})
	}
	return set
}

// c19Opener serves the contents of a set through readers with different chunking.
func c19Opener(set c19Set, mode int, opened map[string]int) func(string) (io.ReadCloser, error) {
	m := make(map[string][]byte, len(set))
	for _, f := range set {
		m[f.Name] = f.Data
	}
	return func(name string) (io.ReadCloser, error) {
		data, ok := m[name]
		if !ok {
			return nil, fmt.Errorf("harness: Hash1 asked for %q, which is not in the list", name)
		}
		if opened != nil {
			opened[name]++
		}
		var rd io.Reader = bytes.NewReader(data)
		switch mode % 4 {
		case 1:
			rd = iotest.OneByteReader(rd)
		case 2:
			rd = iotest.DataErrReader(rd)
		case 3:
			rd = iotest.HalfReader(rd)
		}
		return io.NopCloser(rd), nil
	}
}

func c19Names(set c19Set) []string {
	out := make([]string, len(set))
	for i, f := range set {
		out[i] = f.Name
	}
	return out
}

func c19Describe(set c19Set) any {
	var out []map[string]string
	for i, f := range set {
		if i == 12 {
			out = append(out, map[string]string{"more": fmt.Sprint(len(set) - i)})
			break
		}
		d := f.Data
		suffix := ""
		if len(d) > 80 {
			suffix = fmt.Sprintf("…(%d bytes, sha256 %s)", len(d), c19Hex(d))
			d = d[:80]
		}
		out = append(out, map[string]string{"name": mon.QS(f.Name), "data": mon.Q(d) + suffix})
	}
	return out
}

// c19Derive returns a set that differs from set in one small, collision-seeking way.
func c19Derive(r *rand.Rand, set c19Set) (c19Set, string) {
	out := make(c19Set, len(set))
	for i, f := range set {
		out[i] = refhash.File{Name: f.Name, Data: slices.Clone(f.Data)}
	}
	if len(out) == 0 {
		return append(out, refhash.File{Name: gen.Pick(r, []string{"", "a", " "}), Data: nil}), "add-empty-file"
	}
	i := r.IntN(len(out))
	f := &out[i]
	switch r.IntN(12) {
	case 0: // last byte of the name becomes the first byte of the content
		if len(f.Name) > 0 && f.Name[len(f.Name)-1] != '\n' {
			f.Data = append([]byte{f.Name[len(f.Name)-1]}, f.Data...)
			f.Name = f.Name[:len(f.Name)-1]
			return out, "name-byte-to-content"
		}
	case 1: // first byte of the content becomes the last byte of the name
		if len(f.Data) > 0 && f.Data[0] != '\n' {
			f.Name += string(f.Data[:1])
			f.Data = f.Data[1:]
			return out, "content-byte-to-name"
		}
	case 2:
		if len(out) > 1 {
			j := (i + 1 + r.IntN(len(out)-1)) % len(out)
			out[i].Data, out[j].Data = out[j].Data, out[i].Data
			return out, "swap-contents"
		}
	case 3:
		if len(out) > 1 {
			j := (i + 1 + r.IntN(len(out)-1)) % len(out)
			out[i].Name, out[j].Name = out[j].Name, out[i].Name
			out[i].Data, out[j].Data = out[j].Data, out[i].Data
			return out, "reorder-only" // the same set
		}
	case 4:
		f.Name = gen.Pick(r, []string{" ", "  ", ""}) + f.Name + gen.Pick(r, []string{" ", "", "  "})
		return out, "pad-name-with-spaces"
	case 5:
		if len(f.Data) > 0 {
			f.Data[r.IntN(len(f.Data))] ^= 1 << r.IntN(8)
			return out, "flip-content-bit"
		}
	case 6: // one file becomes two
		k := 0
		if len(f.Data) > 0 {
			k = r.IntN(len(f.Data))
		}
		a, b := f.Data[:k], f.Data[k:]
		nn := f.Name + gen.Pick(r, []string{"x", " ", "/", "  " + f.Name})
		f.Data = slices.Clone(a)
		return append(out, refhash.File{Name: nn, Data: slices.Clone(b)}), "split-file"
	case 7: // the summary line of a file becomes a name
		return append(out, refhash.File{Name: c19Hex(f.Data) + "  " + f.Name, Data: nil}), "add-file-named-like-summary-line"
	case 8:
		return append(out, refhash.File{Name: f.Name + gen.Pick(r, []string{" ", "\r", "/", "."}), Data: nil}), "add-empty-file"
	case 9:
		f.Data = []byte(c19Hex(f.Data))
		return out, "content-replaced-by-own-hash"
	case 10: // two files joined under a name that spells both lines (without the newline it cannot collide)
		if len(out) > 1 {
			j := (i + 1) % len(out)
			g := out[j]
			f.Name = f.Name + "  " + c19Hex(g.Data) + "  " + g.Name
			return slices.Delete(out, j, j+1), "join-two-files-in-one-name"
		}
	}
	return slices.Delete(out, i, i+1), "remove-file"
}

func c19Dedup(set c19Set) (c19Set, bool) {
	seen := map[string]bool{}
	for _, f := range set {
		if seen[f.Name] {
			return nil, false
		}
		seen[f.Name] = true
	}
	return set, true
}

func c19NameShape(set c19Set) []string {
	var cl []string
	has := func(pred func(string) bool) bool {
		for _, f := range set {
			if pred(f.Name) {
				return true
			}
		}
		return false
	}
	if has(func(n string) bool { return strings.Contains(n, "  ") }) {
		cl = append(cl, "double-space")
	}
	if has(func(n string) bool {
		return len(n) >= 66 && n[64:66] == "  " && strings.Trim(n[:64], "0123456789abcdef") == ""
	}) {
		cl = append(cl, "hex64-two-spaces")
	}
	if has(func(n string) bool { return strings.Contains(n, "\r") }) {
		cl = append(cl, "carriage-return")
	}
	if has(func(n string) bool { return strings.IndexFunc(n, func(r rune) bool { return r >= 0x80 }) >= 0 }) {
		cl = append(cl, "non-ascii")
	}
	if has(func(n string) bool { return n == "" }) {
		cl = append(cl, "empty-name")
	}
	for i := range set {
		for j := range set {
			if i != j && strings.HasPrefix(set[j].Name, set[i].Name) {
				cl = append(cl, "prefix-pair")
				return cl
			}
		}
	}
	return cl
}

func runC19(c *mon.Ctx) {
	// io.Copy inside Hash1 allocates a 32 KiB buffer per file for readers without
	// WriteTo; with a tiny live heap that means a GC cycle every hundred files.
	// An untouched ballast makes the cycles rare (it costs address space only).
	ballast := make([]byte, 128<<20)
	defer runtime.KeepAlive(ballast)
	c19Sets(c)
	c19Trees(c)
}

// ---- Hash1 against the formula, permutations, near collisions, newline refusal -------------------------

// One "case" of the set family is a chunk of c19Chunk file sets (one
// write-ahead record per chunk, a replay re-runs the chunk).
const c19Chunk = 16

type c19Derived struct {
	set  c19Set
	kind string
}

type c19SetCase struct {
	set    c19Set
	perms  [][]string
	ders   []c19Derived
	nlName string
	nlPos  int
	mode   int
}

func c19DrawSetCase(r *rand.Rand) c19SetCase {
	var cs c19SetCase
	set := c19GenSet(r)
	cs.set = set
	// eight listing orders
	names := c19Names(set)
	sorted := slices.Clone(names)
	sort.Strings(sorted)
	rev := slices.Clone(sorted)
	slices.Reverse(rev)
	cs.perms = append(cs.perms, names, sorted, rev)
	for len(cs.perms) < 8 {
		p := slices.Clone(names)
		r.Shuffle(len(p), func(a, b int) { p[a], p[b] = p[b], p[a] })
		cs.perms = append(cs.perms, p)
	}
	for k := 0; k < 4; k++ {
		d, kind := c19Derive(r, set)
		cs.ders = append(cs.ders, c19Derived{d, kind})
	}
	// newline variant
	if len(set) > 0 {
		cs.nlPos = r.IntN(len(set))
		n := set[cs.nlPos].Name
		k := r.IntN(len(n) + 1)
		cs.nlName = n[:k] + gen.Pick(r, []string{"\n", "\n", "\r\n", "\n\n"}) + n[k:]
	}
	cs.mode = r.IntN(4)
	return cs
}

func c19Sets(c *mon.Ctx) {
	r := c.Rng
	nSets := c.Share(c.Scale(30_000, 3_000_000))
	for start := 0; start < nSets; start += c19Chunk {
		id := fmt.Sprintf("h%d", start)
		cases := make([]c19SetCase, min(c19Chunk, nSets-start))
		for j := range cases {
			cases[j] = c19DrawSetCase(r)
		}
		if !c.Want(id) {
			continue
		}
		var wal strings.Builder
		for _, cs := range cases {
			fmt.Fprintf(&wal, "%q\n", c19Names(cs.set))
		}
		c.WAL(id, []byte(wal.String()))
		for j, cs := range cases {
			c19CheckSet(c, id, j, cs)
		}
	}
}

// c19CheckSet runs every Hash1 monitor on one file set.
func c19CheckSet(c *mon.Ctx, id string, item int, cs c19SetCase) {
	set, perms, ders, nlName, nlPos, mode := cs.set, cs.perms, cs.ders, cs.nlName, cs.nlPos, cs.mode
	viol := func(class string, d map[string]any) {
		d["item"] = item
		c.Violation(class, id, d)
	}
	{
		c.Guard(id, func() any { return map[string]any{"item": item, "files": c19Describe(set)} }, func() {
			want, err := refhash.Hash1(set)
			if err != nil {
				c.Inconclusive("harness defect: C19 generated a newline name in the valid family")
				return
			}
			wantSummary, _ := refhash.Summary(set)
			var got0 string
			for pi, p := range perms {
				in := slices.Clone(p)
				rm := 0 // plain reader; two of the eight orders go through chunked readers
				if pi < 2 {
					rm = mode + pi
				}
				// a caller that keeps contents in a slice parallel to the list it passes (positional lookup):
				// the listing it handed over must still be in its own order when open is called
				var got string
				var err error
				if pi%2 == 1 {
					byPos := make([][]byte, len(in))
					for i, n := range p {
						for _, f := range set {
							if f.Name == n {
								byPos[i] = f.Data
							}
						}
					}
					got, err = dirhash.Hash1(in, func(name string) (io.ReadCloser, error) {
						for i, n := range in {
							if n == name {
								return io.NopCloser(bytes.NewReader(byPos[i])), nil
							}
						}
						return nil, fmt.Errorf("harness: %q not in the list", name)
					})
				} else {
					got, err = dirhash.Hash1(in, c19Opener(set, rm, nil))
				}
				c.Eval(1)
				if !slices.Equal(in, p) {
					viol("hash1-modified-the-callers-list", map[string]any{"files": c19Describe(set), "order_before": fmt.Sprintf("%q", p), "order_after": fmt.Sprintf("%q", in)})
					return
				}
				if err != nil || got != want {
					viol("hash1-not-the-documented-formula", map[string]any{"files": c19Describe(set), "order": fmt.Sprintf("%q", p), "got": got, "err": c19ErrStr(err), "want": want, "summary": mon.Q(wantSummary)})
					return
				}
				if pi == 0 {
					got0 = got
				} else if got != got0 {
					viol("hash1-depends-on-listing-order", map[string]any{"files": c19Describe(set), "order": fmt.Sprintf("%q", p), "got": got, "first": got0})
					return
				}
			}
			// a read error after a successful open must surface as an error, never as the hash of the
			// truncated content
			if len(set) > 0 {
				victim := set[item%len(set)]
				cut := 0
				if len(victim.Data) > 0 {
					cut = (item * 7) % (len(victim.Data) + 1)
				}
				faulty := func(name string) (io.ReadCloser, error) {
					for _, f := range set {
						if f.Name == name {
							if name == victim.Name {
								return io.NopCloser(io.MultiReader(bytes.NewReader(f.Data[:cut]), iotest.ErrReader(errors.New("injected read fault")))), nil
							}
							return io.NopCloser(bytes.NewReader(f.Data)), nil
						}
					}
					return nil, fmt.Errorf("harness: %q not in the list", name)
				}
				got, err := dirhash.Hash1(c19Names(set), faulty)
				c.Eval(1)
				if err == nil {
					viol("hash-returned-despite-read-error", map[string]any{"files": c19Describe(set), "failing_file": mon.QS(victim.Name), "bytes_before_fault": cut, "got": got})
					return
				}
				c.Class("read-fault:error-propagated")
			}
			switch {
			case len(set) == 0:
				c.Class("set:empty")
			case len(set) == 1:
				c.Class("set:one-file")
			case len(set) > 10:
				c.Class("set:many-files")
			default:
				c.Class("set:2-10-files")
			}
			for _, s := range c19NameShape(set) {
				c.Class("names:" + s)
			}
			for _, f := range set {
				if len(f.Data) > 32768 {
					c.Class("content:larger-than-copy-buffer")
					break
				}
			}
			if item == 0 && len(set) >= 2 && len(set) <= 5 {
				c.Sample("file-set", 2, map[string]any{"files": c19Describe(set), "h1": want, "summary": mon.Q(wantSummary)})
			}

			// near collisions: a different set must have a different hash (and its own formula value)
			for _, d := range ders {
				ds, ok := c19Dedup(d.set)
				if !ok {
					c.Class("derive:" + d.kind + ":name-clash-skipped")
					continue
				}
				wantD, err := refhash.Hash1(ds)
				if err != nil {
					c.Class("derive:" + d.kind + ":newline-skipped")
					continue
				}
				gotD, err := dirhash.Hash1(c19Names(ds), c19Opener(ds, 0, nil))
				c.Eval(2)
				if err != nil || gotD != wantD {
					viol("hash1-not-the-documented-formula", map[string]any{"files": c19Describe(ds), "derived-by": d.kind, "got": gotD, "err": c19ErrStr(err), "want": wantD})
					return
				}
				same := refhash.SameSet(set, ds)
				sumD, _ := refhash.Summary(ds)
				if !same && bytes.Equal(sumD, wantSummary) {
					// would mean the documented summary itself is not injective on newline-free names
					viol("documented-summary-not-injective", map[string]any{"a": c19Describe(set), "b": c19Describe(ds), "summary": mon.Q(sumD)})
					return
				}
				if same != (gotD == got0) {
					viol("different-sets-same-hash", map[string]any{"a": c19Describe(set), "b": c19Describe(ds), "derived-by": d.kind, "same-set": same, "hash-a": got0, "hash-b": gotD})
					return
				}
				if same {
					c.Class("derive:" + d.kind + ":same-set-same-hash")
				} else {
					c.Class("derive:" + d.kind + ":different-hash")
				}
			}

			// names with a newline are refused, wherever they stand in the list
			if len(set) > 0 {
				bad := make(c19Set, len(set))
				copy(bad, set)
				bad[nlPos].Name = nlName
				if _, ok := c19Dedup(bad); ok {
					for _, p := range [][]string{c19Names(bad), func() []string { s := c19Names(bad); sort.Strings(s); return s }()} {
						got, err := dirhash.Hash1(slices.Clone(p), c19Opener(bad, 0, nil))
						c.Eval(1)
						if err == nil {
							viol("newline-name-accepted", map[string]any{"names": fmt.Sprintf("%q", p), "got": got})
							return
						}
					}
					pos := "middle"
					switch {
					case strings.HasPrefix(nlName, "\n") || strings.HasPrefix(nlName, "\r\n"):
						pos = "start"
					case strings.HasSuffix(nlName, "\n"):
						pos = "end"
					}
					c.Class("newline:" + pos + ":refused")
				}
			}
			// the collision a newline would buy: {a\n<hash(c2)>  b : c1} against {a : c1, b : c2}
			if len(set) >= 2 {
				f, g := set[0], set[1]
				if f.Name > g.Name {
					f, g = g, f
				}
				// only an exact textual collision when no other name sorts between the two lines; try it regardless
				rest := c19Set{}
				for _, o := range set[2:] {
					rest = append(rest, o)
				}
				joined := append(c19Set{{Name: f.Name + "\n" + c19Hex(g.Data) + "  " + g.Name, Data: f.Data}}, rest...)
				if _, ok := c19Dedup(joined); ok {
					got, err := dirhash.Hash1(c19Names(joined), c19Opener(joined, 0, nil))
					c.Eval(1)
					if err == nil {
						viol("newline-name-accepted", map[string]any{"names": fmt.Sprintf("%q", c19Names(joined)), "got": got, "collides-with-two-file-set": got == got0, "two-file-set": c19Describe(set)})
						return
					}
					c.Class("newline:forged-second-line:refused")
				}
			}
		})
	}
}

// ---- HashDir / DirFiles / HashZip on materialised trees and archives ------------------------------------

var c19Comps = []string{"a", "b", "c", "A", "go.mod", "x.go", "sp ace", "dbl  space", "cr\rx", "é", "世界", "a.", ".hidden", "-dash", "x\\y", "\xff\xfe", " lead", "trail ",
	"a\tb", "ab", "a b", "a  b", "LICENSE", "vendor", "~", "@v1", "m@v", "é"}

// c19TreeNames returns relative slash paths that can coexist in one directory tree.
func c19TreeNames(r *rand.Rand, comps []string, extra func() string) []string {
	n := r.IntN(9)
	if r.IntN(25) == 0 {
		n = 10 + r.IntN(30)
	}
	var names []string
	isDir, isFile := map[string]bool{}, map[string]bool{}
	for i := 0; i < n; i++ {
		depth := 1 + r.IntN(4)
		var parts []string
		for d := 0; d < depth; d++ {
			p := gen.Pick(r, comps)
			if extra != nil && r.IntN(8) == 0 {
				p = extra()
			}
			parts = append(parts, p)
		}
		name := strings.Join(parts, "/")
		ok := !isDir[name] && !isFile[name]
		for d := 1; d < len(parts) && ok; d++ {
			if isFile[strings.Join(parts[:d], "/")] {
				ok = false
			}
		}
		if !ok {
			continue
		}
		for d := 1; d < len(parts); d++ {
			isDir[strings.Join(parts[:d], "/")] = true
		}
		isFile[name] = true
		names = append(names, name)
	}
	return names
}

func c19WriteTree(root string, set c19Set) error {
	if err := os.MkdirAll(root, 0o777); err != nil {
		return err
	}
	for _, f := range set {
		p := filepath.Join(root, filepath.FromSlash(f.Name))
		if err := os.MkdirAll(filepath.Dir(p), 0o777); err != nil {
			return err
		}
		if err := os.WriteFile(p, f.Data, 0o666); err != nil {
			return err
		}
	}
	return nil
}

func c19WithPrefix(prefix string, set c19Set) c19Set {
	out := make(c19Set, len(set))
	for i, f := range set {
		n := f.Name
		if prefix != "" {
			n = prefix + "/" + f.Name
		}
		out[i] = refhash.File{Name: n, Data: f.Data}
	}
	return out
}

// c19WriteZip writes an archive with archive/zip: random entry order, compression method and metadata.
func c19WriteZip(r *rand.Rand, path string, entries c19Set) error {
	var buf bytes.Buffer
	zw := zip.NewWriter(&buf)
	if r.IntN(4) == 0 {
		zw.SetComment("comment " + gen.Pick(r, []string{"", "x", "h1:"}))
	}
	order := r.Perm(len(entries))
	for _, i := range order {
		e := entries[i]
		hdr := &zip.FileHeader{Name: e.Name, Method: gen.Pick(r, []uint16{zip.Store, zip.Deflate, zip.Deflate})}
		if r.IntN(2) == 0 {
			hdr.Modified = time.Unix(r.Int64N(2_000_000_000), 0)
		}
		if r.IntN(4) == 0 {
			hdr.Comment = "entry comment"
		}
		if r.IntN(4) == 0 {
			hdr.SetMode(gen.Pick(r, []os.FileMode{0o644, 0o755, 0o400}))
		}
		// The hash is over names and bytes only: header metadata such as a directory bit on an entry
		// whose name does not end in a slash must not change what is hashed.
		if !strings.HasSuffix(e.Name, "/") && r.IntN(8) == 0 {
			if r.IntN(2) == 0 {
				hdr.SetMode(os.ModeDir | 0o755)
			} else {
				hdr.CreatorVersion = 0
				hdr.ExternalAttrs = 0x10 // DOS directory attribute
			}
		}
		w, err := zw.CreateHeader(hdr)
		if err != nil {
			return err
		}
		if _, err := w.Write(e.Data); err != nil {
			return err
		}
	}
	if err := zw.Close(); err != nil {
		return err
	}
	return os.WriteFile(path, buf.Bytes(), 0o666)
}

// c19ReadZip lists (name, content) of an archive with archive/zip (the oracle's own reading).
func c19ReadZip(path string) (c19Set, error) {
	zr, err := zip.OpenReader(path)
	if err != nil {
		return nil, err
	}
	defer zr.Close()
	var out c19Set
	for _, f := range zr.File {
		rc, err := f.Open()
		if err != nil {
			return nil, err
		}
		data, err := io.ReadAll(rc)
		rc.Close()
		if err != nil {
			return nil, err
		}
		out = append(out, refhash.File{Name: f.Name, Data: data})
	}
	return out, nil
}

type c19MemFile struct {
	name string
	data []byte
}

type c19MemInfo struct{ f c19MemFile }

func (f c19MemFile) Path() string                 { return f.name }
func (f c19MemFile) Lstat() (os.FileInfo, error)  { return c19MemInfo{f}, nil }
func (f c19MemFile) Open() (io.ReadCloser, error) { return io.NopCloser(bytes.NewReader(f.data)), nil }
func (i c19MemInfo) Name() string                 { return filepath.Base(i.f.name) }
func (i c19MemInfo) Size() int64                  { return int64(len(i.f.data)) }
func (i c19MemInfo) Mode() os.FileMode            { return 0o644 }
func (i c19MemInfo) ModTime() time.Time           { return time.Time{} }
func (i c19MemInfo) IsDir() bool                  { return false }
func (i c19MemInfo) Sys() any                     { return nil }

var c19ModComps = []string{"a", "b", "c", "A1", "go.mod", "x.go", "sp ace", "dbl  space", "é", "世界", ".hidden", "-dash", "LICENSE", "vendor", "modules.txt", "pkg", "internal", "x_test.go",
	"README.md", "a b", "a  b", "m@v", "~", "z+", "(p)", "testdata", "B1", "d.e.f", " lead", "trail "}

var c19Modules = []module.Version{
	{Path: "example.com/m", Version: "v1.0.0"},
	{Path: "example.com/m", Version: "v0.0.0-20200101000000-abcdef123456"},
	{Path: "example.com/m/v2", Version: "v2.3.4-pre.1"},
	{Path: "example.com/m", Version: "v2.0.0+incompatible"},
	{Path: "gopkg.in/yaml.v2", Version: "v2.4.0"},
	{Path: "github.com/A/B-c.d", Version: "v0.1.0"},
}

func c19Trees(c *mon.Ctx) {
	r := c.Rng
	base, err := os.MkdirTemp("", "c19-")
	if err != nil {
		c.Inconclusive("harness: cannot create a temp directory: " + err.Error())
		return
	}
	defer os.RemoveAll(base)
	cwd, _ := os.Getwd()

	cleanPrefixes := []string{"m@v", "example.com/m@v1.0.0", "", "p", "a/b/c", "with space@v1", "é@v1", "a", "dbl  space", "/abs/p"}
	uncleanPrefixes := []string{"m@v/", "./m", "a//b", "a/../b", "m/.", "/", "."}

	c19AfterRefusals(c, base)

	nTrees := c.Share(c.Scale(3_000, 50_000))
	for i := 0; i < nTrees; i++ {
		id := fmt.Sprintf("d%d", i)
		root := filepath.Join(base, id)
		names := c19TreeNames(r, c19Comps, func() string {
			return c19Hex([]byte{byte(r.IntN(4))}) + "  " + gen.Pick(r, []string{"x", "go.mod"})
		})
		var set c19Set
		for _, n := range names {
			set = append(set, refhash.File{Name: n, Data: c19Content(r, n, set)})
		}
		prefix := gen.Pick(r, cleanPrefixes)
		if r.IntN(3) == 0 {
			prefix = "m@v"
		}
		unclean := gen.Pick(r, uncleanPrefixes)
		dirForm := r.IntN(6)
		emptyDirs := r.IntN(4) == 0
		nlFile := ""
		if r.IntN(6) == 0 {
			nlFile = gen.Pick(r, []string{"new\nline", "\n", "sub/x\ny", "z\n"})
		}
		zseed := r.Uint64()
		// sometimes one more entry that is a symbolic link to one of the files: it is an entry of the tree
		// like any other (listed, and hashed through the link)
		linkOf := -1
		if len(set) > 0 && r.IntN(5) == 0 {
			linkOf = r.IntN(len(set))
		}
		if !c.Want(id) {
			continue
		}
		c.WAL(id, []byte(fmt.Sprintf("prefix %q files %q", prefix, names)))
		c.Guard(id, func() any { return map[string]any{"prefix": prefix, "files": c19Describe(set)} }, func() {
			defer os.RemoveAll(root)
			tree := filepath.Join(root, "tree")
			if err := c19WriteTree(tree, set); err != nil {
				c.Class("tree:not-materialisable-skipped")
				c.Sample("tree-not-materialisable", 2, err.Error())
				return
			}
			if linkOf >= 0 {
				tgt := set[linkOf]
				ln := tgt.Name + ".lnk"
				exists := false
				for _, f := range set {
					if f.Name == ln || strings.HasPrefix(f.Name, ln+"/") {
						exists = true
					}
				}
				if !exists && os.Symlink(filepath.Base(filepath.FromSlash(tgt.Name)), filepath.Join(tree, filepath.FromSlash(ln))) == nil {
					set = append(set, refhash.File{Name: ln, Data: tgt.Data})
					c.Class("tree:with-symlink-to-file")
				}
			}
			if emptyDirs {
				os.MkdirAll(filepath.Join(tree, "empty-dir", "nested"), 0o777)
				if len(names) > 0 {
					os.MkdirAll(filepath.Join(tree, filepath.Dir(filepath.FromSlash(names[0])), "empty sibling"), 0o777)
				}
			}
			expect := c19WithPrefix(prefix, set)
			want, _ := refhash.Hash1(expect)
			wit := func(extra map[string]any) map[string]any {
				m := map[string]any{"prefix": prefix, "files": c19Describe(set), "want": want}
				for k, v := range extra {
					m[k] = v
				}
				return m
			}
			// the directory argument in several spellings
			dirArg, form := tree, "abs"
			switch dirForm {
			case 1:
				dirArg, form = tree+"/", "trailing-slash"
			case 2:
				dirArg, form = filepath.Dir(tree)+"/./tree//", "unclean"
			case 3:
				if rel, err := filepath.Rel(cwd, tree); err == nil && cwd != "" {
					dirArg, form = rel, "relative"
				}
			case 4:
				if cwd != "" {
					form = "dot"
				}
			}
			call := func(f func(dir string)) {
				if form != "dot" {
					f(dirArg)
					return
				}
				if err := os.Chdir(tree); err != nil {
					form = "abs"
					f(tree)
					return
				}
				defer os.Chdir(cwd)
				f(".")
			}
			var got string
			var gerr error
			var files []string
			var ferr error
			call(func(dir string) {
				got, gerr = dirhash.HashDir(dir, prefix, dirhash.Hash1)
				files, ferr = dirhash.DirFiles(dir, prefix)
			})
			c.Eval(2)
			if gerr != nil || got != want {
				c.Violation("hashdir-not-formula-over-prefixed-names", id, wit(map[string]any{"dir-form": form, "got": got, "err": c19ErrStr(gerr)}))
				return
			}
			wantNames := c19Names(expect)
			sort.Strings(wantNames)
			gotNames := slices.Clone(files)
			sort.Strings(gotNames)
			if ferr != nil || !slices.Equal(gotNames, wantNames) {
				c.Violation("dirfiles-prefix-rewriting", id, wit(map[string]any{"dir-form": form, "got": fmt.Sprintf("%q", files), "want-names": fmt.Sprintf("%q", wantNames), "err": c19ErrStr(ferr)}))
				return
			}
			pcl := "prefix:" + prefix
			c.Class("hashdir:" + pcl)
			c.Class("hashdir:dir-form=" + form)
			if len(set) == 0 {
				c.Class("hashdir:no-files")
			}
			if emptyDirs {
				c.Class("hashdir:empty-directories-ignored")
			}
			for _, s := range c19NameShape(set) {
				c.Class("hashdir:names:" + s)
			}
			c.Sample("tree", 2, wit(map[string]any{"DirFiles": fmt.Sprintf("%q", files)}))

			// a second look at the same directory after the tree has changed below the root (a file added in
			// an existing subdirectory — the root's own entries and modification time stay as they were — or,
			// when there is none, in a new nested one): the hash is the formula over what is there now
			if len(set)%2 == 0 {
				sub := ""
				if ents, err := os.ReadDir(tree); err == nil {
					for _, e := range ents {
						if e.Type().IsDir() && e.Name() != "empty-dir" {
							sub = e.Name()
							break
						}
					}
				}
				how := "in-existing-subdirectory"
				if sub == "" {
					sub, how = "zz-later/nested", "in-new-subdirectory"
					os.MkdirAll(filepath.Join(tree, filepath.FromSlash(sub)), 0o777)
				}
				added := filepath.ToSlash(sub) + "/zz-added-later.txt"
				if !utf8.ValidString(added) || os.WriteFile(filepath.Join(tree, filepath.FromSlash(added)), []byte("added after the first look\n"), 0o666) != nil {
					c.Class("second-look:not-writable-skipped")
				} else {
					set2 := append(slices.Clone(set), refhash.File{Name: added, Data: []byte("added after the first look\n")})
					want2, _ := refhash.Hash1(c19WithPrefix(prefix, set2))
					var got2 string
					var gerr2 error
					call(func(dir string) { got2, gerr2 = dirhash.HashDir(dir, prefix, dirhash.Hash1) })
					c.Eval(1)
					if gerr2 != nil || got2 != want2 {
						c.Violation("hashdir-second-look-not-formula-over-current-tree", id, wit(map[string]any{"dir-form": form, "added": mon.QS(added), "first": got, "second": got2, "want-second": want2, "err": c19ErrStr(gerr2)}))
						return
					}
					c.Class("second-look:" + how)
				}
			}

			// an archive/zip archive with the same prefixed entries hashes to the same value
			zr := rand.New(rand.NewPCG(zseed, 19))
			zpath := filepath.Join(root, "own.zip")
			if err := c19WriteZip(zr, zpath, expect); err != nil {
				c.Class("ownzip:not-writable-skipped")
			} else {
				gz, err := dirhash.HashZip(zpath, dirhash.Hash1)
				c.Eval(1)
				if err != nil || gz != want {
					c.Violation("hashzip-not-formula-over-entries", id, wit(map[string]any{"got": gz, "err": c19ErrStr(err)}))
					return
				}
				if gz != got {
					c.Violation("hashzip-differs-from-hashdir", id, wit(map[string]any{"HashZip": gz, "HashDir": got}))
					return
				}
				c.Class("ownzip:equals-hashdir")
			}
			// unclean prefixes: what "replacing dir with prefix" means is not specified; only no panic
			if dirForm == 5 {
				_, e1 := dirhash.HashDir(tree, unclean, dirhash.Hash1)
				_, e2 := dirhash.DirFiles(tree, unclean)
				c.Class(fmt.Sprintf("prefix-unclean-unspecified:%s:hashdir-ok=%t:dirfiles-ok=%t", unclean, e1 == nil, e2 == nil))
			}
			// a file whose name contains a newline makes the directory unhashable
			if nlFile != "" {
				p := filepath.Join(tree, filepath.FromSlash(nlFile))
				if os.MkdirAll(filepath.Dir(p), 0o777) == nil && os.WriteFile(p, []byte("x"), 0o666) == nil {
					g, err := dirhash.HashDir(tree, prefix, dirhash.Hash1)
					c.Eval(1)
					if err == nil {
						c.Violation("newline-name-accepted", id, wit(map[string]any{"newline-file": mon.QS(nlFile), "HashDir": g}))
						return
					}
					c.Class("newline:hashdir:refused")
				}
			}
		})
	}

	// ---- archive/zip archives with arbitrary entry names ------------------------------------------
	nZips := c.Share(c.Scale(2_000, 30_000))
	for i := 0; i < nZips; i++ {
		id := fmt.Sprintf("z%d", i)
		root := filepath.Join(base, id)
		var set c19Set
		for _, f := range c19GenSet(r) {
			if f.Name == "" || strings.HasSuffix(f.Name, "/") { // directory entries and empty names: not "files", unspecified
				continue
			}
			set = append(set, f)
		}
		nl := r.IntN(8) == 0 && len(set) > 0
		nlAt := 0
		if nl {
			nlAt = r.IntN(len(set))
		}
		zseed := r.Uint64()
		if !c.Want(id) {
			continue
		}
		c.WAL(id, []byte(fmt.Sprintf("%q", c19Names(set))))
		c.Guard(id, func() any { return c19Describe(set) }, func() {
			defer os.RemoveAll(root)
			if err := os.MkdirAll(root, 0o777); err != nil {
				return
			}
			entries := slices.Clone(set)
			if nl {
				entries[nlAt].Name += "\nx"
			}
			zpath := filepath.Join(root, "a.zip")
			if err := c19WriteZip(rand.New(rand.NewPCG(zseed, 19)), zpath, entries); err != nil {
				c.Class("zip:not-writable-skipped")
				return
			}
			back, err := c19ReadZip(zpath)
			if err != nil || !refhash.SameSet(back, entries) || len(back) != len(entries) {
				c.Class("zip:archive/zip-does-not-round-trip-skipped")
				return
			}
			got, err := dirhash.HashZip(zpath, dirhash.Hash1)
			c.Eval(1)
			if nl {
				if err == nil {
					c.Violation("newline-name-accepted", id, map[string]any{"entries": c19Describe(entries), "HashZip": got})
					return
				}
				c.Class("newline:hashzip:refused")
				return
			}
			want, _ := refhash.Hash1(entries)
			if err != nil || got != want {
				c.Violation("hashzip-not-formula-over-entries", id, map[string]any{"entries": c19Describe(entries), "got": got, "err": c19ErrStr(err), "want": want})
				return
			}
			c.Class("zip:arbitrary-names:formula")
			for _, s := range c19NameShape(entries) {
				c.Class("zip:names:" + s)
			}
		})
	}

	// ---- module zips: zip.Create, HashZip, zip.Unzip, HashDir(dir, path@version) -----------------------
	nMod := c.Share(c.Scale(3_000, 50_000))
	for i := 0; i < nMod; i++ {
		id := fmt.Sprintf("mz%d", i)
		root := filepath.Join(base, id)
		m := gen.Pick(r, c19Modules)
		names := c19TreeNames(r, c19ModComps, func() string {
			return c19Hex([]byte{byte(r.IntN(4))}) + "  " + gen.Pick(r, []string{"x", "go.mod"})
		})
		if r.IntN(3) > 0 && !slices.Contains(names, "go.mod") {
			names = append(names, "go.mod")
		}
		var files []modzip.File
		var set c19Set
		for _, n := range names {
			data := c19Content(r, n, set)
			if n == "go.mod" {
				data = []byte("module " + m.Path + "\n" + gen.Pick(r, []string{"", "go 1.23\n", "go 1.24\n"}))
			}
			set = append(set, refhash.File{Name: n, Data: data})
		}
		order := r.Perm(len(set))
		for _, k := range order {
			files = append(files, c19MemFile{set[k].Name, set[k].Data})
		}
		if !c.Want(id) {
			continue
		}
		c.WAL(id, []byte(fmt.Sprintf("%v %q", m, names)))
		c.Guard(id, func() any { return map[string]any{"module": m.String(), "files": c19Describe(set)} }, func() {
			defer os.RemoveAll(root)
			if err := os.MkdirAll(root, 0o777); err != nil {
				return
			}
			var buf bytes.Buffer
			if err := modzip.Create(&buf, m, files); err != nil {
				c.Class("modzip:create-rejected-skipped")
				return
			}
			zpath := filepath.Join(root, "m.zip")
			if err := os.WriteFile(zpath, buf.Bytes(), 0o666); err != nil {
				return
			}
			entries, err := c19ReadZip(zpath)
			if err != nil {
				c.Class("modzip:unreadable-skipped")
				return
			}
			want, err := refhash.Hash1(entries)
			if err != nil {
				c.Class("modzip:newline-entry-skipped")
				return
			}
			wit := func(extra map[string]any) map[string]any {
				mm := map[string]any{"module": m.String(), "input-files": c19Describe(set), "zip-entries": fmt.Sprintf("%q", c19Names(entries)), "want": want}
				for k, v := range extra {
					mm[k] = v
				}
				return mm
			}
			gz, err := dirhash.HashZip(zpath, dirhash.Hash1)
			c.Eval(1)
			if err != nil || gz != want {
				c.Violation("hashzip-not-formula-over-entries", id, wit(map[string]any{"got": gz, "err": c19ErrStr(err)}))
				return
			}
			out := filepath.Join(root, "out")
			if r.IntN(8) == 0 {
				// what an earlier, failed extraction may have left: files below subdirectories only.
				// "If dir exists, it must be empty": a refusal is fine; a success must still give the zip's hash.
				stale := filepath.Join(out, "zz-old", "sub")
				if err := os.MkdirAll(stale, 0o777); err == nil {
					os.WriteFile(filepath.Join(stale, "stale.txt"), []byte("left by an earlier attempt\n"), 0o644)
				}
				if err := modzip.Unzip(out, m, zpath); err != nil {
					c.Class("modzip:unzip-into-leftovers-refused")
					os.RemoveAll(out)
				} else {
					c.Class("modzip:unzip-into-leftovers-succeeded")
				}
			}
			if _, serr := os.Stat(out); serr == nil {
				// extracted over leftovers: judged below like any other extraction
			} else if err := modzip.Unzip(out, m, zpath); err != nil {
				c.Class("modzip:unzip-rejected-skipped") // C05's business, not this property's
				c.Sample("modzip-unzip-rejected", 2, wit(map[string]any{"err": err.Error()}))
				return
			}
			gd, err := dirhash.HashDir(out, m.Path+"@"+m.Version, dirhash.Hash1)
			c.Eval(1)
			if err != nil || gd != gz {
				c.Violation("hashzip-differs-from-hashdir", id, wit(map[string]any{"HashZip": gz, "HashDir": gd, "err": c19ErrStr(err)}))
				return
			}
			c.Class("modzip:hashzip=hashdir=formula")
			if len(entries) < len(set) {
				c.Class("modzip:some-files-omitted")
			}
			if len(entries) == 0 {
				c.Class("modzip:empty-archive")
			}
			for _, s := range c19NameShape(set) {
				c.Class("modzip:names:" + s)
			}
			c.Sample("module-zip", 2, wit(map[string]any{"h1": gz}))
		})
	}
}
