package props

// C12 — extraction enforces every zip restriction and never writes outside
// its directory (DESIGN.md §5.12).
//
// Archives are written entry by entry with archive/zip CreateRaw/CreateHeader,
// so names, declared sizes and CRCs are arbitrary (sizes around the limits are
// only declared, never materialised). Each archive is checked and extracted in
// a fresh sandbox whose whole root is snapshotted before and after. A small
// sub-batch is extracted once more in a child of the worker under strace, and
// the syscall log is checked offline (c12strace.go).

import (
	"archive/zip"
	"bytes"
	"compress/flate"
	"fmt"
	"hash/crc32"
	"io/fs"
	"math/rand/v2"
	"os"
	"path/filepath"
	"strings"

	"golang.org/x/mod/module"
	mzip "golang.org/x/mod/zip"

	"verif/harness/fsbox"
	"verif/harness/gen"
	"verif/harness/mon"
	"verif/harness/ref/refzip"
)

func init() { Registry["C12"] = runC12 }

type c12Entry struct {
	Name     string
	Data     []byte
	Declared uint64
	CRC      uint32
	Mode     string // create (deflate + data descriptor) | raw-store | raw-deflate
	Fault    string
	// Attr sets header attributes that have nothing to do with the name: "dirmode" (unix S_IFDIR in the
	// external attributes), "dosdir" (DOS directory bit), "exec" (0755). The documented rules speak about
	// entry names only (a directory entry is a name ending in a slash), so these bits must change nothing.
	Attr string
}

func (e *c12Entry) isDir() bool { return strings.HasSuffix(e.Name, "/") }

// honest: the data has its declared size and CRC. crcUnspec: the declared CRC is
// zero, which archive/zip treats as "not set" and does not verify.
func (e *c12Entry) honest() (honest, crcUnspec bool) {
	if e.Declared != uint64(len(e.Data)) {
		return false, false
	}
	actual := crc32.ChecksumIEEE(e.Data)
	if e.CRC != actual {
		return false, e.CRC == 0
	}
	return true, false
}

type c12Case struct {
	id     string
	mod    gen.ZModule
	ents   []c12Entry
	kind   string   // valid | name-fault | size-fault | module-fault | hostile-mix
	faults []string // labels of the injected faults
	target string   // missing | empty | deep | nonempty | file
	zip    []byte
}

func (cs *c12Case) witness() map[string]any {
	es := make([]string, len(cs.ents))
	for i, e := range cs.ents {
		es[i] = fmt.Sprintf("%q len=%d declared=%d crc=%08x(actual %08x) %s %s", e.Name, len(e.Data), e.Declared, e.CRC, crc32.ChecksumIEEE(e.Data), e.Mode, e.Fault)
	}
	return map[string]any{"module": mon.QS(cs.mod.Path), "version": mon.QS(cs.mod.Version), "kind": cs.kind, "faults": cs.faults, "target": cs.target, "entries": es}
}

var c12LimitSizes = []uint64{refzip.MaxGoMod - 1, refzip.MaxGoMod, refzip.MaxGoMod + 1, 1 << 31, 1<<32 - 1, 1 << 32, 1<<32 + 5, 250 << 20, 250<<20 + 1,
	refzip.MaxZipFile - 1, refzip.MaxZipFile, refzip.MaxZipFile + 1, 1 << 40, 1<<63 - 1, 1 << 63, 1<<64 - 1}

func c12Data(r *rand.Rand, max int) []byte {
	n := r.IntN(max + 1)
	b := make([]byte, n)
	for i := range b {
		b[i] = byte(r.IntN(256))
	}
	if r.IntN(4) == 0 {
		b = bytes.Repeat([]byte("ab"), n/2) // compressible
	}
	return b
}

func c12Honest(r *rand.Rand, name string, maxData int) c12Entry {
	e := c12Entry{Name: name, Data: c12Data(r, maxData), Mode: gen.Pick(r, []string{"create", "raw-store", "raw-deflate"})}
	if strings.HasSuffix(name, "/") {
		e.Data, e.Mode = nil, "raw-store"
	}
	e.Declared, e.CRC = uint64(len(e.Data)), crc32.ChecksumIEEE(e.Data)
	if e.Mode != "create" && r.IntN(6) == 0 {
		e.Attr = gen.Pick(r, []string{"dirmode", "dosdir", "exec", "dirmode"})
	}
	return e
}

// c12Generate draws one archive: valid by construction plus rule-targeted faults.
func c12Generate(r *rand.Rand, id string, maxEntries, maxData int) *c12Case {
	cs := &c12Case{id: id, mod: gen.ZGoodModule(r)}
	t := r.IntN(100)
	switch {
	case t < 35:
		cs.kind = "valid"
	case t < 68:
		cs.kind = "name-fault"
	case t < 88:
		cs.kind = "size-fault"
	case t < 94:
		cs.kind = "module-fault"
		cs.mod = gen.ZBadModule(r)
	default:
		cs.kind = "hostile-mix"
	}
	prefix := cs.mod.Path + "@" + cs.mod.Version + "/"
	// valid base
	n := r.IntN(maxEntries + 1)
	if cs.kind == "hostile-mix" {
		n = r.IntN(2)
	}
	var names []string
	for tries := 0; len(names) < n && tries < 4*n+4; tries++ {
		p := gen.ZSafeName(r)
		ok := true
		for _, q := range names {
			if p == q || strings.HasPrefix(q, p+"/") || strings.HasPrefix(p, q+"/") {
				ok = false
			}
		}
		if ok {
			names = append(names, p)
		}
	}
	if r.IntN(3) == 0 && len(names) > 0 {
		names[0] = "go.mod"
		for i := 1; i < len(names); i++ {
			if names[i] == "go.mod" || strings.HasPrefix(names[i], "go.mod/") {
				names[i] = fmt.Sprintf("f%d.go", i)
			}
		}
	}
	for _, p := range names {
		cs.ents = append(cs.ents, c12Honest(r, prefix+p, maxData))
	}
	// directory entries (ignored by extraction)
	if r.IntN(8) == 0 {
		cs.ents = append(cs.ents, c12Honest(r, prefix, 0))
		cs.faults = append(cs.faults, "dir:root")
	}
	if r.IntN(8) == 0 {
		cs.ents = append(cs.ents, c12Honest(r, prefix+"emptydir/", 0))
		cs.faults = append(cs.faults, "dir:empty")
	}
	if r.IntN(8) == 0 && len(names) > 0 {
		if d := filepath.Dir(names[r.IntN(len(names))]); d != "." {
			cs.ents = append(cs.ents, c12Honest(r, prefix+d+"/", 0))
			cs.faults = append(cs.faults, "dir:implied")
		}
	}
	fault := func(label string) { cs.faults = append(cs.faults, label) }
	victim := func() *c12Entry {
		var files []int
		for i := range cs.ents {
			if !cs.ents[i].isDir() {
				files = append(files, i)
			}
		}
		if len(files) == 0 {
			cs.ents = append(cs.ents, c12Honest(r, prefix+"v.go", maxData))
			return &cs.ents[len(cs.ents)-1]
		}
		return &cs.ents[files[r.IntN(len(files))]]
	}
	add := func(name string) *c12Entry {
		cs.ents = append(cs.ents, c12Honest(r, name, maxData))
		return &cs.ents[len(cs.ents)-1]
	}
	nameFault := func() {
		switch r.IntN(12) {
		case 0, 1, 2:
			add(prefix + gen.ZHostileName(r)).Fault = "hostile-name"
			fault("name:hostile")
		case 3: // prefix variants
			rel := gen.ZSafeName(r)
			v := r.IntN(9)
			variants := []string{rel, cs.mod.Path + "@" + cs.mod.Version + rel, strings.ToUpper(prefix[:1]) + prefix[1:] + rel,
				cs.mod.Path + "@" + cs.mod.Version + ".1/" + rel, prefix + "../" + rel, "/" + prefix + rel, cs.mod.Path + "/" + rel,
				strings.Replace(prefix, "@", "/@", 1) + rel, cs.mod.Path + "@" + cs.mod.Version + "x/" + rel}
			add(variants[v]).Fault = "prefix-variant"
			fault(fmt.Sprintf("prefix:variant%d", v))
		case 4: // duplicate name
			v := victim()
			add(v.Name).Fault = "duplicate"
			fault("name:duplicate")
		case 5: // fold variant of an existing entry (only the part after the prefix)
			v := victim()
			if q, ok := gen.ZFoldVariant(r, strings.TrimPrefix(v.Name, prefix)); ok && strings.HasPrefix(v.Name, prefix) {
				add(prefix + q).Fault = "fold-variant"
				fault("name:fold-variant")
			}
		case 6: // file vs directory
			v := victim()
			switch r.IntN(3) {
			case 0:
				add(v.Name + "/child.go").Fault = "file-vs-dir"
			case 1:
				add(v.Name + "/").Fault = "file-vs-dir"
			default:
				if d := filepath.Dir(strings.TrimPrefix(v.Name, prefix)); d != "." && strings.HasPrefix(v.Name, prefix) {
					add(prefix + d).Fault = "file-vs-dir"
				}
			}
			fault("name:file-vs-dir")
		case 7: // go.mod in the wrong place or case
			add(prefix + gen.Pick(r, []string{"sub/go.mod", "GO.MOD", "Go.mod", "sub/GO.MOD", "x/y/go.mod", "go.MOD", "vendor/x/go.mod"})).Fault = "go.mod-placement"
			fault("name:go.mod-placement")
		case 8: // directory entry that carries data
			e := add(prefix + "datadir/")
			e.Data = []byte("data in a directory entry")
			e.Declared, e.CRC, e.Fault = uint64(len(e.Data)), crc32.ChecksumIEEE(e.Data), "dir-with-data"
			fault("dir:with-data")
		case 9: // escapes aimed at the sandbox's sentinels
			add(prefix + gen.Pick(r, []string{"../sentinel.txt", "../sibling/inner.txt", "../sibling/new.txt", "../../sentinel.txt", "../../../sentinel.txt",
				"../../../m.zip", "../target2/f", "../../../../escaped-from-sandbox", "a/../../sentinel.txt", "..", "../"})).Fault = "escape"
			fault("name:escape")
		case 10: // the same, hidden behind a prefix that only looks right
			add(cs.mod.Path + "@" + cs.mod.Version + "/../" + gen.Pick(r, []string{"sentinel.txt", "sibling/x", "../sentinel.txt"})).Fault = "escape"
			fault("name:escape-after-prefix")
		default: // valid but unusual names
			add(prefix + gen.Pick(r, []string{"go.mod/x.go", "sub/go.mod/x.go", ".hg_archival.txt", "vendor/modules.txt", "pkg/vendor/v.go", ".git", "LICENSE", "sub/LICENSE", "-", "~", "a b"})).Fault = "unusual-valid"
			fault("name:unusual-valid")
		}
	}
	sizeFault := func() {
		switch r.IntN(10) {
		case 0:
			v := victim()
			v.Declared++
			v.Mode, v.Fault = gen.Pick(r, []string{"raw-store", "raw-deflate"}), "declared+1"
			fault("size:declared+1")
		case 1:
			v := victim()
			if v.Declared > 0 {
				v.Declared--
				v.Mode, v.Fault = gen.Pick(r, []string{"raw-store", "raw-deflate"}), "declared-1"
				fault("size:declared-1")
			}
		case 2:
			v := victim()
			v.Declared += uint64(10 + r.IntN(5000))
			v.Mode, v.Fault = gen.Pick(r, []string{"raw-store", "raw-deflate"}), "declared-much-larger"
			fault("size:declared-much-larger")
		case 3:
			v := victim()
			if len(v.Data) > 0 {
				v.Declared = 0
				v.Mode, v.Fault = gen.Pick(r, []string{"raw-store", "raw-deflate"}), "declared-zero"
				fault("size:declared-zero")
			}
		case 4:
			v := victim()
			v.CRC ^= 1 << r.IntN(32)
			if v.CRC == 0 {
				v.CRC = 0xdeadbeef
			}
			v.Mode, v.Fault = gen.Pick(r, []string{"raw-store", "raw-deflate"}), "crc-wrong"
			fault("crc:wrong")
		case 5:
			v := victim()
			v.CRC = 0
			v.Mode, v.Fault = "raw-store", "crc-zero"
			fault("crc:zero")
		default: // declared sizes around the limits; the data stays tiny
			name := gen.Pick(r, []string{"go.mod", "LICENSE", "sub/LICENSE", "big.bin", "big2.bin", "LICENSE.md"})
			var e *c12Entry
			for i := range cs.ents {
				if cs.ents[i].Name == prefix+name {
					e = &cs.ents[i]
				}
			}
			if e == nil {
				e = add(prefix + name)
			}
			e.Declared = gen.Pick(r, c12LimitSizes)
			if name == "go.mod" || name == "LICENSE" || name == "sub/LICENSE" {
				if r.IntN(2) == 0 {
					e.Declared = gen.Pick(r, c12LimitSizes[:3])
				}
			}
			e.Mode, e.Fault = "raw-store", "declared-limit"
			fault("size:limit:" + name)
			if r.IntN(3) == 0 { // a second large declaration so that totals cross MaxZipFile
				e2 := add(prefix + "big3.bin")
				e2.Declared = gen.Pick(r, []uint64{250 << 20, 250<<20 + 1, 250<<20 - 1, refzip.MaxZipFile - refzip.MaxGoMod, refzip.MaxZipFile - refzip.MaxGoMod + 1})
				e2.Mode, e2.Fault = "raw-store", "declared-limit"
				fault("size:limit:second")
			}
		}
	}
	switch cs.kind {
	case "name-fault":
		for k := 1 + r.IntN(2); k > 0; k-- {
			nameFault()
		}
	case "size-fault":
		sizeFault()
		if r.IntN(5) == 0 {
			sizeFault()
		}
	case "hostile-mix":
		for k := 1 + r.IntN(5); k > 0; k-- {
			if r.IntN(4) == 0 {
				sizeFault()
			} else {
				nameFault()
			}
		}
	}
	r.Shuffle(len(cs.ents), func(i, j int) { cs.ents[i], cs.ents[j] = cs.ents[j], cs.ents[i] })
	switch t := r.IntN(100); {
	case t < 80:
		cs.target = "missing"
	case t < 86:
		cs.target = "empty"
	case t < 91:
		cs.target = "deep"
	case t < 94:
		cs.target = "nonempty"
	case t < 96:
		cs.target = "stale-file-in-subdir" // what a failed earlier extraction may leave behind
	case t < 98:
		cs.target = "empty-subdirs"
	default:
		cs.target = "file"
	}
	cs.zip = c12Write(cs.ents)
	return cs
}

var c12Flate *flate.Writer // reused: a fresh flate.Writer costs more than a whole case

// c12Write serialises the entries; nothing is validated.
func c12Write(ents []c12Entry) []byte {
	var buf bytes.Buffer
	zw := zip.NewWriter(&buf)
	for _, e := range ents {
		switch e.Mode {
		case "create":
			w, err := zw.Create(e.Name)
			if err != nil {
				panic(err)
			}
			w.Write(e.Data)
		default:
			fh := &zip.FileHeader{Name: e.Name, Method: zip.Store}
			payload := e.Data
			if e.Mode == "raw-deflate" {
				var cb bytes.Buffer
				if c12Flate == nil {
					c12Flate, _ = flate.NewWriter(&cb, flate.DefaultCompression)
				} else {
					c12Flate.Reset(&cb)
				}
				c12Flate.Write(e.Data)
				c12Flate.Close()
				payload = cb.Bytes()
				fh.Method = zip.Deflate
			}
			switch e.Attr {
			case "dirmode":
				fh.SetMode(fs.ModeDir | 0o755)
			case "dosdir":
				fh.CreatorVersion = 0 // FAT
				fh.ExternalAttrs = 0x10
			case "exec":
				fh.SetMode(0o755)
			}
			fh.CRC32 = e.CRC
			fh.UncompressedSize64 = e.Declared
			fh.CompressedSize64 = uint64(len(payload))
			w, err := zw.CreateRaw(fh)
			if err != nil {
				panic(err)
			}
			w.Write(payload)
		}
	}
	if err := zw.Close(); err != nil {
		panic(err)
	}
	return buf.Bytes()
}

// c12Prepare builds the sandbox for a case and returns the directory handed to Unzip.
func c12Prepare(cs *c12Case, base string) (*fsbox.Box, string, error) {
	box, err := fsbox.New(base, cs.id)
	if err != nil {
		return nil, "", err
	}
	dir := box.Target
	switch cs.target {
	case "empty":
		err = os.Mkdir(box.Target, 0o777)
	case "deep":
		dir = filepath.Join(box.Target, "deeper", "x")
	case "nonempty":
		if err = os.Mkdir(box.Target, 0o777); err == nil {
			err = os.WriteFile(filepath.Join(box.Target, "existing.txt"), []byte("already here\n"), 0o644)
		}
	case "stale-file-in-subdir":
		if err = os.MkdirAll(filepath.Join(box.Target, "zz-old", "sub"), 0o777); err == nil {
			err = os.WriteFile(filepath.Join(box.Target, "zz-old", "sub", "stale.txt"), []byte("left by an earlier attempt\n"), 0o644)
		}
	case "empty-subdirs":
		err = os.MkdirAll(filepath.Join(box.Target, "zz-old", "sub"), 0o777)
	case "file":
		err = os.WriteFile(box.Target, []byte("a file where the directory should be\n"), 0o644)
	}
	if err == nil {
		err = os.WriteFile(box.Zip, cs.zip, 0o644)
	}
	if err != nil {
		box.Remove()
		return nil, "", err
	}
	return box, dir, nil
}

func runC12(c *mon.Ctx) {
	if strings.HasPrefix(c.ReplayCase, "strace-child:") {
		c12StraceChild(c)
		return
	}
	r := c.Rng
	base, err := fsbox.Base(fmt.Sprintf("c12-b%d-", c.Batch))
	if err != nil {
		c.Inconclusive("cannot create sandbox base: " + err.Error())
		return
	}
	defer os.RemoveAll(base)
	maxEntries, maxData := c.Scale(8, 16), c.Scale(64, 256)
	n := c.Share(c.Scale(8_000, 300_000))
	for i := 0; i < n; i++ {
		cs := c12Generate(r, fmt.Sprintf("a%d", i), maxEntries, maxData)
		if !c.Want(cs.id) {
			continue
		}
		c12Run(c, cs, base)
	}
	c12Swap(c, base)
	c12FileSizeLimit(c, base)
	if ents, err := os.ReadDir(base); err == nil && len(ents) > 0 && c.ReplayCase == "" {
		var names []string
		for _, e := range ents {
			names = append(names, e.Name())
		}
		c.Violation("created-outside-sandbox", "batch-end", map[string]any{"left-in-sandbox-base": names})
	}
	c12StraceParent(c, base)
}

func c12FaultLabel(cs *c12Case) string {
	if len(cs.faults) == 0 {
		return cs.kind
	}
	l := cs.faults[len(cs.faults)-1]
	for _, f := range cs.faults {
		if !strings.HasPrefix(f, "dir:") {
			l = f // the first non-directory fault names the class
			break
		}
	}
	return cs.kind + "/" + l
}

func c12Run(c *mon.Ctx, cs *c12Case, base string) {
	wit := func() any { return cs.witness() }
	box, dir, err := c12Prepare(cs, base)
	if err != nil {
		c.Inconclusive("sandbox: " + err.Error())
		return
	}
	defer box.Remove()
	c.WAL(cs.id, cs.zip)
	mv := module.Version{Path: cs.mod.Path, Version: cs.mod.Version}
	before := fsbox.Snapshot(box.Root, false)
	var czErr, uzErr error
	if c.Guard(cs.id, wit, func() {
		_, czErr = mzip.CheckZip(mv, box.Zip)
		uzErr = mzip.Unzip(dir, mv, box.Zip)
	}) {
		return
	}
	after := fsbox.Snapshot(box.Root, false)
	c.Eval(2)
	c12Judge(c, cs, wit, czErr, uzErr, before, after, dir, box)
}

// c12Judge is the oracle for one archive.
func c12Judge(c *mon.Ctx, cs *c12Case, wit func() any, czErr, uzErr error, before, after fsbox.Snap, dir string, box *fsbox.Box) {
	prefix := cs.mod.Path + "@" + cs.mod.Version + "/"
	label := c12FaultLabel(cs)

	// (a) nothing is ever created outside the target directory, whatever the outcome
	if out := fsbox.Outside(before, after, "l1/l2/target"); len(out) > 0 {
		c.Violation("created-outside-target", cs.id, map[string]any{"case": wit(), "changes": fmt.Sprintf("%q", out), "unzip": zipcErrStr(uzErr)})
		return
	}
	c.Eval(1)

	// what the entries are, by the harness's own rules
	honestAll, crcUnspec := true, false
	var rents []refzip.Entry
	for i := range cs.ents {
		e := &cs.ents[i]
		rents = append(rents, refzip.Entry{Name: e.Name, Size: e.Declared})
		if e.isDir() {
			continue // never read by extraction
		}
		h, u := e.honest()
		honestAll = honestAll && (h || u)
		crcUnspec = crcUnspec || u
	}
	broken, unspec := refzip.CheckArchive(cs.mod.Path, cs.mod.Version, rents)
	modOK, modWhy, modUnspec := refzip.CheckModule(cs.mod.Path, cs.mod.Version)
	own := "clean"
	if !modOK {
		own = "module:" + modWhy
	} else if len(broken) > 0 {
		own = broken[0].Rule
	}
	outcome := fmt.Sprintf("check=%t:unzip=%t", czErr == nil, uzErr == nil)
	c.Class("fault:" + label + ":" + outcome)
	c.Class(fmt.Sprintf("own:%s:honest=%t:%s", own, honestAll, outcome))
	c.Class("target:" + cs.target + ":" + outcome)

	// (d) after a successful extraction the tree equals the entries
	treeEqualsEntries := func(preexisting ...string) bool {
		c.Eval(1)
		want := zipcWant{}
		allow := map[string]bool{}
		for _, d := range preexisting {
			allow[d] = true
		}
		for i := range cs.ents {
			e := &cs.ents[i]
			rel := strings.TrimPrefix(e.Name, prefix)
			if rel == "" {
				continue
			}
			if e.isDir() {
				for d := strings.TrimSuffix(rel, "/"); d != "." && d != "/"; d = filepath.Dir(d) {
					allow[d] = true
				}
				continue
			}
			want[rel] = zipcWantOf(int64(len(e.Data)), zipcSum(e.Data))
		}
		rel, _ := filepath.Rel(box.Root, dir)
		if d := zipcTreeDiff(after.Under(filepath.ToSlash(rel)), want, allow); d != "" {
			c.Violation("extracted-tree-differs-from-entries", cs.id, map[string]any{"case": wit(), "diff": d})
			return false
		}
		c.Count("files-extracted", len(want))
		c.Sample("extracted", 2, wit())
		return true
	}
	if cs.target == "nonempty" || cs.target == "file" || cs.target == "stale-file-in-subdir" || cs.target == "empty-subdirs" {
		// the statement is about archives; an unusable target ("If dir exists, it must be empty") is
		// watched for (a), and, should extraction into it succeed all the same, for (d): what is then in
		// the target must still be the entries and nothing else (directories that were there before and
		// hold no file are let pass)
		if uzErr == nil && cs.target != "file" {
			treeEqualsEntries("zz-old", "zz-old/sub")
		}
		return
	}
	if crcUnspec {
		c.Class("unspecified:crc-declared-zero")
		return
	}

	// (b) extraction succeeds exactly when the check accepts and the data is honest
	c.Eval(1)
	if (uzErr == nil) != (czErr == nil && honestAll) {
		cl := "unzip-fails-though-check-accepts-and-data-honest"
		if uzErr == nil && czErr != nil {
			cl = "unzip-succeeds-though-check-rejects"
		} else if uzErr == nil {
			cl = "unzip-succeeds-though-size-or-crc-lies"
		}
		c.Violation(cl, cs.id, map[string]any{"case": wit(), "checkzip": zipcErrStr(czErr), "unzip": zipcErrStr(uzErr), "all-data-honest": honestAll})
		return
	}

	// (c) an accepted archive obeys every documented restriction (own checker)
	if czErr == nil {
		c.Eval(1)
		if modUnspec != "" {
			c.Class("unspecified:module:" + modUnspec)
		} else if !modOK {
			c.Violation("accepted-with-invalid-module:"+modWhy, cs.id, map[string]any{"case": wit()})
			return
		}
		for _, u := range unspec {
			c.Class("unspecified:" + u)
		}
		if len(broken) > 0 && len(unspec) == 0 {
			c.Violation("accepted-archive-breaks:"+broken[0].Rule, cs.id, map[string]any{"case": wit(), "broken": fmt.Sprintf("%q", broken), "unzip": zipcErrStr(uzErr)})
			return
		}
	} else if own == "clean" && len(unspec) == 0 && modUnspec == "" {
		c.Class("note:own-checker-clean-but-checkzip-rejects") // the statement does not demand the converse
		c.Sample("own-clean-checkzip-rejects", 3, map[string]any{"case": wit(), "checkzip": zipcErrStr(czErr)})
	}

	if uzErr == nil {
		treeEqualsEntries()
	} else {
		c.Sample("rejected", 3, map[string]any{"case": wit(), "checkzip": zipcErrStr(czErr), "unzip": zipcErrStr(uzErr)})
		if len(after.Under("l1/l2/target")) > 0 && cs.target != "empty" {
			c.Class("failed-extraction-left-partial-files-inside-target")
		}
	}
}
