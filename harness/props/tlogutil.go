package props

import (
	"fmt"
	"math/rand/v2"
	"sync"

	"golang.org/x/mod/sumdb/tlog"

	"verif/harness/ref/refmerkle"
)

type rH = refmerkle.H

func toRef(p []tlog.Hash) []rH {
	o := make([]rH, len(p))
	for i := range p {
		o[i] = rH(p[i])
	}
	return o
}

func toTlog(p []rH) []tlog.Hash {
	o := make([]tlog.Hash, len(p))
	for i := range p {
		o[i] = tlog.Hash(p[i])
	}
	return o
}

func hashesEqual(a []tlog.Hash, b []rH) bool {
	if len(a) != len(b) {
		return false
	}
	for i := range a {
		if rH(a[i]) != b[i] {
			return false
		}
	}
	return true
}

// genRecords returns n records with PRNG contents (incl. empty and repeated ones).
func genRecords(r *rand.Rand, n int) [][]byte {
	recs := make([][]byte, n)
	for i := range recs {
		switch {
		case i > 0 && r.IntN(12) == 0:
			recs[i] = recs[r.IntN(i)] // equal records
		case r.IntN(15) == 0:
			recs[i] = []byte{}
		default:
			// lengths: mostly short, sometimes at and around buffer-size boundaries
			ln := 1 + r.IntN(40)
			switch r.IntN(12) {
			case 0:
				ln = []int{55, 56, 63, 64, 65, 119, 120, 127, 128, 129, 255, 256, 257, 511, 512, 513, 1023, 1024, 1025}[r.IntN(19)]
			case 1:
				ln = r.IntN(1200)
			case 2:
				if r.IntN(8) == 0 {
					ln = []int{4095, 4096, 4097, 65535, 65536, 65537}[r.IntN(6)]
				}
			}
			b := make([]byte, ln)
			for j := range b {
				b[j] = byte(r.IntN(256))
			}
			recs[i] = b
		}
	}
	return recs
}

// storeReader is a HashReader over a dense store that records what was asked for.
type storeReader struct {
	mu      sync.Mutex
	store   []tlog.Hash
	limit   int64 // indexes must stay below this (StoredHashCount of the tree in question); <0 = no limit
	beyond  []int64
	maxSeen int64
	calls   int
}

func (s *storeReader) ReadHashes(ix []int64) ([]tlog.Hash, error) {
	s.mu.Lock()
	defer s.mu.Unlock()
	s.calls++
	out := make([]tlog.Hash, len(ix))
	for i, x := range ix {
		if x < 0 || x >= int64(len(s.store)) {
			return nil, fmt.Errorf("index %d out of store", x)
		}
		if s.limit >= 0 && x >= s.limit {
			s.beyond = append(s.beyond, x)
		}
		if x > s.maxSeen {
			s.maxSeen = x
		}
		out[i] = s.store[x]
	}
	return out, nil
}

// buildStore appends records one at a time through tlog.StoredHashes.
func buildStore(recs [][]byte) ([]tlog.Hash, error) {
	var st []tlog.Hash
	rd := &storeReader{limit: -1}
	for i, rec := range recs {
		rd.store = st
		h, err := tlog.StoredHashes(int64(i), rec, rd)
		if err != nil {
			return nil, err
		}
		st = append(st, h...)
	}
	return st, nil
}

// zeroCopyReader serves consecutive index runs as a sub-slice of the store itself (a legitimate
// zero-copy HashReader): the library must treat what ReadHashes returns as read-only.
func zeroCopyReader(st *[]tlog.Hash) tlog.HashReader {
	return tlog.HashReaderFunc(func(ix []int64) ([]tlog.Hash, error) {
		consecutive := len(ix) > 0
		for i := 1; i < len(ix); i++ {
			if ix[i] != ix[i-1]+1 {
				consecutive = false
			}
		}
		if consecutive && ix[0] >= 0 && int(ix[len(ix)-1]) < len(*st) {
			return (*st)[ix[0] : ix[len(ix)-1]+1], nil
		}
		out := make([]tlog.Hash, len(ix))
		for i, x := range ix {
			if x < 0 || int(x) >= len(*st) {
				return nil, fmt.Errorf("index %d out of store", x)
			}
			out[i] = (*st)[x]
		}
		return out, nil
	})
}

// faultyReader returns a full-length result TOGETHER with an error when asked for the poisoned index
// (the "out := make(...); ...; return out, err" style, which the HashReader contract allows): the hashes
// it hands out in that case are garbage and must not be used.
func faultyReader(st []tlog.Hash, poisoned int64) tlog.HashReader {
	return tlog.HashReaderFunc(func(ix []int64) ([]tlog.Hash, error) {
		out := make([]tlog.Hash, len(ix))
		var err error
		for i, x := range ix {
			if x < 0 || int(x) >= len(st) {
				return nil, fmt.Errorf("index %d out of store", x)
			}
			if x == poisoned {
				err = fmt.Errorf("injected read fault at stored index %d", x)
				continue // slot stays zero
			}
			out[i] = st[x]
		}
		return out, err
	})
}

// shortReader passes reads on and drops the last `drop` hashes of every reply
// without reporting an error.
type shortReader struct {
	r           tlog.HashReader
	drop        int
	asked, gave int
}

func (s *shortReader) ReadHashes(ix []int64) ([]tlog.Hash, error) {
	out, err := s.r.ReadHashes(ix)
	if err != nil {
		return nil, err
	}
	s.asked = len(ix)
	out = out[:max(0, len(out)-s.drop)]
	s.gave = len(out)
	return out, nil
}
