package props

import (
	"fmt"

	"golang.org/x/mod/sumdb/tlog"

	"verif/harness/mon"
	"verif/harness/ref/refmerkle"
)

// c03VirtualReader serves the stored hashes of a virtual log (ref/refmerkle.Virtual): positions are
// mapped to (level, offset) with the harness's own inverse of the documented storage order.
type c03VirtualReader struct {
	v      *refmerkle.Virtual
	n      int64 // indexes must belong to the tree of this size
	beyond []int64
}

func (r *c03VirtualReader) ReadHashes(ix []int64) ([]tlog.Hash, error) {
	out := make([]tlog.Hash, len(ix))
	for i, x := range ix {
		level, off, ok := refmerkle.SplitStored(x)
		if !ok || x >= refmerkle.StoredCount(r.n) {
			r.beyond = append(r.beyond, x)
			return nil, fmt.Errorf("no stored hash at position %d in a tree of %d records", x, r.n)
		}
		out[i] = tlog.Hash(r.v.Sub(level, off))
	}
	return out, nil
}

// c03Huge: the prover side on trees far too large to store — 2^31 … 2^61 records, all equal but for a
// few special ones — against the RFC 6962 definitions evaluated on the same virtual log: tree hash,
// audit path and consistency proof must be exactly the defined ones, the checkers must accept them, and
// the provers must not ask for a hash that the tree does not have.
func c03Huge(c *mon.Ctx) {
	r := c.GlobalRng("huge")
	var sizes []int64
	for _, k := range []uint{31, 32, 33, 40, 47, 48, 49, 50, 51, 52, 53, 54, 56, 60, 61} {
		p := int64(1) << k
		sizes = append(sizes, p-2, p-1, p, p+1, p+p/2-1, p-p/4-1, p-1-int64(r.IntN(1000)), p+int64(r.Int64N(p/2)))
	}
	n := len(sizes)
	if c.Quick() {
		n = len(sizes) // all sizes in every tier: a case costs microseconds
	}
	item := 0
	for si := 0; si < n; si++ {
		N := sizes[si]
		mine := c.Mine(item)
		item++
		id := fmt.Sprintf("huge:%d", N)
		// PRNG consumption does not depend on the replay filter
		sp := map[int64][]byte{}
		for _, pos := range []int64{0, N - 1, N / 2, r.Int64N(N), r.Int64N(N)} {
			sp[pos] = []byte(fmt.Sprintf("special record %d\n", pos))
		}
		ms := []int64{0, N - 1, N / 2, r.Int64N(N), N - 2, int64(1)<<30 - 1}
		ts := []int64{1, N - 1, N / 2, r.Int64N(N-1) + 1, int64(1) << 30, N - N/4}
		if !mine || !c.Want(id) {
			continue
		}
		c.WAL(id, nil)
		v := refmerkle.NewVirtual(N, []byte("base record\n"), sp)
		root := v.Root(N)
		rd := &c03VirtualReader{v: v, n: N}
		c.Guard(id, func() any { return map[string]any{"n": N} }, func() {
			th, err := tlog.TreeHash(N, rd)
			c.Eval(1)
			if err != nil || th != tlog.Hash(root) {
				c.Violation("treehash-not-rfc6962", id, map[string]any{"n": N, "err": fmt.Sprint(err), "asked-beyond-tree": rd.beyond})
				return
			}
			for _, m := range ms {
				if m < 0 || m >= N {
					continue
				}
				p, err := tlog.ProveRecord(N, m, rd)
				c.Eval(1)
				want := v.Path(m, N)
				if err != nil || !hashesEqual(p, want) {
					c.Violation("proverecord-not-rfc6962-path", id, map[string]any{"n": N, "m": m, "err": fmt.Sprint(err), "len": len(p), "want-len": len(want), "asked-beyond-tree": rd.beyond})
					return
				}
				if err := tlog.CheckRecord(p, N, th, m, tlog.Hash(refmerkle.Leaf(v.Rec(m)))); err != nil {
					c.Violation("checkrecord-rejects-rfc6962-path", id, map[string]any{"n": N, "m": m, "err": err.Error()})
					return
				}
				if len(p) > 0 {
					bad := append([]tlog.Hash(nil), p...)
					bad[len(bad)/2][5] ^= 1
					if tlog.CheckRecord(bad, N, th, m, tlog.Hash(refmerkle.Leaf(v.Rec(m)))) == nil {
						c.Violation("checkrecord-accepts-altered-path", id, map[string]any{"n": N, "m": m})
						return
					}
				}
			}
			for _, t := range ts {
				if t < 1 || t > N {
					continue
				}
				p, err := tlog.ProveTree(N, t, rd)
				c.Eval(1)
				want := v.Proof(t, N)
				if err != nil || !hashesEqual(p, want) {
					c.Violation("provetree-not-rfc6962-proof", id, map[string]any{"n": N, "t": t, "err": fmt.Sprint(err), "len": len(p), "want-len": len(want), "asked-beyond-tree": rd.beyond})
					return
				}
				if err := tlog.CheckTree(p, N, th, t, tlog.Hash(v.Root(t))); err != nil {
					c.Violation("checktree-rejects-rfc6962-proof", id, map[string]any{"n": N, "t": t, "err": err.Error()})
					return
				}
			}
			if len(rd.beyond) > 0 {
				c.Violation("prover-asks-for-hash-outside-tree", id, map[string]any{"n": N, "positions": rd.beyond})
				return
			}
			bits := 0
			for x := N; x > 0; x >>= 1 {
				bits++
			}
			c.Class(fmt.Sprintf("huge-virtual-log:bits=%d", bits))
		})
	}
}
