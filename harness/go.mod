module verif/harness

go 1.22.0

require (
	github.com/anishathalye/porcupine v1.3.0
	golang.org/x/mod v0.22.0
)

replace golang.org/x/mod => /repo
