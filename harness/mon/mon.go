// Package mon is the shared monitor runtime of the verification harness:
// per-batch context (deterministic PRNG, counters, distinct classes, samples,
// violations, write-ahead log of the input under test) and the JSON report a
// worker hands back to the ./check driver.
package mon

import (
	"crypto/sha256"
	"encoding/binary"
	"encoding/json"
	"fmt"
	"math/rand/v2"
	"os"
	"runtime/debug"
	"sort"
	"sync"
)

// Violation is one refuting observation.
type Violation struct {
	Class   string `json:"class"`   // monitor that fired
	Case    string `json:"case"`    // stable case id inside the batch (for replay)
	Detail  any    `json:"detail"`  // witness, human readable
	Finding string `json:"finding"` // non-empty when the case is a designated known-finding regression input
}

// Report is what one worker batch writes.
type Report struct {
	Prop         string           `json:"prop"`
	Tier         string           `json:"tier"`
	Seed         uint64           `json:"seed"`
	Batch        int              `json:"batch"`
	NBatch       int              `json:"nbatch"`
	Evaluations  int64            `json:"evaluations"`
	Classes      map[string]int64 `json:"classes"`
	Counters     map[string]int64 `json:"counters"`
	Samples      map[string][]any `json:"samples"`
	Violations   []Violation      `json:"violations"`
	Inconclusive []string         `json:"inconclusive"`
	Findings     map[string]bool  `json:"findings"` // designated finding inputs that were exercised: id -> still fails
	Done         bool             `json:"done"`
}

// Ctx is the per-batch monitor context. All methods are safe for concurrent use.
type Ctx struct {
	Prop, Tier    string
	Seed          uint64
	Batch, NBatch int
	Rng           *rand.Rand // only for the single generator goroutine
	ReplayCase    string     // when set, engines should skip every other case
	OutPath       string
	WALPath       string

	mu      sync.Mutex
	rep     Report
	walMu   sync.Mutex
	walF    *os.File
	maxViol int
	nviol   map[string]int
}

// New creates the context; the PRNG is a function of (seed, prop, batch) only.
func New(prop, tier string, seed uint64, batch, nbatch int, out, wal string) *Ctx {
	c := &Ctx{Prop: prop, Tier: tier, Seed: seed, Batch: batch, NBatch: nbatch, OutPath: out, WALPath: wal}
	c.Rng = c.SubRng("main")
	c.rep = Report{Prop: prop, Tier: tier, Seed: seed, Batch: batch, NBatch: nbatch,
		Classes: map[string]int64{}, Counters: map[string]int64{}, Samples: map[string][]any{}, Findings: map[string]bool{}}
	c.maxViol = 20
	c.nviol = map[string]int{}
	return c
}

// SubRng derives an independent deterministic PRNG stream.
func (c *Ctx) SubRng(label string) *rand.Rand {
	h := sha256.New()
	fmt.Fprintf(h, "%d|%s|%d|%s", c.Seed, c.Prop, c.Batch, label)
	s := h.Sum(nil)
	return rand.New(rand.NewPCG(binary.LittleEndian.Uint64(s[:8]), binary.LittleEndian.Uint64(s[8:16])))
}

// GlobalRng derives a PRNG stream that is the same in every batch of a run.
func (c *Ctx) GlobalRng(label string) *rand.Rand {
	h := sha256.New()
	fmt.Fprintf(h, "%d|%s|global|%s", c.Seed, c.Prop, label)
	s := h.Sum(nil)
	return rand.New(rand.NewPCG(binary.LittleEndian.Uint64(s[:8]), binary.LittleEndian.Uint64(s[8:16])))
}

// Quick reports whether the tier is quick.
func (c *Ctx) Quick() bool { return c.Tier != "thorough" }

// Scale picks a size by tier.
func (c *Ctx) Scale(quick, thorough int) int {
	if c.Quick() {
		return quick
	}
	return thorough
}

// Share returns this batch's share of a total count of cases.
func (c *Ctx) Share(total int) int {
	n := total / c.NBatch
	if c.Batch < total%c.NBatch {
		n++
	}
	return n
}

// Mine reports whether the i-th item of a globally enumerated list belongs to this batch.
func (c *Ctx) Mine(i int) bool { return i%c.NBatch == c.Batch }

// Want reports whether the case with this id should run (replay filter).
func (c *Ctx) Want(caseID string) bool { return c.ReplayCase == "" || c.ReplayCase == caseID }

// Eval counts oracle evaluations.
func (c *Ctx) Eval(n int) {
	c.mu.Lock()
	c.rep.Evaluations += int64(n)
	c.mu.Unlock()
}

// Class records an observation of a distinct non-trivial class.
func (c *Ctx) Class(name string) {
	c.mu.Lock()
	c.rep.Classes[name]++
	c.mu.Unlock()
}

// Count adds to a free-form counter.
func (c *Ctx) Count(name string, n int) {
	c.mu.Lock()
	c.rep.Counters[name] += int64(n)
	c.mu.Unlock()
}

// Sample keeps up to max samples per kind.
func (c *Ctx) Sample(kind string, max int, v any) {
	c.mu.Lock()
	if len(c.rep.Samples[kind]) < max {
		c.rep.Samples[kind] = append(c.rep.Samples[kind], v)
	}
	c.mu.Unlock()
}

// Violation records a refuting observation (bounded per class).
func (c *Ctx) Violation(class, caseID string, detail any) {
	c.mu.Lock()
	c.rep.Counters["violations:"+class]++
	if c.nviol[class] < c.maxViol {
		c.nviol[class]++
		c.rep.Violations = append(c.rep.Violations, Violation{Class: class, Case: caseID, Detail: detail})
	}
	c.mu.Unlock()
}

// Finding records the outcome of a designated known-finding regression input.
func (c *Ctx) Finding(id string, stillFails bool, detail any) {
	c.mu.Lock()
	c.rep.Findings[id] = stillFails
	if stillFails {
		c.rep.Violations = append(c.rep.Violations, Violation{Class: "finding", Case: id, Detail: detail, Finding: id})
	}
	c.mu.Unlock()
}

// Inconclusive records that something the workload must reach was not reached.
func (c *Ctx) Inconclusive(msg string) {
	c.mu.Lock()
	c.rep.Inconclusive = append(c.rep.Inconclusive, msg)
	c.mu.Unlock()
}

// NViolations returns the number of violations recorded so far.
func (c *Ctx) NViolations() int {
	c.mu.Lock()
	defer c.mu.Unlock()
	n := 0
	for k, v := range c.rep.Counters {
		if len(k) > 11 && k[:11] == "violations:" {
			n += int(v)
		}
	}
	return n
}

// WAL writes the input about to be handed to the code under test to the
// write-ahead file, so a fatal error of the process leaves the culprit on disk.
func (c *Ctx) WAL(caseID string, data []byte) {
	if c.WALPath == "" {
		return
	}
	c.walMu.Lock()
	defer c.walMu.Unlock()
	if c.walF == nil {
		f, err := os.OpenFile(c.WALPath, os.O_CREATE|os.O_WRONLY|os.O_TRUNC, 0o644)
		if err != nil {
			return
		}
		c.walF = f
	}
	// One file kept open and overwritten in place (open/close per case costs ~1 ms on ext4).
	buf := make([]byte, 0, len(caseID)+1+len(data))
	buf = append(append(append(buf, caseID...), '\n'), data...)
	c.walF.WriteAt(buf, 0)
	c.walF.Truncate(int64(len(buf)))
}

// Guard runs f, turning a panic of the code under test into a violation.
func (c *Ctx) Guard(caseID string, witness func() any, f func()) (panicked bool) {
	defer func() {
		if r := recover(); r != nil {
			panicked = true
			var w any
			if witness != nil {
				w = witness()
			}
			c.Violation("panic", caseID, map[string]any{"panic": fmt.Sprint(r), "stack": string(debug.Stack()), "witness": w})
		}
	}()
	f()
	return false
}

// Flush writes the report (Done=true marks a batch that ran to completion).
func (c *Ctx) Flush(done bool) error {
	c.mu.Lock()
	defer c.mu.Unlock()
	c.rep.Done = done
	b, err := json.Marshal(&c.rep)
	if err != nil {
		// A detail that does not marshal must not hide the violation itself.
		for i := range c.rep.Violations {
			c.rep.Violations[i].Detail = fmt.Sprintf("%+v", c.rep.Violations[i].Detail)
		}
		for k := range c.rep.Samples {
			for i := range c.rep.Samples[k] {
				c.rep.Samples[k][i] = fmt.Sprintf("%+v", c.rep.Samples[k][i])
			}
		}
		b, err = json.Marshal(&c.rep)
		if err != nil {
			return err
		}
	}
	tmp := c.OutPath + ".tmp"
	if err := os.WriteFile(tmp, b, 0o644); err != nil {
		return err
	}
	return os.Rename(tmp, c.OutPath)
}

// ClassNames returns the sorted distinct class names (for debugging).
func (c *Ctx) ClassNames() []string {
	c.mu.Lock()
	defer c.mu.Unlock()
	var s []string
	for k := range c.rep.Classes {
		s = append(s, k)
	}
	sort.Strings(s)
	return s
}

// Q quotes bytes for a witness so that invalid UTF-8 survives JSON.
func Q(b []byte) string { return fmt.Sprintf("%q", b) }

// QS quotes a string for a witness.
func QS(s string) string { return fmt.Sprintf("%q", s) }
