#!/usr/bin/env python3
"""Development aid: ingest the SEEDED/1,2 of a seed round for the given properties.
   ingest.py /tmp/seed4- 6 C01 C02 ...   -> archives as C01-7, C01-8 (offset 6)"""
import os, subprocess, sys
REL = {"C01": "C01,C10,C14", "C02": "C02,C20", "C03": "C03,C09", "C04": "C04,C18", "C05": "C05,C12,C17", "C06": "C06,C11", "C07": "C07",
       "C08": "C08,C15,C16", "C09": "C09,C03", "C10": "C10,C01", "C11": "C11,C06", "C12": "C12,C05,C17", "C13": "C13,C14", "C14": "C14,C13",
       "C15": "C15,C08,C16", "C16": "C16,C08,C15", "C17": "C17,C05,C12", "C18": "C18,C04", "C19": "C19,C12", "C20": "C20,C02"}
prefix, off = sys.argv[1], int(sys.argv[2])
for p in sys.argv[3:]:
    for k in (1, 2, 3):
        src = "%s%s/SEEDED/%d" % (prefix, p, k)
        if not os.path.isdir(src):
            continue
        name = "%s-%d" % (p, off + k)
        print("==", name, flush=True)
        r = subprocess.run(["tools/seedcheck.py", p, src, name, "--checks", REL[p]], cwd="/verif", capture_output=True, text=True)
        for l in r.stdout.splitlines():
            if l.startswith(("builds=", "  check", "archived", "PATCH")):
                print(l, flush=True)
        if r.returncode:
            print("seedcheck exit", r.returncode, r.stderr[-300:])
