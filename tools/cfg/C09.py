"""Configuration of the C09 check (read by tools/propcfg.py)."""

CFG = {'level': 'exploration',
 'design_ref': '5.9 C09',
 'technique': 'runtime monitoring: invariant monitor on the appended store (each stored hash vs. independent recursive RFC 6962 MTH, index '
              'bijection, completion-order formula), codec round-trip monitors',
 'level_text': 'Logs of 257 and 700 (quick) / 16385 and 30000 (thorough) PRNG records per batch are appended one record at a time; every stored hash, '
               'every index<->coordinate mapping, every StoredHashCount and every TreeHash(m) is compared with an independent model; 2e5/6e7 sparse '
               'coordinates up to 2^61 and 1e5/3e7 tree/record/hash codec round trips.'
               ' Added after seeded changes: a leaf-hash sweep over every record length 0..1100 and around larger powers of two, code points at every UTF-8 boundary incl. U+FFFD in record texts, a zero-copy HashReader pass with a shadow copy of the store (the library may only read what ReadHashes returns), and eight logs built concurrently.',
 'level_note': 'Trusts crypto/sha256 and ref/refmerkle (recursive MTH; completion-order index formula StoredCount(rec)+level derived from the '
               'documented append protocol).',
 'gomaxprocs': 4,
 'nbatch': {'quick': 16, 'thorough': 64},
 'timeout': {'quick': 300, 'thorough': 3000},
 'rule': 'PRNG record sequences (empty and repeated records included); a class is (stored-hash level | popcount of the tree size whose hash is '
         'checked | sparse coordinate level | codec kind and accept/reject of a mutated encoding).',
 'floors': {'all': [('stored:level=7', 1),
                    ('treehash:popcount=1', 1),
                    ('sparse:level=60', 1),
                    ('codec:record-text-refused', 1),
                    ('codec:mutated-tree-rejected', 1)]},
 'assumptions': ['SHA-256 collisions do not occur']}
CFG['level_text'] += ' Mutated JSON texts of hashes and tree heads whose first line merely starts with the prescribed one must be rejected or mean exactly what they say; appends through stores that reply with the wrong number of hashes must fail or still give the true hashes.'
CFG['level_text'] += ' JSON texts are decoded into a receiver that already holds a hash, which must be unchanged when the text is rejected.'
CFG['level_text'] += ' After each tree head, the other head of a fork (same size, one bit of the hash changed) is encoded and decoded, and the first is encoded again.'
