"""Configuration of the C15 check (read by tools/propcfg.py)."""

CFG = {'level': 'exploration',
 'design_ref': '5.15 C15',
 'technique': 'runtime monitoring: edit sessions on the real modfile.File / WorkFile; oracle = multiset equality of the exported struct fields with a '
              'strict re-parse of the formatted file, no cleared placeholder entries, Add*(x);Drop*(x) probes',
 'level_text': 'About 1.7e5 (quick) / 3e6 (thorough) sessions of 1..12 edit operations (go.mod and go.work, valid arguments from a small colliding '
               'universe, Cleanup before bulk sets and at the end) on generated starting files with duplicates, mixed forms and tagged comments; a '
               'third of the sessions end in an Add*(x);Drop*(x) probe. After each session module, go, toolchain, godebug, require+indirect, '
               'exclude, replace old/new, retract interval+rationale, tool and use path of the struct must equal, as multisets, what a strict parse '
               'of File.Format yields; no nil or all-zero entries may remain; after a probe x must be gone on both sides. The minimal witnesses of '
               'the repaired defects 6.3-6.6 run as fixed regression sessions. Held-on-observed only.',
 'level_note': 'The strict parser is the authority on what the text means (C02/C20 guard it). Use.ModulePath is excluded, pointer identity is not '
               'required. Domain restriction: generated files have no leading comment on retract blocks, because Retract.Rationale then depends on '
               'layout (two known findings, run as designated inputs: retract-rationale-block-collapse, retract-rationale-inherited-from-block).',
 'nbatch': {'quick': 16, 'thorough': 64},
 'timeout': {'quick': 400, 'thorough': 3000},
 'rule': 'a case is (starting file, operation sequence[, probe]); a class is (file kind, operation, effect according to the reference model), an '
         'operation that addressed an entry created earlier in the same session (later-op-on-session-entry), a probe kind x whether x was present '
         'before, a directive kind compared non-empty, or a fixed regression session.',
 'floors': {'all': [('equal:mod:retract:nonempty', 5000),
                    ('equal:mod:tool:nonempty', 5000),
                    ('equal:work:use:nonempty', 2000),
                    ('equal:work:godebug:nonempty', 2000),
                    ('op:mod:AddRetract:fresh', 2000),
                    ('op:mod:DropTool:one', 500),
                    ('op:work:DropGodebug:one', 300),
                    ('op:mod:AddReplace:rewrite-versioned-to-wildcard', 200),
                    ('later-op-on-session-entry:mod:DropRetract:one', 200),
                    ('later-op-on-session-entry:mod:AddRequire:update', 300),
                    ('later-op-on-session-entry:work:DropUse:one', 300),
                    ('probe:mod:AddRetract;DropRetract:absent-before-probe', 200),
                    ('probe:mod:AddReplace;DropReplace:present-before-probe', 80),
                    ('probe:mod:AddTool;DropTool:absent-before-probe', 150),
                    ('probe:work:AddGodebug;DropGodebug:present-before-probe', 80),
                    ('probe:work:AddUse;DropUse:absent-before-probe', 100),
                    ('regression:fixed-6.3-addretract-dropretract', 1),
                    ('regression:fixed-6.4-droptool', 1),
                    ('regression:fixed-6.5-addreplace-wildcard', 1),
                    ('regression:fixed-6.6-work-dropgodebug', 1)]},
 'assumptions': ['the strict parser reads the formatted result correctly (guarded by C02/C20)',
                 'operations receive valid arguments only; Cleanup is called before every bulk set and at the end',
                 'no leading comment on retract blocks in generated files (domain restriction, see known findings)']}
CFG['level_text'] += ' Replace targets include the bare `.` and `..`; rationales include ones beginning with an empty line.'
CFG['level_text'] += ' Untagged require lines now and then end in a comment holding nothing but blanks.'
CFG['level_text'] += ' Sessions include refused calls (see C08): whatever a refusal leaves in the typed lists shows in the structure-vs-reparse comparison and to the operations that follow.'
