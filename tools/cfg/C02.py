"""Configuration of the C02 check (read by tools/propcfg.py)."""

CFG = {'level': 'exploration',
 'design_ref': '5.2 C02',
 'technique': 'runtime monitoring of modfile.Format / File.Format / Parse / ParseWork / the syntax-only parser on generated and mutated texts; '
              'oracle = print-order flattening taken before Format, byte idempotence, directive-value equality',
 'level_text': 'Token soup, a structure generator that puts comments at each of the ten textual comment sites, mutated testdata fixtures and '
               'mutated well-formed files (4e5 quick / 2e7 thorough inputs) go through parse -> Format -> parse -> Format on the syntax layer; '
               '5e4 / 2e6 well-formed go.mod and go.work files (line and block forms, redundant quoting, comments, CRLF; one third mutated) go '
               'through strict Parse/ParseWork -> Format -> Parse with fixer nil and with a canonicalising fixer. Held-on-observed only.',
 'level_note': 'The flattening ignores which node a comment is attached to (the statement only fixes order and text) and compares comment '
               'texts after TrimSpace; pure layout changes are not violations. Trusts ref/refsemver for the in-domain test (versions valid).',
 'nbatch': {'quick': 16, 'thorough': 64},
 'timeout': {'quick': 300, 'thorough': 3000},
 'rule': 'flatten(tree) = statement kinds, tokens and trimmed comment texts in print order, taken before Format; then out = Format(tree) must '
         'parse, flatten equal, Format(parse(out)) == out; for strict-accepted in-domain files the directive values before and after Format '
         'are equal (fixer nil / canonicalising) and File.Format == Format(File.Syntax). A class is (generator x accepted|rejected), a comment '
         'site observed non-empty in an accepted tree, a tree/token shape, (file kind x fixer mode x outcome) or a directive kind whose value '
         'was compared.',
 'floors': {'all': [('site:file-before', 2000), ('site:file-after', 2000), ('site:stmt-before', 2000), ('site:stmt-suffix', 2000),
                    ('site:stmt-after', 2000), ('site:lparen-suffix', 2000), ('site:line-before', 2000), ('site:line-suffix', 2000),
                    ('site:rparen-before', 2000), ('site:rparen-suffix', 2000), ('site:line-before:blank-line', 2000),
                    ('site:rparen-before:blank-line', 2000),
                    ('syntax:soup:accepted', 10000), ('syntax:structure:accepted', 10000), ('syntax:soup:rejected', 5000),
                    ('shape:crlf', 5000), ('shape:empty-block-one-line', 1000), ('shape:midline-paren', 1000), ('tok:string-with-escape', 1000),
                    ('file:go.mod:nofix:accepted', 1000), ('file:go.mod:fixer:accepted', 1000),
                    ('file:go.mod-noncanonical:fixer:accepted', 100),
                    ('file:go.work:nofix:accepted', 300), ('file:go.work:fixer:accepted', 300),
                    ('file:go.mod-mutated:nofix:accepted', 50),
                    ('value:module', 100), ('value:require-indirect', 100), ('value:retract-rationale', 50), ('value:module-deprecated', 50),
                    ('value:replace', 100), ('value:exclude', 100), ('value:tool', 100), ('value:godebug', 100), ('value:use', 100)]},
 'assumptions': ['comment attachment is not part of "same statements, tokens and comment texts in the same order"',
                 'ref/refsemver decides "versions valid" for the domain restriction of the directive-layer claim']}
CFG['level_text'] += ' Every Format result is kept, with a private copy, across the Format calls of the next case and must not change; values spelled like grammar tokens (=>, require, go, v1.0.0) are among the exotic paths.'
