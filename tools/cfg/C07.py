"""Configuration of the C07 check (read by tools/propcfg.py)."""

CFG = {'level': 'fault_enumeration',
 'design_ref': '5.7 C07',
 'technique': 'runtime monitoring with a call-log oracle: every note.Verifier given to note.Open is an instrumented wrapper that records each '
              'Verify(msg, sig) call and its result (and can be scripted to lie), every note.Verifiers can be scripted (mismatched verifier, '
              'arbitrary error, ambiguity); messages come from note.Sign and from an independent writer/reader of the documented format '
              '(ref/refnote), with the fault family "exactly one of several known signatures corrupted" and byte-level mutation of every '
              'region of a signed message',
 'level_text': 'About 8e4 (quick) / 2.4e6 (thorough) generated cases (2.2e5 / 6.6e6 oracle evaluations) in eight families: Sign->Open round trips and re-signing over valid and invalid '
               'texts (blank lines, signature-like lines, embedded signed notes, unicode, no final newline, control characters, invalid UTF-8) '
               'with signer/known subsets of 8 named keys incl. two keys of the same name and a pair with equal name AND key hash; 11 regions x 9 '
               'mutation kinds of an honest message; 12 corruptions of exactly one of 2..5 known signatures at first/middle/last position; 0..130 '
               'signature lines around the 100-line cap; duplicate lines; ambiguous VerifierList entries; scripted Verifiers (mismatched verifier, '
               'error, liars, nil); 36 hand-shaped adversarial layouts. After every Open: each Note.Sigs entry needs a logged Verify(msg == '
               'Note.Text, sig == decoded base64 minus 4 bytes) == true by the verifier reporting that name and hash; at least one verified '
               'signature; the message must be the returned text + blank line + signature lines; a bad first signature line of a known key, a '
               'Verifiers error or a modified text must make Open fail; well-formed notes with a good known signature must open with the '
               'documented known/unknown partition. Held-on-observed.'
               ' Added after seeded changes: a partly failing Sign call before a third of the checked Sign calls, keys listed 3, 4 and 5 times in VerifierList, and a boundary-shift message (text tail moved into the signature bytes) shown to the SAME verifier objects right after the genuine message.',
 'level_note': 'Faults are enumerated per family (region x kind, corruption x position, scenario tables) with PRNG-chosen positions and texts; '
               'arbitrary multi-fault adversaries are sampled only. Repeated lines of an already accepted key, more than 100 signature lines, '
               'zero-length signatures and what Open does with a mismatched verifier (beyond never listing its signature) are treated as '
               'unspecified. Trusts Ed25519/SHA-256/base64 of the standard library and ref/refnote.',
 'nbatch': {'quick': 16, 'thorough': 64},
 'timeout': {'quick': 400, 'thorough': 3000},
 'rule': 'case = (family, enumerated scenario, PRNG text/keys/positions); oracle = call log of instrumented verifiers + reference parse of the '
         'message + the (scripted) verdict of each known verifier on the first line of its key. A class is family x scenario (text class, region x '
         'mutation kind, corruption x position, line count x composition, scripted behaviour) x outcome (opened | rejected-unverified | '
         'rejected-invalid-signature | rejected-malformed | rejected-other-error), plus oracle:* classes counting how often each demand was '
         'exercised and unspecified:* classes for inputs the statement does not decide.',
 'floors': {'all': [('oracle:listed-signature-checked-against-call-log', 1000),
                    ('oracle:round-trip-opened', 100),
                    ('oracle:one-bad-among-good:rejected', 100),
                    ('onebad:flip-sig-bit:first:rejected-invalid-signature', 1),
                    ('onebad:sig-by-other-key:last:rejected-invalid-signature', 1),
                    ('oracle:text-mutation-rejected', 100),
                    ('oracle:no-known-signature:rejected', 10),
                    ('oracle:not-a-signed-note:rejected', 10),
                    ('oracle:100-signature-lines:opened', 1),
                    ('oracle:ambiguous-key:rejected', 1),
                    ('oracle:mismatched-verifier:rejected', 1),
                    ('oracle:verifiers-error:rejected', 1),
                    ('oracle:lying-false-verifier:rejected', 1),
                    ('oracle:lying-true-verifier:opened-and-logged', 1),
                    ('dup:known-bad-then-good:rejected-invalid-signature', 1),
                    ('mut:b64-keyhash:flip-bit:opened-with-signed-text', 1),
                    ('rt:blank-then-sig-like:signers=3+:known-signers=1:opened', 1)]},
 'assumptions': ['Ed25519 signatures cannot be forged and crypto/ed25519, crypto/sha256, encoding/base64 are correct',
                 'ref/refnote transcribes the signed-note format of the package documentation correctly']}
CFG['level_text'] += " Round trips also give a co-signer, or a signature already carried by the note, one of fifteen odd names (invalid UTF-8, spaces, '+', empty, unusual but carriable): Sign may refuse, but a message it returns must open with the same text."
CFG['level_text'] += ' A third of all messages are opened twice with the same verifier objects and must end the same way; every slice handed to VerifierList is overwritten with a decoy verifier afterwards.'
CFG['level_text'] += ' A Sign call that succeeds with a signer or carried signature whose name is empty, contains a Unicode space or a plus, or is not UTF-8 is a violation (names with leading spaces are among those tried).'
CFG['level_text'] += ' The key checks present, under a signature the same verifier has just accepted, another text of the same length and the same CRC-32.'
CFG['level_text'] += ' The key pool has names with runes whose low byte is the space or the plus sign and a letter whose UTF-8 form ends in the byte 0xA0.'
