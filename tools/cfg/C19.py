"""Configuration of the C19 check (read by tools/propcfg.py)."""

CFG = {'level': 'exploration',
 'design_ref': '5.19 C19',
 'technique': 'runtime monitoring: differential oracle (ref/refhash = own implementation of the documented h1 formula) on dirhash.Hash1 under 8 '
              'listing orders and differently chunked readers, near-collision pairs, newline refusal; HashDir/DirFiles on materialised temp trees, '
              'HashZip on archive/zip archives (random entry order, Store/Deflate, metadata) and on zip.Create archives, zip.Unzip + HashDir',
 'level_text': '3e4 (quick) / 3e6 (thorough) generated file sets (0..70 files; names with spaces, double spaces, CR, unicode and invalid UTF-8, NUL, '
               'names of the form <64 hex><2 spaces>x, names that are prefixes of one another, empty names; contents empty to 70 KB) are hashed in 8 '
               'orders each and compared with the own formula; per set 4 collision-seeking neighbours (bytes moved between name and content, swapped '
               'contents, padded names, split/joined files, a file named like a summary line) must hash differently; names with a newline at any '
               'position must be refused by Hash1, HashDir and HashZip. 3e3 / 5e4 materialised trees (HashDir and DirFiles under 10 prefixes and 5 '
               'spellings of the directory, equal to HashZip of an archive/zip archive of the same entries), 2e3 / 3e4 archives with arbitrary entry '
               'names, 3e3 / 5e4 module zips from zip.Create whose HashZip must equal the formula over the entries and HashDir of the zip.Unzip '
               'output under "path@version". Held-on-observed only.'
               ' Added after seeded changes: a read fault injected into one file of every set (Hash1 must fail, not hash the truncated content), a positional-lookup caller plus a snapshot comparison of the list handed to Hash1, and directory attribute bits on regular zip entries (the hash is over names and bytes only).',
 'level_note': 'Injectivity limit (DESIGN 5.19): that different (name, content) sets always give different summaries is only observable through '
               'the hash; the monitor refutes it on the generated neighbour pairs and cannot establish it. The argument for the rest is the formula '
               'check plus the refusal of newlines in names (the summary of newline-free names is uniquely parseable: 64 hex digits, two spaces, the '
               'name, newline). File lists with a repeated name, zip directory entries, duplicate zip entries and unclean prefixes ("m@v/", "./m") are '
               'outside the statement and not judged. Trusts crypto/sha256, encoding/base64, archive/zip and the file system of TMPDIR.',
 'nbatch': {'quick': 16, 'thorough': 64},
 'timeout': {'quick': 300, 'thorough': 3000},
 'rule': 'oracle = "h1:" + base64(SHA-256(summary)), summary = for each file in byte order of the names: hex SHA-256 of the content, two spaces, '
         'the name, newline; newline in a name => error. A class is a set size, a hostile name shape present in the set, (neighbour family x '
         'same-set|different-hash), newline position x API, (HashDir prefix | spelling of the directory), or a module-zip outcome.',
 'floors': {'all': [('names:hex64-two-spaces', 1),
                    ('names:prefix-pair', 1),
                    ('names:carriage-return', 1),
                    ('names:double-space', 1),
                    ('names:non-ascii', 1),
                    ('content:larger-than-copy-buffer', 1),
                    ('derive:name-byte-to-content:different-hash', 1),
                    ('derive:content-byte-to-name:different-hash', 1),
                    ('derive:add-file-named-like-summary-line:different-hash', 1),
                    ('derive:reorder-only:same-set-same-hash', 1),
                    ('newline:middle:refused', 1),
                    ('newline:forged-second-line:refused', 1),
                    ('newline:hashdir:refused', 1),
                    ('newline:hashzip:refused', 1),
                    ('hashdir:prefix:m@v', 1),
                    ('hashdir:prefix:', 1),
                    ('hashdir:dir-form=dot', 1),
                    ('hashdir:names:hex64-two-spaces', 1),
                    ('ownzip:equals-hashdir', 1),
                    ('zip:arbitrary-names:formula', 1),
                    ('modzip:hashzip=hashdir=formula', 1),
                    ('modzip:names:double-space', 1)]},
 'assumptions': ['SHA-256 collisions do not occur',
                 'archive/zip reads back what it wrote; the file system under TMPDIR stores arbitrary byte names except NUL and "/"',
                 'ref/refhash transcribes the doc comment of dirhash.Hash1 correctly']}
CFG['level_text'] += ' An eighth of the module zips are extracted over leftovers of an earlier attempt (a file below subdirectories): a refusal is retried on a clean target, a success is judged like any extraction.'
CFG['level_text'] += ' Half of the directory trees get a file added below a subdirectory after the first look and are hashed again with the same directory argument.'
CFG['level_text'] += ' One history per run makes 450 refused HashZip/HashDir calls (newline names, an entry failing its checksum) with the process allowed only 48 more open files than it holds, and then requires a module zip made by zip.Create to hash, extract and agree with the formula.'
CFG['level_text'] += ' One generated content in fourteen is a CRC-32 twin (same length, same checksum, other bytes) of another file of the set.'
