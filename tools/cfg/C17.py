"""Configuration of the C17 check (read by tools/propcfg.py)."""

CFG = {'level': 'exploration',
 'design_ref': '5.17 C17',
 'technique': 'runtime monitoring with a differential oracle: CheckFiles against a sequential reference classifier written from the documented '
              'rules (ref/refzip), metamorphic comparison of nine orders of every list, and dir-vs-list agreement (CheckDir vs CheckFiles, '
              'CreateFromDir vs Create) on trees materialised in a sandbox',
 'level_text': 'For 3*10^4 (quick) / 5*10^5 (thorough) generated lists with fake Lstat results, each in 9 orders (as generated, 6 PRNG permutations, '
               'sorted, reversed): every file lands in exactly one of valid/omitted/invalid (distinct paths), the three lists equal the reference '
               'classification (unclean, absolute, vendored with the <1.24 and >=1.24 variants incl. vendor/modules.txt, nested module by a regular '
               'go.mod in any case, .hg_archival.txt, file-path validity, go.mod case, collision with anything listed earlier incl. implied '
               'directories, symlink, irregular, MaxGoMod/MaxLICENSE/MaxZipFile), error-ness is the same in all orders and paths outside a '
               'collision group keep their class; go versions absent, 1.9 .. 1.100, rc and patch forms, unparsable go.mod, go.mod as a directory. '
               'For 2*10^3 / 10^5 trees of regular files and directories without VCS directories: CheckDir and CheckFiles report the same valid '
               'and invalid sets (walk order; any order for collision-free trees), CreateFromDir and Create(list) succeed or fail together with '
               'the same entries and content. Held-on-observed.',
 'level_note': 'Collisions are order dependent by definition (the later one is invalid), so inside a collision group only error-ness is compared '
               'across orders. Lists in which one path is listed several times and is both omitted and invalid, go.mod files with unclean paths, '
               'two root go.mod entries with different go versions, negative sizes, and the doc-vs-code corners of CheckFilePath (.. inside an '
               'element, ~digits, COM0/LPT0) are skipped and counted as unspecified:* classes.',
 'nbatch': {'quick': 16, 'thorough': 64},
 'timeout': {'quick': 300, 'thorough': 3000},
 'rule': 'one evaluation = one CheckFiles/CheckDir/Create call decided by the oracle; a class is the reference rule that decided a file, vendor '
         'position x go-version rule x verdict, size-limit boundary x verdict, root go.mod kind, permutation shape, tree shape x outcome, or a '
         'skipped unspecified corner.',
 'floors': {'all': [('rule:vendored', 100), ('rule:nested-module', 100), ('rule:hg-archival', 5), ('rule:symlink', 20),
                    ('rule:not-regular:irregular', 20), ('rule:not-regular:directory', 10), ('rule:unclean', 50), ('rule:absolute', 20),
                    ('rule:filepath:bad-char', 20), ('rule:filepath:windows-reserved', 20),
                    ('rule:collision:fold-collision', 50), ('rule:collision:file-vs-directory', 20), ('rule:collision:duplicate-file', 20),
                    ('rule:go.mod-case', 50), ('rule:go.mod-size', 5), ('fold-collision:ascii-only=false', 5),
                    ('vendor:nested:new-rule=true:valid', 5), ('vendor:nested:new-rule=false:vendored', 50),
                    ('vendor:modules.txt:new-rule=true:vendored', 3), ('vendor:modules.txt:new-rule=false:valid', 5),
                    ('root-go.mod:unparsable', 20), ('root-go.mod:new:1.24rc1', 5), ('root-go.mod:old:1.23.4', 5),
                    ('perm:with-collision-group', 50), ('perm:collision-free', 500), ('size-error', 10),
                    ('tree:collision-free-shuffled', 100), ('tree:with-collision-group', 10), ('tree:create-ok=true', 100),
                    ('tree:create-ok=false', 50), ('tree-rule:nested-module', 20), ('tree-rule:vendored', 20),
                    ('tree:directory-omitted-as-a-whole', 20)]},
 'assumptions': ['ref/refzip transcribes the documented rules correctly (go version of the root go.mod is an annotation of the generated text)',
                 'strings.EqualFold of the standard library is Unicode simple case folding',
                 'the sandbox file system is case-sensitive and accepts arbitrary names']}
CFG['level_text'] += ' A third of the root go.mod files come from the go.mod generator (non-ASCII comments, comment blocks glued to directives, CRLF, blocks, unknown directives) and the fixed list includes spellings only the lenient reader accepts (v1.24.0, 1.24.x, 1.25-custom).'
CFG['level_text'] += ' Two cases have a root go.mod whose real content is MaxGoMod-1 and MaxGoMod bytes long and declares go 1.24.'
CFG['level_text'] += ' One real tree holds a sparse file of MaxZipFile+1 bytes: directory check and list check must both report the size error and both ways of creating must fail.'
CFG['level_text'] += ' The size-limit scenario includes a go.mod one byte over the limit that declares go 1.24: the file is invalid, the other files are still judged by the 1.24 vendoring rules.'
CFG['level_text'] += ' List mutations include a reserved file name next to a sibling directory whose name is a prefix of its stem (co/ and con.go), names in which a reserved stem first occurs inside a longer word, and go lines written with a tab, an indent, CRLF or a comment.'
CFG['level_text'] += ' go.mod texts include a no-break space, an ideographic space, a byte order mark, an undecodable byte inside a skipped line and Latin-1 letters in a requirement version; directory names include letters whose case-folded form is shorter in UTF-8.'
