"""Configuration of the C18 check (read by tools/propcfg.py)."""

CFG = {'level': 'exploration',
 'design_ref': '5.18 C18',
 'technique': 'runtime monitoring: round-trip and order monitors on module.PseudoVersion / IsPseudoVersion / PseudoVersionBase / Time / Rev over '
              'generated (base, time, revision) triples; order decided by semver.Compare AND by the independent math/big reference order; '
              'next release computed with math/big; negative families (ordinary versions, mutated pseudo-versions) for the recogniser',
 'level_text': 'About 2e5 (quick) / 1e7 (thorough) generated triples: bases from the valid-version generator (prereleases, shortened forms, '
               '+incompatible and other build metadata, 1..40-digit patch numbers incl. all nines, bases that are themselves pseudo-versions), '
               'instants over the whole of UTC years 0001-9999 shown in zones -14h..+14h with sub-second parts, alphanumeric revisions of 1..40 '
               'characters. Each result must be valid, recognised, give back base/time/revision exactly and sort base < pv < next release (or below '
               'vX.0.0 without a base); a second, later instant with an independent revision must give a higher version. Ordinary versions without '
               'the documented shape must not be recognised, and mutated pseudo-versions must yield errors, never panics. Held-on-observed only.',
 'level_note': 'The domain is restricted to instants whose UTC year is 0001-9999 (outside it the 14-digit stamp does not exist). Trusts package '
               'time for Unix<->calendar conversion, math/big, and ref/refsemver as the second order oracle. For strings that have a documented '
               'pseudo-version shape but were not produced by PseudoVersion only consistency (not recognised => accessors fail; invalid calendar '
               'stamp => PseudoVersionTime fails; no panic) is demanded; whether they are recognised is outside the statement.',
 'nbatch': {'quick': 16, 'thorough': 64},
 'timeout': {'quick': 300, 'thorough': 3000},
 'rule': 'case = (major, base, instant, zone, revision, second instant, second revision); oracle = own canonical base + build, instant floored to '
         'the second, revision; strict order against base / math-big next release / vX.0.0 under semver.Compare and the reference order. A class '
         'is (base shape x release|pre x carry kind x build kind), (zone side x UTC-date-differs x sub-second), revision shape, (time-distance '
         'bucket x revision order) of the monotonicity pair, or (negative family x documented shape x outcome).',
 'floors': {'all': [('gen:full:release:carry-grows:nobuild', 1),
                    ('gen:full:release:carry-grows:big:incompatible', 1),
                    ('gen:full:pre:otherbuild', 1),
                    ('gen:short2:release:nobuild', 1),
                    ('gen:none', 1),
                    ('time:zone=west:utc-date-differs=true:subsecond=true', 1),
                    ('time:zone=east:utc-date-differs=true:subsecond=true', 1),
                    ('time:local-year-outside-0001-9999', 1),
                    ('mono:1s:rev-descending', 1),
                    ('mono:<=31d:rev-descending', 1),
                    ('order:baseless<vX.0.0:big-major', 1),
                    ('zero:roundtrip', 1),
                    ('zero:nonzero-rejected', 1),
                    ('ordinary:none:rejected', 1),
                    ('mut:timestamp-13-digits:none:rejected', 1),
                    ('mut:timestamp-not-a-time:form2:bad-timestamp-error', 1),
                    ('mut:revision-non-alphanumeric:invalid:rejected', 1)]},
 'assumptions': ['package time converts between Unix seconds and the proleptic Gregorian calendar correctly',
                 'math/big and regexp are correct',
                 'ref/refsemver transcribes the documented version grammar and SemVer precedence correctly']}
CFG['level_text'] += ' Build metadata of bases is generated from the grammar (identifiers over [0-9A-Za-z-], dots), not only from a list.'
CFG['level_text'] += ' Every batch runs under another process-local time zone (UTC, +05:30, -09:00, +14:00, an odd offset).'
