"""Configuration of the C20 check (read by tools/propcfg.py)."""

CFG = {'level': 'exploration',
 'design_ref': '5.20 C20',
 'technique': 'runtime monitoring of modfile.Parse / ParseLax / ParseWork / ModulePath / the syntax-only parser on arbitrary bytes: totality '
              '(worker process with write-ahead input, panic guard, watchdog + single-case replay for hangs), position arithmetic recomputed '
              'from the input, strict-vs-lax differential, unknown-statement insertion, ModulePath differential',
 'level_text': 'Random bytes, token soup, structured texts, mutated testdata fixtures, mutated and unmutated well-formed go.mod / go.work '
               'files (6e5 quick / 3e7 thorough inputs, a quarter of them also with a canonicalising or failing VersionFixer) and a few very '
               'large inputs per batch (1 MiB lines, 1e5 tokens on a line, 1e4 nested-looking parentheses) are given to all five entry '
               'points; every returned Position (ErrorList entries, Line.Start/End, LineBlock.Start, LParen, RParen, Comment.Start, Span()) is '
               'recomputed from the input. Held-on-observed only; "never hangs" is a watchdog observation.',
 'level_note': 'Positions: lines split at \\n, LineRune counted in runes with an invalid byte as one rune, as the Position doc comment says. '
               'ModulePath agreement is evaluated only for module paths inside a conservative "plain import path" subset and outside the '
               'domain of known finding modulepath-block-line. An all-zero Position in an Error is read as "no position" (documented by '
               'Error.Error).',
 'nbatch': {'quick': 16, 'thorough': 64},
 'timeout': {'quick': 300, 'thorough': 3000},
 'hang_replay_s': 120,
 'rule': 'each input -> VerifParse, Parse, ParseLax, ParseWork, ModulePath; exactly one of result/error, error is a non-empty ErrorList without '
         '"internal error", positions = recomputation and point at their token/comment, spans contain exactly the tokens; strict accept => lax '
         'accept with equal module/go/require/retract; unknown statements inserted => lax same values, strict rejects; ModulePath == strict '
         'module path on single-line plain-import-path module directives. A class is (entry point x accepted | first error kind), (generator x '
         'outcome), a directive kind compared strict=lax, a ModulePath sub-domain, a huge-input kind.',
 'floors': {'all': [('VerifParse:accepted', 10000), ('Parse:accepted', 5000), ('ParseLax:accepted', 5000), ('ParseWork:accepted', 1000),
                    ('Parse+fixer:accepted', 500), ('ParseLax+fixer:accepted', 500), ('ParseWork+fixer:accepted', 100),
                    ('err:VerifParse:unexpected-input-character', 100), ('err:VerifParse:unexpected-EOF-in-string', 100),
                    ('err:VerifParse:unexpected-newline-in-string', 100), ('err:VerifParse:unterminated-block', 100),
                    ('err:VerifParse:mod-files-must-use-//-comments', 100), ('err:VerifParse:expected-newline-after-closing-paren', 100),
                    ('err:Parse:unknown-directive', 100), ('err:Parse:unknown-block-type', 100), ('err:Parse+failing-fixer:fixer-says-no', 20),
                    ('Parse:many-errors', 100),
                    ('strict=lax:module', 1000), ('strict=lax:go', 1000), ('strict=lax:require', 1000), ('strict=lax:retract', 1000),
                    ('unknown-inserted:lax-accepts-same-values:strict-rejects', 1000),
                    ('origin:go.mod+unknown:lax-only-accepted', 1000),
                    ('modulepath:agrees', 1000), ('modulepath:agrees:quoted', 50), ('modulepath:unspecified:block-form', 50),
                    ('origin:file-mutated:strict-accepted', 500), ('origin:soup:syntax-accepted', 1000),
                    ('origin:random-bytes:syntax-rejected', 1000), ('origin:go.mod:strict-accepted', 5000),
                    ('huge:long-ident', 1), ('huge:long-comment', 1), ('huge:many-tokens', 1), ('huge:nested-parens', 1),
                    ('huge:nested-parens-closed', 1), ('huge:big-block', 1), ('huge:long-string', 1)]},
 'assumptions': ['an all-zero Position in an Error means "no position"',
                 'ref/refmodpos.PlainImportPath is a subset of the valid import paths',
                 'a hang is only reported when the single-case replay also exceeds its cap (driver)']}
CFG['level_text'] += " The four lexer messages are anchored: the position must be at the '/*', the newline, the unexpected character, or the opening quote of the unterminated string they name, and is never absent."
CFG['level_text'] += ' What a top-level `module X` line names is read from the syntax-only tree by the harness itself; when that is a plain import path the strict parser must report exactly it.'
CFG['level_text'] += " The message 'expected newline after closing paren' is anchored too: its position lies on the (logical) line of a closing parenthesis, behind it and a further token."
