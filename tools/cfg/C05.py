"""Configuration of the C05 check (read by tools/propcfg.py)."""

CFG = {'level': 'exploration',
 'design_ref': '5.5 C05',
 'technique': 'runtime monitoring of the Create -> own reader -> CheckZip -> Unzip pipeline in a per-case file-system sandbox; oracle = own archive '
              'reader (archive/zip) + own restriction checker and module path/version rules (ref/refzip, written from the doc comments) + byte '
              'comparison of the extracted tree with the files CheckFiles reports valid + snapshot of everything around the target directory',
 'level_text': 'For 1.8*10^4 (quick) / 3*10^5 (thorough) generated file lists (<= 12 / 40 files; unicode and case variants incl. the Kelvin sign and '
               'sharp s, reserved names, unclean/absolute paths, duplicates, file-vs-directory clashes, vendor and nested-module layouts, symlink '
               'and irregular modes through a fake FileInfo, go.mod with/without/unparsable go line) and valid or rule-breaking module '
               'path/version pairs: Create succeeds exactly when CheckFiles reports no error (honest sizes, valid module), never for an invalid '
               'module; every created archive obeys all documented restrictions, passes CheckZip with no invalid entry, extracts without error to '
               'exactly the valid files byte for byte, and nothing changes outside the target directory. Lying sizes are a separate family '
               '(Create may fail, but what it produces must still satisfy everything). Held-on-observed.',
 'level_note': 'Sizes at the per-file limits are exercised with streamed zero content (16 MiB; thorough also the 500 MiB total, extraction '
               'skipped); larger contents are only declared. Trusts archive/zip of the standard library as the independent reader and ref/refzip.',
 'nbatch': {'quick': 16, 'thorough': 64},
 'timeout': {'quick': 300, 'thorough': 3000},
 'rule': 'one evaluation = one oracle decision (create-vs-checkfiles, archive restrictions, CheckZip, Unzip, tree comparison); a class is '
         '(family x Create outcome), (list theme x outcome), (module intent | broken module rule), (number of valid files x whether files were '
         'dropped), lying-size family x outcome, or an unspecified doc-vs-code corner that was skipped.',
 'floors': {'all': [('pipeline-ok', 500),
                    ('family:honest:create-ok=true', 500),
                    ('family:honest:create-ok=false', 100),
                    ('family:bad-module:create-ok=false', 100),
                    ('lying:lying-longer:checkfiles-ok:create-ok=false', 10),
                    ('lying:lying-shorter:checkfiles-ok:create-ok=true', 10),
                    ('created:valid=5-12:dropped=true', 10),
                    ('theme:mutated:create-ok=true', 50),
                    ('module-rejected:major-mismatch', 5),
                    ('module-rejected:version-not-canonical', 5),
                    ('family:big:create-ok=true', 1),
                    ('family:big:create-ok=false', 1)]},
 'assumptions': ['archive/zip of the standard library reads back what an archive contains',
                 'ref/refzip transcribes the documented restrictions correctly (doc-vs-code corners are skipped and counted as unspecified:* classes)',
                 'SHA-256 collisions do not occur',
                 'the sandbox file system is case-sensitive and accepts arbitrary UTF-8 and non-UTF-8 names']}
CFG['level_text'] += ' Every small honest archive is created a second time into a writer that fails at a case-derived point (0, 1, half, last byte, random): creation must then report an error.'
CFG['level_text'] += " Every small honest creation is also repeated with one file's reader failing part-way (six error values): creation must fail; two cases have a go.mod / LICENSE that reports 100 bytes on the first Lstat and MaxGoMod+1 afterwards."
CFG['level_text'] += ' A LICENSE of MaxLICENSE+1 bytes below the root must be archived like any other file; a third of the bad-module cases pair a usual path with a generated version.'
CFG['level_text'] += ' A third of the failing-reader repeats fail in Open itself (not-exist, permission, wrapped, plain).'
CFG['level_text'] += ' The bad-module pool has paths with runes beyond ASCII whose low byte is an allowed ASCII character and versions with non-ASCII digits and Latin-1 letters.'
