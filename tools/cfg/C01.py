"""Configuration of the C01 check (read by tools/propcfg.py)."""

CFG = {
    'level': 'fault_enumeration',
    'design_ref': '5.1 C01',
    'technique': 'runtime monitoring with fault injection under the race detector: a real sumdb.Client runs in a simulated world (own RFC 6962 log + own Ed25519 note signer); the honest run records the responses and cache files actually consumed, every one of them is then faulted by every mutator; online monitors on Lookup results, WriteCache and WriteConfig decide authenticity with independent code',
    'level_text': 'For every tree size 1..24 and around 32/64 (thorough: 1..40, 47, 100 and around 64/128/256/1024/4097), tile heights 1,2,3,8 (thorough 1,2,3,4,5,8,10), looked-up records and five cache states (cold, warm from a smaller tree, warm from the same tree, stored head only, cache filled from a larger tree), the honest lookup must succeed; then each consumed response x mutator (generic byte faults, tile slot faults, authentic-but-different records, stale heads, renumbered ids, forged text, foreign and duplicate signatures, operator-signed heads with smuggled lines), poisoned cache files, 2-3 simultaneous faults, self-consistent forged record+tile chains through k tile levels and a wholly forged log whose head carries one of nine signature blocks without a valid signature are replayed (log versions include ones ending in letters of "/go.mod"); a lookup may only succeed with the lines of an authentic record, every WriteCache/WriteConfig argument must be authentic, and a fresh honest client over whatever was persisted must succeed.'
               " Added after seeded changes: a fifth cache state (cache filled from a larger tree, so cached full tiles are sliced to partial ones) and the fault family 'partial tile 404 + completed full tile with true prefix / corrupt prefix / ragged length'.",
    'level_note': 'Faults are enumerated over the responses the honest run consumed (single faults exhaustively per mutator with PRNG-chosen positions; multi-faults sampled). The adversary does not hold the signing key except for the smuggled-lines head. Trusts crypto/ed25519, crypto/sha256, ref/refmerkle and the note/tree/record format readers in harness/world.',
    'race': True,
    'nbatch': {'quick': 16, 'thorough': 64},
    'timeout': {'quick': 900, 'thorough': 3400},
    'gomaxprocs': 2,
    'rule': 'fault plan = (tree size, tile height, record, cache mode, consumed response or cache file, mutator); a class is (mutator @ response kind / tile level, outcome rejected | accepted (authentic, harmless) | violation) or an honest-run shape (cache mode, remote reads, cache hits).',
    'floors': {'all': [('fault:forged-record+tiles:k=1:rejected', 1), ('fault:flip-bit@tile-L0:rejected', 1), ('fault:signed-head-with-smuggled-lines@lookup:accepted', 1),
                       ('fault:other-authentic-record@lookup:accepted', 1), ('fault:cache-flip-bit@tile:rejected', 1), ('fault:forged-text-honest-head@lookup:rejected', 1)]},
    'assumptions': ['Ed25519 signatures cannot be forged and SHA-256 has no collisions', 'the format readers in harness/world implement the documented note, tree and record formats'],
}
CFG['level_text'] += " The forged-log family has a tenth shape: the signature block of the client's stored head under the forged tree text."
CFG['level_text'] += ' In cold mode half of the cases start from the stored head of the still empty log.'
CFG['level_text'] += ' Two honest databases whose names differ in a trailing or doubled slash share one cache: every lookup must succeed.'
CFG['level_text'] += ' In the forged-log family the second request of the refused client is answered from the same forged log with the very same head bytes (a refusal must not be remembered as a verification).'
