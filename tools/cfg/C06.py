"""Configuration of the C06 check (read by tools/propcfg.py)."""

CFG = {'level': 'exploration',
 'design_ref': '5.6 C06',
 'technique': 'runtime monitoring with a reference-model oracle: the doc comments of CheckPath, CheckImportPath, CheckFilePath (and of the character '
              'classes), SplitPathVersion, CheckPathMajor/PathMajorPrefix, Check and MatchPrefixPatterns transcribed clause by clause (ref/refpath, '
              'path.Match from the standard library for globs) and compared with the real functions on clause-targeted generated inputs',
 'level_text': 'CheckPath, CheckImportPath, CheckFilePath, SplitPathVersion, PathMajorPrefix, Check, CheckPathMajor, MatchPathMajor and '
               'MatchPrefixPatterns are run on ~2.7e6 (quick) / ~1.5e8 (thorough) generated paths, path/version pairs and glob lists: one generator per '
               'documented clause (each clause observed holding and broken alone, for each path kind), every non-alphanumeric ASCII byte and a set of '
               'non-ASCII characters at four positions, every Windows device name and near miss x every casing x suffix x position, tables of /vN and '
               'gopkg.in suffixes, single-edit mutations of valid paths and token soup; each result is compared with the clause model, and the '
               'inclusions module <= import <= file and the SplitPathVersion postcondition are checked on the real results. Held-on-observed only.',
 'level_note': 'Trusts the transcription in ref/refpath, ref/refsemver and path.Match. Inputs on which doc comment and long-standing behaviour differ '
               '(two dots in a row, leading dash of an import path, short-name rule for file paths, COM0/LPT0, gopkg.in .v0-unstable, several '
               'trailing slashes on a glob) have no verdict and are counted as unspecified:* classes; (globs, target) pairs in which a bracket '
               'expression or escape spans a "/" are outside the generated domain (known finding matchprefix-slash-in-class).',
 'nbatch': {'quick': 16, 'thorough': 64},
 'timeout': {'quick': 600, 'thorough': 3000},
 'rule': 'a path is valid for a kind iff it breaks no documented clause of that kind (refpath.Check); Split/Check/CheckPathMajor/MatchPrefixPatterns '
         'equal their documented definitions. A class is (generator clause x path kind x verdict), (clause broken alone x kind), (character x verdict '
         'per kind), (suffix form), (pair: suffix form x match x exception), (glob: result x depth x list feature) or an unspecified:* class.',
 'floors': {'all': [('gen:valid-module:module:valid', 100),
                    ('gen:valid-import:import:valid', 100),
                    ('gen:valid-file:file:valid', 100),
                    ('reject-alone:allowed-chars:module', 1),
                    ('reject-alone:allowed-chars:import', 1),
                    ('reject-alone:allowed-chars:file', 1),
                    ('reject-alone:elements-nonempty:import', 1),
                    ('reject-alone:trailing-dot:file', 1),
                    ('reject-alone:windows-reserved-name:module', 1),
                    ('reject-alone:windows-reserved-name:file', 1),
                    ('reject-alone:windows-short-name:import', 1),
                    ('reject-alone:first-element-chars:module', 1),
                    ('reject-alone:first-element-dot:module', 1),
                    ('reject-alone:first-element-leading-dash:module', 1),
                    ('reject-alone:element-leading-dot:module', 1),
                    ('reject-alone:major-suffix:module', 1),
                    ('reject-alone:gopkg.in-suffix:module', 1),
                    ('gopkg-suffix:.v-unstable:invalid', 1),
                    ('gopkg-suffix:.v0:valid', 1),
                    ('char:"+":ivv', 1),
                    ('valid-module-suffix:/vN', 1),
                    ('valid-module-suffix:.vN-unstable', 1),
                    ('check:none:incompatible-exception:valid', 1),
                    ('check:.vN:gopkg-v1-pseudo-exception:valid', 1),
                    ('check:/vN:match=false:short=false:invalid', 1),
                    ('check:/vN:match=true:short=false:valid', 1),
                    ('check:version-invalid:invalid', 1),
                    ('pathmajor:none:incompatible=true:pseudo0=false:match=true', 1),
                    ('match:true:prefix', 100),
                    ('match:true:single-element', 100),
                    ('match:false:none', 100),
                    ('finding-input:matchprefix-slash-in-class', 1)]},
 'assumptions': ['the clause-by-clause transcription of the doc comments in ref/refpath is correct',
                 'path.Match, unicode.IsLetter and ref/refsemver are correct',
                 'Windows reserved names are the 22 names CON PRN AUX NUL COM1-9 LPT1-9']}
CFG['level_text'] += ' Non-ASCII runes are also drawn from the edges of every range of the Unicode letter tables and from pairs that agree in their low 16 bits.'
CFG['level_text'] += ' Each batch also starts 12 (thorough 60) fresh child processes whose very first calls into package module come from sixteen goroutines released together; every verdict must match the documented rules.'
CFG['level_text'] += ' The path soup includes reserved stems that first occur inside a longer word and later stand as an element (falcon/con/driver.go).'
CFG['level_text'] += ' The three path checks are asked a second time in the opposite order (file, import, module) and must repeat their verdicts.'
CFG['level_text'] += ' Version fields include decimal digits outside ASCII and identifiers with Latin-1 letters and a lone Latin-1 byte.'
