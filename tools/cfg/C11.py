"""Configuration of the C11 check (read by tools/propcfg.py)."""

CFG = {'level': 'exploration',
 'design_ref': '5.11 C11',
 'technique': 'runtime monitoring: round-trip, no-upper-case, pairwise case-fold distinctness and exact-image monitors on EscapePath/UnescapePath and '
              'EscapeVersion/UnescapeVersion, with input validity decided by the clause model of the doc comments (ref/refpath)',
 'level_text': 'EscapePath/EscapeVersion are run on ~1.2e6 (quick) / ~4.5e7 (thorough) generated module paths and versions (valid by construction with dense '
               'upper/lower variation, single-edit mutations, import/file paths, non-semver words, token soup) and every accepted input is checked '
               'for: accepted iff documented-valid, no upper case in the escaped form, Unescape(Escape(x)) == x, no other input seen with a '
               'case-fold-equal escape; all 2^k casings (k<=8) of random skeletons are escaped and compared pairwise (~6e6 / ~2.5e8 pairs); '
               'UnescapePath/UnescapeVersion are run on ~8e5 / ~3e7 strings in and around the image (escapes, one-edit mutants with !!, trailing !, '
               '!A, !1, bare upper case, non-ASCII, soup): success requires a documented-valid result whose Escape is the argument. '
               'Held-on-observed only.',
 'level_note': 'Trusts ref/refpath for which inputs are valid. Inputs on which doc comment and behaviour differ (the open clauses of C06 and versions '
               'with non-ASCII letters, which the doc comment allows and the package rejects) have no accept/reject verdict; when the package '
               'accepts them the three guarantees are still demanded.',
 'nbatch': {'quick': 16, 'thorough': 64},
 'timeout': {'quick': 600, 'thorough': 3000},
 'rule': 'Escape accepts x iff x is documented-valid; for accepted x: escaped has no upper-case letter, Unescape gives x back, and no two different '
         'accepted inputs have EqualFold escapes; Unescape(e)=y succeeds only if y is documented-valid and Escape(y)==e. A class is (input generator x '
         'validity x number of upper-case letters x accepted), (escaped-string shape x documented image membership x accepted), a case-family size, '
         'or an unspecified:* class.',
 'floors': {'all': [('escape-path:valid-module-cased:valid:upper=many:accepted=true', 100),
                    ('escape-path:mutated-module:invalid:upper=many:accepted=false', 10),
                    ('escape-path:bang-inserted:invalid:upper=0:accepted=false', 10),
                    ('escape-version:semver:valid:upper=many:accepted=true', 100),
                    ('escape-version:word:invalid:upper=0:accepted=false', 10),
                    ('unescape-path:wellformed-with-bang:image=valid:accepted=true', 100),
                    ('unescape-path:wellformed-with-bang:image=invalid:accepted=false', 10),
                    ('unescape-path:bare-upper:image=invalid:accepted=false', 10),
                    ('unescape-path:bang-upper:image=invalid:accepted=false', 10),
                    ('unescape-path:bang-digit:image=invalid:accepted=false', 10),
                    ('unescape-path:double-bang:image=invalid:accepted=false', 10),
                    ('unescape-path:trailing-bang:image=invalid:accepted=false', 10),
                    ('unescape-path:non-ascii:image=invalid:accepted=false', 10),
                    ('unescape-version:wellformed-with-bang:image=valid:accepted=true', 100),
                    ('unescape-version:wellformed-plain:image=invalid:accepted=false', 10),
                    ('unescape-version:bang-digit:image=invalid:accepted=false', 10),
                    ('unescape-version:trailing-bang:image=invalid:accepted=false', 10),
                    ('case_family_pairs', 500000)]},
 'assumptions': ['the clause-by-clause transcription of the doc comments in ref/refpath is correct (which paths and versions are valid inputs)',
                 'strings.EqualFold is the meaning of "equal ignoring case"']}
CFG['level_text'] += ' Each batch also starts 12 (thorough 60) fresh child processes whose very first calls into package module come from sixteen goroutines released together (escape round trips and path verdicts).'
CFG['level_text'] += ' Every third escape/unescape call is made twice in a row (valid and invalid inputs alike) and must give the same answer both times.'
