"""Configuration of the C14 check (read by tools/propcfg.py)."""

CFG = {
    'level': 'exploration',
    'design_ref': '5.14 C14',
    'technique': 'runtime monitoring under the Go race detector: concurrent lookups of real sumdb.Clients against the repository\'s own in-process sumdb.Server, totally ordered ClientOps trace with offline trace checkers, schedule gates at the verif yield points (random noise + three scripted windows), in-memory head install monitor, porcupine linearizability check of the once-cache',
    'level_text': '1200 random-schedule runs (thorough 30000) of 1-4 clients x 2-16 goroutines x 3-12 modules (upper-case paths, /go.mod, private patterns, tile heights 1/2/8, log growing underneath) plus scripted install-race, config compare-and-swap conflict and same-key stampede windows: every lookup must return exactly the server\'s lines, per client every lookup file is read from cache and fetched at most once, config writes never lower the size and the final head is the largest delivered, private paths cause no external operation, the in-memory head only grows, the once-cache histories are linearizable (porcupine), and the race detector must stay silent in golang/mod frames.',
    'level_note': 'Schedules are sampled (Go scheduler + gate noise + three forced windows), not enumerated; the race detector only sees executed paths. Expected lines come from the deterministic gosum function given to the repository\'s TestServer; the server itself is part of the system under test.',
    'race': True,
    'nbatch': {'quick': 16, 'thorough': 64},
    'timeout': {'quick': 900, 'thorough': 3400},
    'gomaxprocs': 4,
    'jobs': 8,
    'rule': 'a run = (policy, clients, goroutines, modules, height, pattern list, PRNG-derived lookups); distinct classes are served-line kinds, policies, forced windows actually hit, observed merge-retry / write-conflict per policy, 256 hash buckets of the interleaving signature (ordered client x op sequence) and porcupine verdicts.',
    'floors': {'all': [('forced:install-race', 1), ('observed:merge-retry:install-race', 1), ('forced:cas-conflict', 1), ('observed:write-conflict:cas-conflict', 1), ('forced:stampede', 1),
                       ('served:upper-case-path', 1), ('served:upper-case-path:go.mod', 1), ('skipped-private-path', 1), ('skipped-only-client-silent', 1), ('porcupine:ok', 1), ('race_detector_enabled', 1)]},
    'assumptions': ['the deterministic gosum function defines the expected go.sum lines', 'porcupine v1.3.0 decides linearizability of the recorded histories correctly'],
}
CFG['level_text'] += ' The private-module pattern list is one of six equivalent lists (malformed and empty elements, character classes, a trailing slash), each confirmed by the harness\'s own reading of the documented matching; module versions include ones ending in letters of "/go.mod".'
CFG['level_text'] += ' In half of the runs store and transport hand the very same bytes to every client asking for the same thing; afterwards no handed-out buffer may have changed.'
CFG['level_text'] += ' Module versions and paths include upper-case letters (also Z); tile height 30 is among the heights drawn.'
CFG['level_text'] += ' Three of the nine private-pattern lists contain no glob character at all, two of them with trailing slashes on the patterns.'
