"""Configuration of the C13 check (read by tools/propcfg.py)."""

CFG = {
    'level': 'fault_enumeration',
    'design_ref': '5.13 C13',
    'technique': 'runtime monitoring under the race detector: real sumdb.Clients against a misbehaving-operator world (two independently built logs sharing a prefix, both signed with the configured key); trace-based "depends on" oracle per lookup, compare-and-swap config monitor, security-callback monitor, schedule gates at the verif yield points for two clients sharing one config',
    'level_text': 'All fork triples (prefix p, sizes a, b) up to 8 (thorough: 14 plus 400 sampled triples up to 40), tile heights 1,2,3,8, long-lived and per-lookup clients, three cache warmths, server switching A->B->A (also with the forking server mixing the hashes of both branches per tile slot, in every width of a tile or only in the widest / only in the narrower copies it is asked for), and two concurrent clients fed by different branches on one config store (random schedule noise and a scripted compare-and-swap conflict): no lookup that consumed a response whose signed head is off the stored timeline may succeed, the stored head never changes on such a refusal, every config write extends the previous head on one branch, all installed heads lie on one branch, and a security error always comes with a callback carrying two mutually inconsistent authentic heads.'
               " Added after seeded changes: ONE client with two goroutines shown different branches (gate between consistency check and install; the install hook reports both heads and every in-memory install must stay on one branch), an honest log growing under 1-3 clients x 2-4 goroutines (config may never shrink), a restarted client whose init-time config read fails once, a forking server that mixes both branches' hashes per tile slot (tree shapes with de-duplicated tree-hash tiles such as 19/23 at height 2), and every security report of every scenario must carry two authentic mutually inconsistent heads.",
    'level_note': 'Fork shapes are enumerated exhaustively up to the bound; schedules of the concurrent scenarios are sampled (gate noise + one forced conflict script). Both branches are signed with the real key (operator misbehaviour). Trusts crypto and the independent log/note code in harness/world.',
    'race': True,
    'nbatch': {'quick': 16, 'thorough': 64},
    'timeout': {'quick': 900, 'thorough': 3400},
    'gomaxprocs': 2,
    'rule': 'scenario = (p, a, b, height, client lifetime, warmth | concurrent policy); a class is (fork|consistent, phase, outcome) per lookup, scenario kind x lifetime x warmth, concurrent policy x winner, security-error per phase.',
    'floors': {'all': [('fork:phase2-B:refused', 1), ('security-error:phase2-B', 1), ('consistent:phase2-B:served', 1), ('conc:cas-conflict-forced', 1), ('conc:random:winner=A', 1), ('one-client:install-race-forced', 1), ('one-client:install-race-retry-observed', 1), ('growing:write-conflict-observed', 1)]},
    'assumptions': ['Ed25519 signatures cannot be forged and SHA-256 has no collisions'],
}
CFG['level_text'] += ' Restarting-client scenarios also lose the stored head (or roll it back to the common prefix) while the cache survives, look a cached record up and then meet the forked server.'
CFG['level_text'] += " The operator also signs a size-0 head with a wrong hash (served with a record, or left as the stored head): the lookup must fail; a fifth of the fork scenarios carry a 70 KiB co-signature line in branch B's heads."
