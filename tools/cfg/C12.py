"""Configuration of the C12 check (read by tools/propcfg.py)."""

_FLOORS = [('own:clean:honest=true:check=true:unzip=true', 500),
           ('own:clean:honest=false:check=true:unzip=false', 100),
           ('own:prefix:honest=true:check=false:unzip=false', 20),
           ('own:unclean:honest=true:check=false:unzip=false', 20),
           ('own:fold-collision:honest=true:check=false:unzip=false', 20),
           ('own:file-vs-directory:honest=true:check=false:unzip=false', 20),
           ('own:duplicate-file:honest=true:check=false:unzip=false', 20),
           ('own:go.mod-not-at-root:honest=true:check=false:unzip=false', 20),
           ('own:go.mod-case:honest=true:check=false:unzip=false', 20),
           ('own:total-size:honest=false:check=false:unzip=false', 20),
           ('own:go.mod-size:honest=false:check=false:unzip=false', 3),
           ('fault:name-fault/name:escape:check=false:unzip=false', 20),
           ('fault:size-fault/size:declared+1:check=true:unzip=false', 20),
           ('fault:size-fault/size:declared-1:check=true:unzip=false', 20),
           ('fault:size-fault/crc:wrong:check=true:unzip=false', 20),
           ('fault:module-fault:check=false:unzip=false', 50),
           ('target:deep:check=true:unzip=true', 10),
           ('target:empty:check=true:unzip=true', 10)]

CFG = {'level': 'fault_enumeration',
 'design_ref': '5.12 C12',
 'technique': 'runtime monitoring with fault injection on archives: every archive is written entry by entry with archive/zip CreateRaw/Create so '
              'names, declared sizes and CRCs are arbitrary, then checked and extracted in a fresh sandbox whose whole root (target, sentinel '
              'siblings three levels up, archive) is snapshotted (path, type, size, sha256) before and after; a sub-batch is extracted again in a '
              'child process under strace -f and the syscall log is checked offline',
 'level_text': 'For 8*10^3 (quick) / 3*10^5 (thorough) archives = valid-by-construction entry sets plus labelled faults (names with .., absolute, '
               'backslashes, empty elements, trailing slash, wrong/partial/case-varied prefix, duplicates, fold collisions incl. the Kelvin sign, '
               'file-vs-directory, reserved names, go.mod misplaced or mis-cased, directory entries with data; declared size +1/-1/0/much larger, '
               'wrong CRC, deflate and store, declared sizes around MaxGoMod/MaxLICENSE/MaxZipFile up to 2^64-1; invalid module path/version; '
               'missing, empty, deep, non-empty and non-directory targets): Unzip succeeds exactly when CheckZip accepts and every file entry '
               'has its declared size and CRC; an accepted archive obeys every documented restriction (own checker); after success the tree '
               'equals the entries; nothing is ever created or changed outside the target directory (snapshot; thorough: also every successful '
               'openat(O_CREAT)/mkdirat/symlinkat/linkat/renameat*/mknodat of 1.6*10^4 traced extractions lies under the target).'
               ' Added after seeded changes: header attribute bits (unix/DOS directory bit, exec) on raw entries, and an archive-swap scenario in which a goroutine alternates a valid and an escaping archive at the same path by rename while Unzip runs.',
 'level_note': 'Sizes near the limits are only declared, never materialised. A failed extraction may leave partial files inside the target '
               '(documented). Escapes more than three directory levels above the target are visible only to the strace monitor and the end-of-batch '
               'check of the sandbox base. The converse "an archive that obeys every restriction is accepted" is not part of the statement; it is '
               'recorded as the class note:own-checker-clean-but-checkzip-rejects (0 on the unchanged tree).',
 'nbatch': {'quick': 16, 'thorough': 64},
 'timeout': {'quick': 300, 'thorough': 3000},
 'rule': 'fault plan = (archive kind, injected fault label, target kind); a class is (fault label x CheckZip outcome x Unzip outcome), (first '
         'restriction the own checker finds broken x honesty of sizes/CRCs x outcomes), (target kind x outcomes), a strace event kind, or an '
         'unspecified corner that was skipped (declared CRC 0, doc-vs-code differences of CheckFilePath).',
 'floors': {'quick': _FLOORS,
            'thorough': _FLOORS + [('strace:create-inside-target:openat', 1000), ('strace:create-inside-target:mkdirat', 1000),
                                   ('strace:window:unzip-ok=true', 500), ('strace:window:unzip-ok=false', 500)]},
 'assumptions': ['archive/zip of the standard library serialises the entries as given (CreateRaw)',
                 'ref/refzip transcribes the documented restrictions correctly',
                 'strace -f reports every file-creating syscall of the traced child (thorough tier)',
                 'SHA-256 collisions do not occur']}
CFG['level_text'] += ' Targets include directories holding only leftovers below subdirectories (a stale file, or empty directories): should extraction into one succeed, the tree must still equal the entries.'
CFG['level_text'] += ' 320 (thorough 6400) honest archives are extracted while RLIMIT_FSIZE is lowered to 1..70000 bytes around the call (SIGXFSZ ignored, write(2) fails with EFBIG): with an entry over the limit extraction must not report success, with all entries fitting it must succeed.'
CFG['level_text'] += ' Entry names include reserved stems that first occur inside a longer word of the same path (icons/con.png, null/nul.txt).'
CFG['level_text'] += ' Entry names include white space other than U+0020 at either end and directories named with letters whose case-folded form is shorter in UTF-8.'
