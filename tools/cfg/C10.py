"""Configuration of the C10 check (read by tools/propcfg.py)."""

CFG = {'level': 'fault_enumeration',
 'design_ref': '5.10 C10',
 'technique': 'runtime monitoring with fault injection: honest run records the tiles actually consumed, then every consumed tile x mutator is '
              'replayed; oracle = true hashes / true tile bytes of an independent log; SaveTiles argument monitor',
 'level_text': 'For every tree size (1..40 and around powers of two to 257; thorough to 520 and 4097), tile heights 1,2,3,4,8 (thorough 1..10) and '
               'index sets (every leaf, every stored index, random sets, the sets TreeHash/ProveRecord/ProveTree ask for), each tile the honest read '
               'consumed is corrupted by each of 12 mutators and per 32-byte slot, plus tile pairs, wrong tree hash and self-consistent forged '
               'chains through k tile levels; the read must fail or return only true hashes and only true tiles may reach SaveTiles.',
 'level_note': 'Single- and double-tile faults plus consistent chain forgeries on the enumerated shapes; arbitrary multi-tile adversaries are '
               'sampled, not enumerated. Trusts SHA-256 and ref/refmerkle.',
 'nbatch': {'quick': 16, 'thorough': 64},
 'gomaxprocs': 4,
 'timeout': {'quick': 150, 'thorough': 3000},
 'rule': 'fault plan = (tree size, height, index set, consumed tile, mutator); a class is (mutator @ request position / tile level, outcome '
         'rejected|accepted-harmless|violation) or an honest-run shape (height, number of tiles consumed) or a tile-path shape.',
 'floors': {'all': [('fault:forged-chain:k=1:rejected', 1),
                    ('fault:flip-bit@pos0/L0:rejected', 1),
                    ('fault:wrong-tree-hash:rejected', 1),
                    ('path:mutated-rejected', 1)]},
 'assumptions': ['SHA-256 collisions do not occur',
                 'the tile reader contract (ReadTiles returns len(tiles) slices) is honoured by the harness server']}
CFG['level_text'] += ' Each batch ends with 40 (thorough 400) rounds of honest reads from eight goroutines at mixed tile heights, each with its own reader: every read must succeed with the true hashes.'
CFG['level_text'] += ' Honest reads through tiles are also made on virtual logs of 2^31 … 2^61 records at heights 1, 3 and 8, including stored hashes of level 33 and above.'
CFG['level_text'] += ' Every other concurrent round shares one reader among the eight goroutines; the empty request is part of every (n, h) case.'
CFG['level_text'] += ' Tile height 30, the largest accepted, is part of both tiers.'
CFG['level_text'] += ' Heights 9 and 10 and trees of 600 and 1030 records are part of the quick tier (spans of more than 2^9 hashes inside one tile).'
CFG['level_text'] += ' ReadTileData is also driven, for half of the published tiles, with a storage reader whose reply is short without an error (one hash or all hashes missing): refusal or the true tile are the only outcomes allowed.'
CFG['level_text'] += ' In the concurrent rounds (96 quick / 800 thorough) the q-th reads of the eight goroutines are released together by a gate.'
