"""Configuration of the C04 check (read by tools/propcfg.py)."""

CFG = {'level': 'exploration',
 'design_ref': '5.4 C04',
 'technique': 'runtime monitoring: reference-model oracle (regexp grammar + math/big precedence) and order-axiom monitors over generated strings, '
              'pairs, triples',
 'level_text': 'Every exported semver function is run on ~1.5e6 (quick) / 2.4e8 (thorough) generated strings, neighbourhood pairs and triples and each '
               'result is compared with an independent model; held-on-observed only, no universal claim.',
 'level_note': "Trusts the regexp transcription of the documented grammar, math/big, and that the generator's neighbourhoods reach the interesting "
               'orderings (coverage floors enforce the key ones).',
 'nbatch': {'quick': 16, 'thorough': 64},
 'timeout': {'quick': 600, 'thorough': 3000},
 'rule': 'versions from a rule-targeted generator (valid by construction, single-rule mutations, random soup; numeric fields up to 40 digits), '
         'pairs/triples from one-field neighbourhoods; oracle = anchored regexp of the documented grammar + math/big SemVer precedence model + order '
         'axioms. A class is distinct by (validity shape | invalid rule broken | deciding field x magnitude x sign of a comparison | sign pattern of '
         'a triple).',
 'floors': {'all': [('cmp:pre-num-vs-alpha:-1', 1),
                    ('cmp:pre-num-num-difflen:1', 1),
                    ('cmp:major-big-big:1', 1),
                    ('cmp:one-invalid:-1', 1),
                    ('invalid:leading-zero-core', 1),
                    ('sort', 1)]},
 'assumptions': ['regexp transcription of the package doc grammar is correct', 'math/big and regexp are correct']}
CFG['level_text'] += ' Sort is also given 2e4 (quick) / 1e6 (thorough) short lists, two thirds of them already ascending by precedence with the members of each tie in descending string order.'
CFG['level_text'] += ' The number and identifier pools include decimal digits outside ASCII (alone, behind ASCII digits, hiding a leading zero) and Latin-1 letters.'
