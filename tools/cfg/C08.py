"""Configuration of the C08 check (read by tools/propcfg.py)."""

CFG = {'level': 'exploration',
 'design_ref': '5.8 C08',
 'technique': 'runtime monitoring with a lockstep reference model: generated go.mod / go.work files with uniquely tagged comments x sessions of '
              'documented edit operations on the real modfile.File / WorkFile and on ref/refmodfile (set/map model); oracle = strict re-parse of '
              'the formatted result vs. model directive multiset, plus tag lookup for comment survival',
 'level_text': 'About 1.7e5 (quick) / 3e6 (thorough) sessions of 1..12 operations (all Add*/Drop*/Set* of go.mod and go.work, Cleanup before '
               'every bulk set and at the end) with valid arguments from a 4-path x 3-version universe on generated starting files (duplicates, '
               'mixed line/block forms, commented blocks, comments before the closing parenthesis, blank lines, one-line and empty blocks); after '
               'each session the formatted file must parse strictly, carry exactly the model\'s directives, and every line no operation targeted '
               '(and the documented de-duplication did not remove) must still have its own tagged leading and end-of-line comments. '
               'Held-on-observed only.',
 'level_note': 'Trusts ref/refmodfile (written from the doc comments; de-duplication is applied where the real operations call SortBlocks) and '
               'the strict parser as reader of the result (C02/C20 guard the parser). Layout (which block a new line lands in), Use.ModulePath and '
               'the rationale text of AddRetract are not part of the model; comments of lines an operation rewrote are observed, not demanded '
               '(C16 demands them for the bulk setters). Only valid arguments, module path without major suffix.',
 'nbatch': {'quick': 16, 'thorough': 64},
 'timeout': {'quick': 400, 'thorough': 3000},
 'rule': 'a case is (starting file, operation sequence); a class is (file kind, operation, model effect), a de-duplication kind that actually '
         'removed a line (per calling operation), drop-then-add-before-Cleanup per directive kind, a starting-file shape, a session length, or '
         '(file kind, directive kind, line|block form, which tags) of an untouched line whose comments were checked.',
 'floors': {'all': [('op:mod:AddRequire:update+dups-removed', 50),
                    ('op:mod:AddReplace:rewrite-versioned-to-wildcard', 200),
                    ('op:mod:DropReplace:one+other-version-stays', 60),
                    ('op:mod:AddExclude:noop-present', 200),
                    ('op:mod:AddTool:noop-present', 500),
                    ('op:mod:SetRequireSeparateIndirect:kept+removed+dup-removed+added', 20),
                    ('op:work:SetUse:kept+removed+dup-removed+added', 50),
                    ('op:work:AddUse:present+dups-removed', 50),
                    ('dedup:exclude-earlier-wins', 200),
                    ('dedup:replace-later-wins:different-target', 200),
                    ('dedup:tool-earlier-wins', 300),
                    ('dedup:mod:AddTool:replace-later-wins:different-target', 50),
                    ('dedup:work:SetUse:replace-later-wins:different-target', 50),
                    ('seq:mod:drop-then-add-before-cleanup:require', 20),
                    ('seq:work:drop-then-add-before-cleanup:use', 10),
                    ('file:mod:commented-block', 2000),
                    ('file:mod:comment-before-rparen', 1000),
                    ('tags:untouched:mod:require:block:b+s', 700),
                    ('tags:untouched:mod:exclude:block:b+s', 2000),
                    ('tags:untouched:work:use:block:b+s', 300)]},
 'assumptions': ['ref/refmodfile transcribes the documented semantics of the edit operations correctly',
                 'the strict parser reads the formatted result correctly (guarded by C02/C20)',
                 'operations receive valid arguments only; Cleanup is called before every bulk set and at the end']}
CFG['level_text'] += ' The edit universe includes a module path spelled `require`, a version pair differing in +incompatible only, and `indirect` markers with other white space than single blanks.'
CFG['level_text'] += ' A sixth of the requested requirement lists repeat one entry (same path, same version), which asks for one requirement.'
CFG['level_text'] += ' Sessions include calls the operations refuse (AddExclude/AddRetract with non-canonical or wrong-major versions, AddGoStmt/AddToolchainStmt with malformed versions, go.mod and go.work): the model does not move, an acceptance is a violation, and the session goes on.'
CFG['level_text'] += ' Replacement targets include two module paths at the same version, so an AddReplace may change the path alone.'
CFG['level_text'] += ' Use directories and replacement targets include an undecodable byte next to the end, a final combining mark and a final superscript digit (all written unquoted).'
