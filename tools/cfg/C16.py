"""Configuration of the C16 check (read by tools/propcfg.py)."""

CFG = {'level': 'exploration',
 'design_ref': '5.16 C16',
 'technique': 'runtime monitoring: SetRequire / SetRequireSeparateIndirect / SetUse + Cleanup on generated starting files; oracle = exact-set '
              'postcondition on the strict re-parse and on the Require/Use list, own block-order comparators (ref/refmodfile), tag lookup for the '
              'comments of kept lines, statement-level separation of direct and indirect requirements on qualifying files',
 'level_text': '9e4 (quick) / 1e6 (thorough) cases per setter, each 1..3 rounds of parse, [Cleanup,] Set*, Cleanup, Format, strict re-parse (the '
               'output of a round is the next starting file): starting files with duplicated paths, several require/use blocks and single lines, '
               'commented blocks, tagged comments, exclude/retract blocks whose lexical and semantic orders differ, go directives on both sides of '
               '1.21, and a third of the go.mod files with one uncommented require line or block; requested lists of 0..8 distinct paths '
               'overlapping the file by 0..100 %. Exactly the requested set must result, every block must be in its documented order, kept lines '
               'must keep their tagged comments, and SetRequireSeparateIndirect on a qualifying file must leave at most two require statements, '
               'none holding both direct and indirect requirements. The minimal witness of the repaired SetUse defect (6.7) runs as a fixed '
               'regression case. Held-on-observed only.'
               " Added after seeded changes: end-of-line comments that merely start with the word 'indirect'; the indirect marker is read with the documented rule independently of the parser under test, and the rest of a kept line's comment must equal its original text.",
 'level_note': 'Trusts ref/refsemver for version order and the strict parser as reader of the result. "Qualifying" is read strictly: exactly one '
               'require statement, no comment on it or on its lines other than "// indirect" (an additional empty require block is counted as '
               'unspecified and skipped). Order of exclude blocks for pre-releases of go 1.21 is treated as unspecified (not generated).',
 'nbatch': {'quick': 16, 'thorough': 64},
 'timeout': {'quick': 400, 'thorough': 3000},
 'rule': 'a case is (starting file, up to three (setter, pre-Cleanup?, requested list)); a class is (setter, kept/removed/dup-removed/added '
         'combination), (block verb, prescribed comparator, size) and whether the other comparator would disagree, (setter, tags of a kept line, '
         'direction of the indirect flip), (qualifying form, requested direct/indirect mix), round number.',
 'floors': {'all': [('set:SetRequire:kept+removed+dup-removed+added', 500),
                    ('set:SetRequireSeparateIndirect:kept+dup-removed', 100),
                    ('set:SetUse:kept+removed+dup-removed+added', 500),
                    ('order:exclude:exclude-semver:differs-from-lexical', 100),
                    ('order:exclude:lexical:differs-from-semver', 80),
                    ('order:retract:retract-descending:differs-from-lexical', 3000),
                    ('order:require:lexical:n>=2', 10000),
                    ('order:use:lexical:n>=2', 5000),
                    ('comments:kept:SetRequire:s:direct->indirect', 200),
                    ('comments:kept:SetRequireSeparateIndirect:b+s:indirect->direct', 500),
                    ('comments:kept:SetUse:b+s', 3000),
                    ('separation:qualifying:block:requested:direct+indirect', 1000),
                    ('separation:qualifying:line:requested:direct+indirect', 400),
                    ('round:3:SetRequireSeparateIndirect', 500),
                    ('regression:fixed-6.7-setuse', 1)]},
 'assumptions': ['ref/refsemver orders versions correctly (checked against golang.org/x/mod/semver by C04)',
                 'the strict parser reads the formatted result correctly (guarded by C02/C20)',
                 'requested lists have distinct paths and valid versions']}
CFG['level_text'] += ' A quarter of the go.mod rounds first change the go version on the same structure (AddGoStmt across and around 1.21, including pre-release versions); block order is judged by the version the file then declares.'
CFG['level_text'] += ' Half of the multi-round cases continue on the structure of the previous round instead of re-parsing its output.'
CFG['level_text'] += ' Use directories and replacement targets include paths ending in `//`.'
CFG['level_text'] += ' A third of the rounds withdraw one to three existing exclusions (DropExclude, no Cleanup) right before the bulk call, so the blocks being sorted still hold dead lines.'
CFG['level_text'] += ' The version pool has two releases of equal length whose string order differs from their version order (v1.10.0, v1.9.10).'
