"""Configuration of the C03 check (read by tools/propcfg.py)."""

CFG = {'level': 'exploration',
 'design_ref': '5.3 C03',
 'technique': 'runtime monitoring: differential oracle (independent RFC 6962 prover + RFC 9162 verifier) over every (t,n) and a labelled mutation '
              'family, read-bound monitor on the HashReader',
 'level_text': 'All (t,n) up to T=100 (quick) / 800 plus trees around 2^10..2^16 (thorough): proofs must be byte-equal to the RFC 6962 construction '
               'and CheckRecord/CheckTree accept/reject must equal the RFC 9162 algorithms on every mutated tuple (proof hashes, length, order, '
               'index, sizes, leaf, both roots, out-of-range). Held-on-observed.'
               ' Added after seeded changes: eight goroutines proving and checking at once must reproduce the sequential results, and a log grown through a zero-copy HashReader (tree hash taken after every append) must keep yielding RFC 6962 proofs.',
 'level_note': 'Trusts crypto/sha256 and the literal transcription of RFC 6962 §2.1 / RFC 9162 §2.1.3.2, §2.1.4.2 in ref/refmerkle.',
 'gomaxprocs': 4,
 'nbatch': {'quick': 16, 'thorough': 64},
 'timeout': {'quick': 400, 'thorough': 3000},
 'hang_replay_s': 60,
 'rule': 'every tree size t<=T and every n; per honest tuple a labelled mutation family; a class is (record|tree, mutation label, whether the RFC '
         '9162 reference accepts). Exact accept/reject equality is demanded, so mutations that leave the tuple valid are decided by the reference.',
 'floors': {'all': [('tree:wrong-old-root:accept=false', 1),
                    ('record:wrong-leaf:accept=false', 1),
                    ('tree:honest:accept=true', 1),
                    ('record:drop:accept=false', 1),
                    ('record:out-of-range-t:accept=false', 1)]},
 'assumptions': ['SHA-256 collisions do not occur', 'ref/refmerkle transcribes the RFCs correctly']}
CFG['level_text'] += ' Each run also drives the provers on virtual logs of 2^31 … 2^61 records (all equal but a few special ones): tree hash, audit paths and consistency proofs must be exactly those of RFC 6962 evaluated on the same virtual log, the checkers must accept them, and no hash outside the tree may be asked for.'
