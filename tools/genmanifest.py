#!/usr/bin/env python3
"""Regenerates /verif/MANIFEST.json from tools/propcfg.py (single source of truth)."""
import json, os, subprocess, sys
ROOT = os.path.dirname(os.path.dirname(os.path.abspath(__file__)))
sys.path.insert(0, os.path.join(ROOT, "tools"))
from propcfg import PROPS, NOT_APPLICABLE, HOOK_COMMITS

ALL = ["C%02d" % i for i in range(1, 21)]
checks = []
for pid in ALL:
    if pid not in PROPS:
        continue
    c = PROPS[pid]
    checks.append({
        "property_id": pid,
        "quick_cmd": "./check %s --tier quick" % pid,
        "thorough_cmd": "./check %s --tier thorough" % pid,
        "evidence_file": "/verif/evidence/%s.json" % pid,
        "replay_cmd_template": "./check %s --replay {path}" % pid,
        "engine": "vcheck-race" if c.get("race") else "vcheck",
        "level_claimed": {"category": c["level"], "text": c["level_text"], "design_ref": c["design_ref"]},
        "level_note": c["level_note"],
        "technique": c["technique"],
    })
na = [{"property_id": p, "reason": NOT_APPLICABLE.get(p, "engine not built yet in this snapshot; see DESIGN.md")} for p in ALL if p not in PROPS]
m = {
    "version": 1,
    "setup_cmd": "./check --setup",
    "hooks": {
        "guard": "verif",
        "enable": "go build -tags verif (done by ./check: the harness module replaces golang.org/x/mod with /repo)",
        "baseline_off_cmd": "python3 /verif/tools/baseline_off.py",
        "source_commits": HOOK_COMMITS,
        "add_only": True,
    },
    "engines": [
        {"name": "vcheck", "path": "/verif/harness/cmd/vcheck", "serves_properties": [p for p in ALL if p in PROPS and not PROPS[p].get("race")],
         "kind_free_text": "Go worker (tag verif) running generated/hostile workloads against golang/mod with reference-model monitors; one child process per batch, write-ahead input log"},
        {"name": "vcheck-race", "path": "/verif/harness/cmd/vcheck", "serves_properties": [p for p in ALL if p in PROPS and PROPS[p].get("race")],
         "kind_free_text": "same worker built with -race; simulated sumdb world (ClientOps, fault plans, gates at verif yield points), trace checkers, porcupine"},
    ],
    "checks": checks,
    "not_applicable": na,
    "notes": "All checks are runtime monitors over executions of the real code built from /repo's working tree. Exit 2 = inconclusive (never folded into pass or violation). known_findings.txt lists repaired (fixed:) and recorded (known:) upstream defects.",
}
json.dump(m, open(os.path.join(ROOT, "MANIFEST.json"), "w"), indent=1)
print("wrote MANIFEST.json with", len(checks), "checks,", len(na), "not_applicable")
