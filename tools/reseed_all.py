#!/usr/bin/env python3
"""Development aid: re-run the recorded checks of every archived seed against the current checks
(patched scratch copy, VERIF_REPO) and update meta.json['checks'] / ['caught']. Does not redo the
build/test/demo validation of the seed itself."""
import glob, json, os, re, shutil, subprocess, sys, tempfile, time
env = dict(os.environ, GOFLAGS="-mod=mod", GOPROXY="off", GOSUMDB="off", GOTOOLCHAIN="local")
only = sys.argv[1:]
missed = []
for mp in sorted(glob.glob("/verif/seeded/*/meta.json")):
    d = os.path.dirname(mp)
    m = json.load(open(mp))
    if only and not any(m["name"].startswith(o) for o in only):
        continue
    checks = list(m.get("checks", {}).keys()) or [m["property"]]
    tmp = tempfile.mkdtemp(prefix="reseed-")
    try:
        repo = os.path.join(tmp, "repo")
        subprocess.check_call(["rsync", "-a", "--exclude", ".git", "/repo/", repo + "/"])
        r = subprocess.run(["patch", "-p1", "-s", "-i", os.path.join(d, "patch.diff")], cwd=repo, capture_output=True, text=True)
        if r.returncode:
            print(m["name"], "PATCH DOES NOT APPLY", r.stdout[:200]); missed.append(m["name"]); continue
        res = {}
        for p in checks:
            t0 = time.time()
            rr = subprocess.run(["./check", p], cwd="/verif", env=dict(env, VERIF_REPO=repo), capture_output=True, text=True)
            cls = sorted(set(re.findall(r"^\s+class=(\S+)", rr.stdout, re.M)))
            res[p] = {"exit": rr.returncode, "violation_lines": len([l for l in rr.stdout.splitlines() if l.startswith("VIOLATION")]),
                      "classes": cls[:12], "wall_s": round(time.time() - t0, 1), "summary": (rr.stdout.strip().splitlines() or [""])[-1][:200]}
        m["checks"] = res
        m["caught"] = any(v["exit"] == 1 for v in res.values())
        m["rechecked"] = time.strftime("%Y-%m-%d %H:%M")
        json.dump(m, open(mp, "w"), indent=1)
        print(m["name"], "caught" if m["caught"] else "MISSED", {k: v["exit"] for k, v in res.items()}, flush=True)
        if not m["caught"]:
            missed.append(m["name"])
    finally:
        shutil.rmtree(tmp, ignore_errors=True)
        for f in os.listdir("/verif/harness"):
            if f.startswith("go.alt-"):
                os.remove(os.path.join("/verif/harness", f))
        subprocess.run("rm -f /verif/.bin/alt-*", shell=True)
print("MISSED:", missed)
