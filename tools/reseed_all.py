#!/usr/bin/env python3
"""Development aid: re-run every archived seed against the current checks (patched scratch copy,
VERIF_REPO). For each seed the checks recorded as catching it are run, the property's own first, until
one reports a violation; the outcome goes to meta.json['recheck'] (the 'checks' table of the first
ingestion is left alone). Seeds recorded as not caught (judged outside the statements) are run against
their own check and must stay silent or not, either way they are only reported.
   reseed_all.py [--shard i/n] [name-prefix ...]"""
import glob, hashlib, json, os, re, shutil, subprocess, sys, tempfile, time
env = dict(os.environ, GOFLAGS="-mod=mod", GOPROXY="off", GOSUMDB="off", GOTOOLCHAIN="local")
args = sys.argv[1:]
shard = (0, 1)
if args and args[0] == "--shard":
    i, n = args[1].split("/")
    shard = (int(i), int(n))
    args = args[2:]
missed, n_done = [], 0
metas = sorted(glob.glob("/verif/seeded/*/meta.json"))
for k, mp in enumerate(metas):
    if k % shard[1] != shard[0]:
        continue
    d = os.path.dirname(mp)
    m = json.load(open(mp))
    if args and not any(m["name"].startswith(o) for o in args):
        continue
    rec = m.get("checks", {})
    own = m["property"]
    order = [own] if own in rec or not rec else []
    order += [p for p, v in rec.items() if v.get("exit") == 1 and p != own]
    order += [p for p in rec if p not in order and m.get("caught") is False]
    if own not in order:
        order.insert(0, own)
    # own check first only if it was among the catchers; otherwise catchers first
    catchers = [p for p in order if rec.get(p, {}).get("exit") == 1]
    order = catchers + [p for p in order if p not in catchers]
    tmp = tempfile.mkdtemp(prefix="reseed-")
    repo = os.path.join(tmp, "repo")
    tag = hashlib.sha256(repo.encode()).hexdigest()[:10]
    try:
        subprocess.check_call(["rsync", "-a", "--exclude", ".git", "/repo/", repo + "/"])
        r = subprocess.run(["patch", "-p1", "-s", "-i", os.path.join(d, "patch.diff")], cwd=repo, capture_output=True, text=True)
        if r.returncode:
            print(m["name"], "PATCH DOES NOT APPLY", r.stdout[:200], flush=True); missed.append(m["name"]); continue
        res = {}
        for p in order:
            t0 = time.time()
            rr = subprocess.run(["./check", p], cwd="/verif", env=dict(env, VERIF_REPO=repo), capture_output=True, text=True)
            cls = sorted(set(re.findall(r"^\s+class=(\S+)", rr.stdout, re.M)))
            res[p] = {"exit": rr.returncode, "classes": cls[:6], "wall_s": round(time.time() - t0, 1)}
            if rr.returncode == 1:
                break
        now_caught = any(v["exit"] == 1 for v in res.values())
        m["recheck"] = {"when": time.strftime("%Y-%m-%d %H:%M"), "results": res, "caught": now_caught}
        json.dump(m, open(mp, "w"), indent=1)
        n_done += 1
        state = "caught" if now_caught else ("silent (recorded as outside the statements)" if m.get("caught") is False else "MISSED")
        print(m["name"], state, {k: v["exit"] for k, v in res.items()}, flush=True)
        if not now_caught and m.get("caught") is not False:
            missed.append(m["name"])
    finally:
        shutil.rmtree(tmp, ignore_errors=True)
        for f in os.listdir("/verif/harness"):
            if f.startswith("go.alt-" + tag):
                os.remove(os.path.join("/verif/harness", f))
        subprocess.run("rm -f /verif/.bin/alt-%s-*" % tag, shell=True)
print("done:", n_done, "MISSED:", missed, flush=True)
