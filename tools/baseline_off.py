#!/usr/bin/env python3
"""Runs golang/mod's own test suite with the verif guard OFF and compares per-test
results with the stable_pass list of /root/.vp/BASELINE.json (exit codes are not
comparable: zip.TestVCS and tlog.TestCertificateTransparency need the network)."""
import json, os, subprocess, sys
env = dict(os.environ, GOFLAGS="-mod=mod", GOPROXY="off", GOSUMDB="off", GOTOOLCHAIN="local")
p = subprocess.run(["go", "test", "-json", "-vet=off", "-count=1", "-timeout", "25m", "./..."], cwd="/repo", env=env,
                   capture_output=True, text=True)
passed, failed = set(), set()
for line in p.stdout.splitlines():
    try:
        e = json.loads(line)
    except ValueError:
        continue
    if e.get("Test") and e.get("Action") in ("pass", "fail"):
        (passed if e["Action"] == "pass" else failed).add(e["Package"] + "::" + e["Test"])
want = set(json.load(open("/root/.vp/BASELINE.json"))["stable_pass"]) if os.path.exists("/root/.vp/BASELINE.json") else set()
missing = sorted(want - passed)
print("tests passed: %d, failed: %d, baseline stable_pass: %d, baseline names not passing: %d" % (len(passed), len(failed), len(want), len(missing)))
for m in missing[:50]:
    print("NOT PASSING:", m)
print("failing (informational):", sorted(failed))
sys.exit(1 if missing else 0)
