#!/usr/bin/env python3
"""Development aid: rewrite the table of DESIGN.md §9.7 from the committed quick evidence (seed 1) and the
log of a thorough sweep.   tiertable.py <thorough-sweep-log>"""
import json, re, sys

def sci(n):
    s = "%.1e" % n
    m, e = s.split("e")
    return "%se%d" % (m, int(e))

th = {}
for l in open(sys.argv[1], errors="replace"):
    m = re.match(r"(C\d\d) tier=thorough seed=(\d+): evaluations=(\d+) .*violations=(\d+) inconclusive=(\d+) wall=([\d.]+)s", l)
    if m:
        th[m.group(1)] = (int(m.group(3)), float(m.group(6)), int(m.group(4)), int(m.group(5)))
man = json.load(open("/verif/MANIFEST.json"))
race = {c["property_id"] for c in man["checks"] if "-race" in json.dumps(c) or "race detector" in json.dumps(c).lower()}
rows = ["| id | quick evaluations / wall | thorough evaluations / wall | race |", "|----|--------------------------|-----------------------------|------|"]
for k in range(1, 21):
    p = "C%02d" % k
    e = json.load(open("/verif/evidence/%s.json" % p))
    q = "%s / ~%d s" % (sci(e["coverage"]["evaluations"]), round(e["wall_s"] + 0.5))
    t = "%s / ~%d s" % (sci(th[p][0]), round(th[p][1])) if p in th else "(not in this sweep)"
    rows.append("| %s | %s | %s | %s |" % (p, q, t, "yes" if p in ("C01", "C13", "C14") else "–"))
s = open("/verif/DESIGN.md").read()
a = s.index("| id | quick evaluations / wall |")
b = a
while b < len(s) and s[b:b + 1] == "|":
    b = s.index("\n", b) + 1
s = s[:a] + "\n".join(rows) + "\n" + s[b:]
open("/verif/DESIGN.md", "w").write(s)
print("table rewritten:", len(th), "thorough rows; silent:", all(v[2] == 0 and v[3] == 0 for v in th.values()))
