"""Per-property configuration of the ./check driver: one file per property under tools/cfg/."""
import importlib.util
import os

HOOK_COMMITS = ["c60118c", "ee2f7d8", "159cf71"]

# property id -> reason, for properties that are deliberately not claimed
NOT_APPLICABLE = {}

PROPS = {}
_d = os.path.join(os.path.dirname(os.path.abspath(__file__)), "cfg")
for _fn in sorted(os.listdir(_d)):
    if _fn.endswith(".py") and _fn[0] == "C":
        _spec = importlib.util.spec_from_file_location("cfg_" + _fn[:-3], os.path.join(_d, _fn))
        _m = importlib.util.module_from_spec(_spec)
        _spec.loader.exec_module(_m)
        PROPS[_fn[:-3]] = _m.CFG
