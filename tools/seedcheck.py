#!/usr/bin/env python3
"""Development aid (not registered in MANIFEST): confirm and archive a seeded defect.

  seedcheck.py <PROP> <dir with patch.diff + demo files + README.md> <name> [--checks C01,C10] [--needs "text"]

1. In a throw-away copy of /repo: patch applies, `go build ./...` and `go vet` of the touched packages are clean,
   golang/mod's own tests pass (apart from the two network tests), the demonstration FAILS with the patch
   and PASSES without it.
2. Runs the named checks (default: the property's own) against the patched copy via VERIF_REPO and records
   exit code and violation classes.
3. Stores /verif/seeded/<name>/{patch.diff, demo files, README.md, meta.json}.
"""
import json, os, re, shutil, subprocess, sys, tempfile, time

env = dict(os.environ, GOFLAGS="-mod=mod", GOPROXY="off", GOSUMDB="off", GOTOOLCHAIN="local")


def sh(cmd, cwd, **kw):
    return subprocess.run(cmd, cwd=cwd, env=env, capture_output=True, text=True, **kw)


def main():
    prop, src, name = sys.argv[1:4]
    checks = [prop]
    needs = ""
    tier = "quick"
    race_demo = False
    a = sys.argv[4:]
    while a:
        if a[0] == "--checks":
            checks = a[1].split(","); a = a[2:]
        elif a[0] == "--needs":
            needs = a[1]; a = a[2:]
        elif a[0] == "--race-demo":
            race_demo = True; a = a[1:]
        elif a[0] == "--tier":
            tier = a[1]; a = a[2:]
        else:
            sys.exit("bad arg " + a[0])
    patch = os.path.join(src, "patch.diff")
    demos = [f for f in os.listdir(src) if f not in ("patch.diff", "README.md", "meta.json")]
    d = tempfile.mkdtemp(prefix="seed-")
    meta = {"property": prop, "name": name, "needs_to_manifest": needs, "ran": [], "date": time.strftime("%Y-%m-%d")}
    try:
        repo = os.path.join(d, "repo")
        subprocess.check_call(["rsync", "-a", "--exclude", ".git", "--exclude", "SEEDED", "--exclude", "SEED_TASK.md", "/repo/", repo + "/"])
        diff = open(patch).read()
        touched = sorted(set(os.path.dirname(l[6:]) for l in diff.splitlines() if l.startswith("+++ b/")))
        meta["touched_packages"] = touched
        # where do the demo files go? next to the package named in their `package` clause dir — use README hint or first touched pkg
        def place_demos():
            for f in demos:
                p = os.path.join(src, f)
                if os.path.isdir(p):
                    shutil.copytree(p, os.path.join(repo, f), dirs_exist_ok=True)
                    continue
                if not f.endswith(".go"):
                    continue  # supporting material (partial patches, notes): archived, not built
                txt = open(p, errors="replace").read()
                m = re.search(r"^// *seeded-demo-dir: *(\S+)", txt, re.M)
                dest = m.group(1) if m else None
                if dest is None:
                    pm = re.search(r"^package (\w+)", txt, re.M)
                    pk = pm.group(1) if pm else ""
                    pk = pk[:-5] if pk.endswith("_test") else pk
                    cand = [t for t in touched if os.path.basename(t) == pk] or [t for t in ["sumdb", "sumdb/tlog", "sumdb/note", "sumdb/dirhash", "modfile", "module", "semver", "zip"] if os.path.basename(t) == pk]
                    dest = cand[0] if cand else "zz_seeded_demo"  # a standalone test package using the public API
                os.makedirs(os.path.join(repo, dest), exist_ok=True)
                shutil.copy(p, os.path.join(repo, dest, f))
                yield dest
        demo_pkgs = sorted(set(place_demos()))
        meta["demo_packages"] = demo_pkgs
        demo_run = "|".join(sorted(set(re.findall(r"^func (Test\w+)\(", "".join(open(os.path.join(src, f), errors="replace").read() for f in demos if f.endswith("_test.go")), re.M))))
        def run_demo():
            ok = True
            out = ""
            for pk in demo_pkgs:
                race = ["-race"] if any("go:build race" in open(os.path.join(src, f), errors="replace").read() for f in demos if f.endswith(".go")) or race_demo else []
                r = sh(["go", "test", "-tags", "seeded_demo", "-vet=off", "-count=1"] + race + ["-run", "^(%s)$" % demo_run, "./" + pk + "/"], repo, timeout=1500)
                out += r.stdout[-1500:] + r.stderr[-500:]
                ok = ok and r.returncode == 0
            return ok, out
        ok0, out0 = run_demo()
        meta["demo_passes_without_patch"] = ok0
        r = sh(["patch", "-p1", "-s", "-i", os.path.abspath(patch)], repo)
        if r.returncode:
            print("PATCH DOES NOT APPLY", r.stdout, r.stderr); return 3
        b = sh(["go", "build", "./..."], repo)
        v = sh(["go", "vet"] + ["./" + t + "/" for t in touched], repo)
        meta["builds"] = b.returncode == 0
        meta["vet_clean"] = v.returncode == 0
        # the repository's own tests run without the demonstration files (a demonstration may leave
        # process-wide state behind that its neighbours in the package then see)
        placed = []
        for pk in demo_pkgs:
            for f in demos:
                fp = os.path.join(repo, pk, f)
                if os.path.isfile(fp):
                    placed.append((fp, open(fp, "rb").read()))
                    os.remove(fp)
        t = sh(["go", "test", "-vet=off", "-count=1", "./..."], repo, timeout=1800)
        for fp, data in placed:
            open(fp, "wb").write(data)
        fails = [l for l in t.stdout.splitlines() if l.startswith("--- FAIL") and "TestVCS" not in l and "TestCertificateTransparency" not in l
                 and not any(dn in l for dn in demo_run.split("|") if dn)]
        meta["repo_tests_pass_with_patch"] = not fails
        meta["repo_test_failures"] = fails[:10]
        ok1, out1 = run_demo()
        meta["demo_fails_with_patch"] = not ok1
        meta["demo_output_with_patch"] = out1[-1200:]
        print("builds=%s vet=%s repo_tests_pass=%s demo_passes_without=%s demo_fails_with=%s" % (meta["builds"], meta["vet_clean"], not fails, ok0, not ok1))
        # remove demo files before running the checks (they are not part of the change)
        for pk in demo_pkgs:
            for f in demos:
                fp = os.path.join(repo, pk, f)
                if os.path.exists(fp):
                    os.remove(fp)
        results = {}
        for p in checks:
            e = dict(env, VERIF_REPO=repo)
            t0 = time.time()
            r = subprocess.run(["./check", p, "--tier", tier], cwd="/verif", env=e, capture_output=True, text=True)
            cls = sorted(set(re.findall(r"^\s+class=(\S+)", r.stdout, re.M)))
            nviol = len([l for l in r.stdout.splitlines() if l.startswith("VIOLATION")])
            results[p] = {"exit": r.returncode, "violation_lines": nviol, "classes": cls[:12], "wall_s": round(time.time() - t0, 1),
                          "summary": (r.stdout.strip().splitlines() or [""])[-1][:200]}
            print("  check %s: exit=%d violations=%d classes=%s" % (p, r.returncode, nviol, cls[:5]))
            meta["ran"].append("VERIF_REPO=<patched copy> ./check %s --tier %s" % (p, tier))
        meta["checks"] = results
        meta["caught"] = any(v["exit"] == 1 for v in results.values())
        good = meta["builds"] and meta["repo_tests_pass_with_patch"] and ok0 and not ok1
        meta["valid_seed"] = bool(good)
        dst = os.path.join("/verif/seeded", name)
        os.makedirs(dst, exist_ok=True)
        if os.path.realpath(src) != os.path.realpath(dst):
            shutil.copy(patch, os.path.join(dst, "patch.diff"))
            for f in demos:
                p = os.path.join(src, f)
                if os.path.isfile(p):
                    shutil.copy(p, os.path.join(dst, f))
            if os.path.exists(os.path.join(src, "README.md")):
                shutil.copy(os.path.join(src, "README.md"), os.path.join(dst, "README.md"))
        else:
            old_meta = json.load(open(os.path.join(dst, "meta.json"))) if os.path.exists(os.path.join(dst, "meta.json")) else {}
            for k in ("needs_to_manifest", "history"):
                if old_meta.get(k) and not meta.get(k):
                    meta[k] = old_meta[k]
        json.dump(meta, open(os.path.join(dst, "meta.json"), "w"), indent=1)
        print("archived to", dst, "valid_seed=%s caught=%s" % (good, meta["caught"]))
        return 0
    finally:
        shutil.rmtree(d, ignore_errors=True)
        import hashlib
        tag = hashlib.sha256(os.path.join(d, "repo").encode()).hexdigest()[:10]  # the driver's name for this scratch copy
        for f in os.listdir("/verif/harness"):
            if f.startswith("go.alt-" + tag):
                os.remove(os.path.join("/verif/harness", f))
        subprocess.run("rm -f /verif/.bin/alt-%s-*" % tag, shell=True)


if __name__ == "__main__":
    sys.exit(main())
