#!/usr/bin/env python3
"""Development aid: prepare a seed round.  mkround.py <prefix> <extra-paragraph-file> [PROPS...]
Creates a detached git worktree of /repo at <prefix><PROP> for each property and writes SEED_TASK.md
there: tools/seed_brief.md with the property text, a list of the code sites earlier seeds of that
property already changed, and the round's extra paragraph. Nothing from /verif goes into the worktree
except that text."""
import glob, json, os, re, subprocess, sys
prefix, extra = sys.argv[1], open(sys.argv[2]).read()
props = {}
for l in open("/verif/properties.jsonl"):
    d = json.loads(l)
    props[d["id"]] = d
brief = open("/verif/tools/seed_brief.md").read()
for p in sys.argv[3:] or sorted(props):
    d = props[p]
    text = "**%s.** %s\n\nThis must hold %s.\n\nThe code involved is mainly in: %s." % (d["title"], d["statement"], d["quantifier"]["text"], ", ".join(d["anchors"]["files"]))
    sites = set()
    for pd in glob.glob("/verif/seeded/%s-*/patch.diff" % p):
        f = None
        for l in open(pd, errors="replace"):
            if l.startswith("+++ b/"):
                f = l[6:].strip()
            m = re.match(r"@@ [^@]* @@ ?(.*)", l)
            if m and f:
                fn = re.sub(r"\s*\{\s*$", "", m.group(1).strip())
                sites.add("%s: %s" % (f, fn or "(top of file)"))
    used = "\n## Code sites already used\n\nEarlier rounds already produced changes at the following places (file: enclosing declaration). Do NOT use these again; pick a different function or a different mechanism:\n\n" + "\n".join("* `%s`" % s for s in sorted(sites)) + "\n"
    wt = prefix + p
    subprocess.check_call(["git", "-C", "/repo", "worktree", "add", "--detach", "-q", wt])
    body = brief.replace("{PROPERTY}", text).replace("## What to produce", used + "\n" + extra + "\n## What to produce", 1)
    body = body.replace("at the directory named below", "at `%s`" % wt)
    open(os.path.join(wt, "SEED_TASK.md"), "w").write(body)
    print(wt, len(sites), "sites")
