#!/usr/bin/env python3
"""Prints the markdown table of /verif/seeded/*/meta.json (which checks catch which seeded change)."""
import glob, json, os
rows = []
for p in sorted(glob.glob("/verif/seeded/*/meta.json")):
    m = json.load(open(p))
    caught = []
    for k, v in m.get("checks", {}).items():
        if v["exit"] == 1:
            caught.append("%s (%s)" % (k, ", ".join(v["classes"][:3])))
    missed = [k for k, v in m.get("checks", {}).items() if v["exit"] != 1]
    rows.append("| %s | %s | %s | %s | %s | %s |" % (m["name"], m["property"], m.get("needs_to_manifest", "").replace("|", "/"),
                "yes" if m.get("repo_tests_pass_with_patch") else "NO", "; ".join(caught) or "—",
                ((", ".join(missed) + " silent. ") if missed else "") + m.get("history", "")))
print("| seed | property | what it needs to manifest | repo tests pass | caught by (violation classes) | notes |")
print("|---|---|---|---|---|---|")
print("\n".join(rows))
