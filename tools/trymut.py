#!/usr/bin/env python3
"""Development aid (not registered in MANIFEST): run checks against a mutated scratch copy of /repo.

  trymut.py C01,C10 --revert <sha>
  trymut.py C04 --sub semver/semver.go 'old text' 'new text' [--sub ...]
  trymut.py C13 --patch /verif/seeded/x/patch.diff

Copies /repo (without .git) to a temp dir, applies the change, reports whether golang/mod's own tests
of the touched packages still pass, runs ./check <prop> with VERIF_REPO pointing at the copy, removes the copy.
"""
import os, shutil, subprocess, sys, tempfile
env = dict(os.environ, GOFLAGS="-mod=mod", GOPROXY="off", GOSUMDB="off", GOTOOLCHAIN="local")
args = sys.argv[1:]
props = args[0].split(",")
d = tempfile.mkdtemp(prefix="mut-")
rc_all = 0
try:
    repo = os.path.join(d, "repo")
    subprocess.check_call(["rsync", "-a", "--exclude", ".git", "/repo/", repo + "/"])
    touched = set()
    i = 1
    tier = "quick"
    while i < len(args):
        if args[i] == "--revert":
            diff = subprocess.check_output(["git", "-C", "/repo", "show", args[i + 1]])
            subprocess.run(["patch", "-R", "-p1", "-s"], input=diff, cwd=repo, check=True)
            for l in diff.decode().splitlines():
                if l.startswith("+++ b/"):
                    touched.add(os.path.dirname(l[6:]))
            i += 2
        elif args[i] == "--patch":
            diff = open(args[i + 1], "rb").read()
            subprocess.run(["patch", "-p1", "-s"], input=diff, cwd=repo, check=True)
            for l in diff.decode().splitlines():
                if l.startswith("+++ b/"):
                    touched.add(os.path.dirname(l[6:]))
            i += 2
        elif args[i] == "--sub":
            f, old, new = args[i + 1:i + 4]
            p = os.path.join(repo, f)
            s = open(p).read()
            if s.count(old) != 1:
                print("PATCH-FAIL: %r occurs %d times in %s" % (old, s.count(old), f)); sys.exit(3)
            open(p, "w").write(s.replace(old, new))
            touched.add(os.path.dirname(f))
            i += 4
        elif args[i] == "--tier":
            tier = args[i + 1]; i += 2
        else:
            print("bad arg", args[i]); sys.exit(3)
    b = subprocess.run(["go", "build", "./..."], cwd=repo, env=env, capture_output=True, text=True)
    if b.returncode:
        print("BUILD-FAIL", b.stderr[:500]); sys.exit(3)
    pk = ["./" + t + "/..." for t in sorted(touched)]
    t = subprocess.run(["go", "test", "-vet=off", "-count=1"] + pk, cwd=repo, env=env, capture_output=True, text=True)
    fails = [l for l in t.stdout.splitlines() if l.startswith("--- FAIL") and "TestVCS" not in l and "TestCertificateTransparency" not in l]
    print("repo tests on mutant (%s): %s" % (" ".join(pk), "PASS" if not fails else "FAIL " + "; ".join(fails[:5])))
    for p in props:
        e = dict(env, VERIF_REPO=repo)
        r = subprocess.run(["./check", p, "--tier", tier], cwd="/verif", env=e, capture_output=True, text=True)
        viol = [l for l in r.stdout.splitlines() if l.startswith("VIOLATION")]
        cls = sorted(set(l.strip() for l in r.stdout.splitlines() if l.strip().startswith("class=")))
        print("%s: exit=%d violations=%d %s" % (p, r.returncode, len(viol), " | ".join(c[:90] for c in cls[:6])))
        print("   ", r.stdout.strip().splitlines()[-1][:200] if r.stdout.strip() else r.stderr[-300:])
        rc_all |= (0 if r.returncode == 1 else 1)
finally:
    shutil.rmtree(d, ignore_errors=True)
    for f in os.listdir("/verif/harness"):
        if f.startswith("go.alt-"):
            os.remove(os.path.join("/verif/harness", f))
    subprocess.run("rm -f /verif/.bin/alt-*", shell=True)
sys.exit(rc_all)
